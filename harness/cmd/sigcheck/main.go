package main

import (
	"fmt"
	"os"

	"verif/harness/kernel"
	"verif/harness/props"
	"verif/harness/sim"
)

func main() {
	if len(os.Args) < 2 {
		fmt.Println("usage: sigcheck worker | run <id> [tier] | replay <file> | list")
		os.Exit(2)
	}
	switch os.Args[1] {
	case "worker":
		sim.Main()
	case "run":
		if len(os.Args) < 3 {
			os.Exit(2)
		}
		if len(os.Args) > 3 {
			os.Setenv("VERIF_TIER", os.Args[3])
		}
		f, ok := props.Registry[os.Args[2]]
		if !ok {
			fmt.Println("HARNESS-ERROR unknown property", os.Args[2])
			os.Exit(2)
		}
		os.Exit(f())
	case "replay":
		os.Exit(props.Replay(os.Args[2]))
	case "list":
		for k := range props.Registry {
			fmt.Println(k)
		}
	case "probe":
		os.Exit(props.Probe(os.Args[2:]))
	default:
		if f, ok := kernel.SubCommands[os.Args[1]]; ok {
			os.Exit(f(os.Args[2:]))
		}
		fmt.Println("unknown subcommand")
		os.Exit(2)
	}
}
