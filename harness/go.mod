module verif/harness

go 1.21.0

require (
	github.com/FastFilter/xorfilter v0.1.4
	github.com/beevik/etree v1.5.1
	github.com/bits-and-blooms/bitset v1.2.0
	github.com/bits-and-blooms/bloom/v3 v3.0.1
	github.com/brianvoe/gofakeit/v6 v6.21.0
	github.com/buger/jsonparser v1.1.1
	github.com/caio/go-tdigest/v4 v4.0.1
	github.com/cespare/xxhash v1.1.0
	github.com/dustin/go-humanize v1.0.0
	github.com/fasthttp/router v1.4.1
	github.com/fasthttp/websocket v1.5.12
	github.com/gogo/protobuf v1.3.2
	github.com/golang/snappy v0.0.4
	github.com/google/gofuzz v1.2.0
	github.com/google/uuid v1.6.0
	github.com/imdario/mergo v0.3.16
	github.com/json-iterator/go v1.1.12
	github.com/klauspost/compress v1.17.11
	github.com/linvon/cuckoo-filter v0.4.0
	github.com/lithammer/shortuuid/v4 v4.0.0
	github.com/nethruster/go-fraction v0.0.0-20221224165113-1b5f693330ad
	github.com/nqd/flat v0.1.1
	github.com/oklog/run v1.1.0
	github.com/panmari/cuckoofilter v1.0.6
	github.com/pbnjay/memory v0.0.0-20210728143218-7b4eea64cf58
	github.com/prometheus/prometheus v0.50.1
	github.com/rogpeppe/fastuuid v1.2.0
	github.com/segmentio/analytics-go/v3 v3.2.1
	github.com/seiflotfy/cuckoofilter v0.0.0-20240715131351-a2f2c23f1771
	github.com/shirou/gopsutil/v4 v4.24.12
	github.com/siglens/go-hll v0.0.0-20250702141534-039cd711c944
	github.com/sirupsen/logrus v1.9.3
	github.com/stretchr/testify v1.10.0
	github.com/valyala/bytebufferpool v1.0.0
	github.com/valyala/fasthttp v1.58.0
	github.com/valyala/fastrand v1.1.0
	github.com/xwb1989/sqlparser v0.0.0-20180606152119-120387863bf2
	go.opentelemetry.io/otel v1.24.0
	go.opentelemetry.io/otel/exporters/otlp/otlptrace v1.24.0
	go.opentelemetry.io/otel/exporters/otlp/otlptrace/otlptracehttp v1.24.0
	go.opentelemetry.io/otel/exporters/prometheus v0.39.0
	go.opentelemetry.io/otel/metric v1.24.0
	go.opentelemetry.io/otel/sdk/metric v0.39.0
	go.opentelemetry.io/proto/otlp v1.1.0
	golang.org/x/exp v0.0.0-20240119083558-1b970713d09a
	golang.org/x/sync v0.10.0
	golang.org/x/text v0.21.0
	google.golang.org/genproto/googleapis/rpc v0.0.0-20240116215550-a9fa1716bcac
	google.golang.org/protobuf v1.33.0
	gopkg.in/natefinch/lumberjack.v2 v2.2.1
	gopkg.in/yaml.v3 v3.0.1
)

require (
	github.com/cenkalti/backoff/v4 v4.2.1 // indirect
	github.com/dennwc/varint v1.0.0 // indirect
	github.com/dgryski/go-metro v0.0.0-20200812162917-85c65e2d0165 // indirect
	github.com/ebitengine/purego v0.8.1 // indirect
	github.com/go-kit/log v0.2.1 // indirect
	github.com/go-logfmt/logfmt v0.6.0 // indirect
	github.com/gorilla/websocket v1.5.0 // indirect
	github.com/grafana/regexp v0.0.0-20221122212121-6b5c0a4cb7fd // indirect
	github.com/grpc-ecosystem/grpc-gateway/v2 v2.19.0 // indirect
	github.com/jinzhu/inflection v1.0.0 // indirect
	github.com/jinzhu/now v1.1.5 // indirect
	github.com/lufia/plan9stats v0.0.0-20211012122336-39d0f177ccd0 // indirect
	github.com/mattn/go-sqlite3 v1.14.17 // indirect
	github.com/pkg/errors v0.9.1 // indirect
	github.com/power-devops/perfstat v0.0.0-20210106213030-5aafc221ea8c // indirect
	github.com/prometheus/procfs v0.12.0 // indirect
	github.com/robfig/cron/v3 v3.0.1 // indirect
	go.uber.org/atomic v1.11.0 // indirect
	google.golang.org/genproto/googleapis/api v0.0.0-20240116215550-a9fa1716bcac // indirect
	google.golang.org/grpc v1.61.1 // indirect
)

require (
	github.com/andybalholm/brotli v1.1.1 // indirect
	github.com/beorn7/perks v1.0.1 // indirect
	github.com/davecgh/go-spew v1.1.2-0.20180830191138-d8f796af33cc // indirect
	github.com/go-logr/logr v1.4.1 // indirect
	github.com/go-logr/stdr v1.2.2 // indirect
	github.com/go-ole/go-ole v1.2.6 // indirect
	github.com/golang/protobuf v1.5.3 // indirect
	github.com/modern-go/concurrent v0.0.0-20180306012644-bacd9c7ef1dd // indirect
	github.com/modern-go/reflect2 v1.0.2 // indirect
	github.com/pmezard/go-difflib v1.0.1-0.20181226105442-5d4384ee4fb2 // indirect
	github.com/prometheus/client_golang v1.18.0
	github.com/prometheus/client_model v0.5.0 // indirect
	github.com/savsgio/gotils v0.0.0-20240704082632-aef3928b8a38 // indirect
	github.com/segmentio/backo-go v1.0.0 // indirect
	github.com/tklauser/go-sysconf v0.3.12 // indirect
	github.com/tklauser/numcpus v0.6.1 // indirect
	github.com/yusufpapurcu/wmi v1.2.4 // indirect
	go.opentelemetry.io/otel/sdk v1.24.0
	go.opentelemetry.io/otel/trace v1.24.0
	golang.org/x/sys v0.28.0 // indirect
)

require (
	github.com/bmizerany/assert v0.0.0-20160611221934-b7ed37b82869 // indirect
	github.com/cespare/xxhash/v2 v2.2.0 // indirect
	github.com/go-co-op/gocron v1.31.1
	github.com/prometheus/common v0.46.0
	github.com/slack-go/slack v0.12.2
	golang.org/x/net v0.33.0 // indirect
	gorm.io/driver/sqlite v1.5.4
	gorm.io/gorm v1.25.5
)


require github.com/siglens/siglens v0.0.0

replace github.com/siglens/siglens => /repo
