package kernel

import (
	"bufio"
	"bytes"
	"crypto/sha1"
	"encoding/base64"
	"encoding/hex"
	"encoding/json"
	"fmt"
	"os"
	"path/filepath"
	"sort"
	"strings"
)

// crashfs: the operation log of a write history (recorded by the os hook overlay), a model file system that replays
// any prefix of it, a conformance check binding the model to the real directory, and materialisation of crash states.

type FsOp struct {
	S    int64  `json:"s"`
	G    int64  `json:"g"`
	Op   string `json:"op"`
	P    string `json:"p,omitempty"`
	P2   string `json:"p2,omitempty"`
	Off  int64  `json:"off,omitempty"`
	Size int64  `json:"size,omitempty"`
	Fl   int    `json:"fl,omitempty"`
	D    string `json:"d,omitempty"`
	data []byte
}

func ReadFsLog(path string) ([]*FsOp, error) {
	f, err := os.Open(path)
	if err != nil {
		return nil, err
	}
	defer f.Close()
	var out []*FsOp
	rd := bufio.NewReaderSize(f, 1<<20)
	for {
		line, err := rd.ReadBytes('\n')
		if len(bytes.TrimSpace(line)) > 0 {
			var op FsOp
			if jerr := json.Unmarshal(line, &op); jerr != nil {
				return nil, fmt.Errorf("fs log line %d: %v", len(out)+1, jerr)
			}
			if op.D != "" {
				op.data, _ = base64.StdEncoding.DecodeString(op.D)
			}
			out = append(out, &op)
		}
		if err != nil {
			break
		}
	}
	return out, nil
}

const (
	oCREATE = 0x40
	oTRUNC  = 0x200
)

// MemFS is the model file system: files, directories (symlinks as files holding their target, marked).
type MemFS struct {
	Files map[string][]byte
	Dirs  map[string]bool
	hash  map[string]string
}

func NewMemFS() *MemFS {
	return &MemFS{Files: map[string][]byte{}, Dirs: map[string]bool{".": true}, hash: map[string]string{}}
}

func (m *MemFS) touch(p string) { delete(m.hash, p) }

// Apply replays one logged operation. Unknown or impossible operations return an error (a harness error: the log and
// the model disagree about what exists).
func (m *MemFS) Apply(op *FsOp) error {
	p := strings.TrimSuffix(op.P, "/")
	switch op.Op {
	case "mark":
		return nil
	case "mkdir":
		m.Dirs[p] = true
	case "open":
		_, ok := m.Files[p]
		if !ok {
			if op.Fl&oCREATE == 0 {
				return fmt.Errorf("open without O_CREATE of missing file %s", p)
			}
			m.Files[p] = []byte{}
			m.touch(p)
		} else if op.Fl&oTRUNC != 0 {
			m.Files[p] = []byte{}
			m.touch(p)
		}
	case "write":
		b, ok := m.Files[p]
		if !ok {
			return fmt.Errorf("write to unknown file %s", p)
		}
		end := int(op.Off) + len(op.data)
		if end > len(b) {
			nb := make([]byte, end)
			copy(nb, b)
			b = nb
		} else {
			b = append([]byte{}, b...)
		}
		copy(b[op.Off:], op.data)
		m.Files[p] = b
		m.touch(p)
	case "truncate":
		b, ok := m.Files[p]
		if !ok {
			return fmt.Errorf("truncate of unknown file %s", p)
		}
		if int(op.Size) <= len(b) {
			m.Files[p] = append([]byte{}, b[:op.Size]...)
		} else {
			nb := make([]byte, op.Size)
			copy(nb, b)
			m.Files[p] = nb
		}
		m.touch(p)
	case "remove":
		if _, ok := m.Files[p]; ok {
			delete(m.Files, p)
			m.touch(p)
		} else if m.Dirs[p] {
			delete(m.Dirs, p)
		} else {
			return fmt.Errorf("remove of unknown path %s", p)
		}
	case "rename":
		p2 := strings.TrimSuffix(op.P2, "/")
		if strings.HasPrefix(p, "!outside:") || strings.HasPrefix(p2, "!outside:") {
			return fmt.Errorf("rename across the data-dir boundary: %s -> %s", p, p2)
		}
		if b, ok := m.Files[p]; ok {
			m.Files[p2] = b
			delete(m.Files, p)
			m.touch(p)
			m.touch(p2)
		} else if m.Dirs[p] {
			// replace target dir (must be empty or absent), move subtree
			for f := range m.Files {
				if strings.HasPrefix(f, p2+"/") {
					return fmt.Errorf("rename onto non-empty directory %s", p2)
				}
			}
			pre := p + "/"
			for f, b := range m.Files {
				if strings.HasPrefix(f, pre) {
					nf := p2 + "/" + strings.TrimPrefix(f, pre)
					m.Files[nf] = b
					delete(m.Files, f)
					m.touch(f)
					m.touch(nf)
				}
			}
			for d := range m.Dirs {
				if d == p || strings.HasPrefix(d, pre) {
					delete(m.Dirs, d)
					m.Dirs[p2+strings.TrimPrefix(d, p)] = true
				}
			}
		} else {
			return fmt.Errorf("rename of unknown path %s", p)
		}
	case "link":
		p2 := strings.TrimSuffix(op.P2, "/")
		b, ok := m.Files[p]
		if !ok {
			return fmt.Errorf("link of unknown file %s", p)
		}
		m.Files[p2] = b // content shared at link time (later writes through one name are not mirrored: reported if seen)
		m.touch(p2)
	case "symlink":
		return fmt.Errorf("symlink inside the data dir is not modelled: %s -> %s", op.P, op.P2)
	default:
		return fmt.Errorf("unknown fs op %q", op.Op)
	}
	return nil
}

// StateHash identifies the content of the model (paths under skip prefixes are ignored).
func (m *MemFS) StateHash(skip func(string) bool) string {
	var keys []string
	for p := range m.Files {
		if skip != nil && skip(p) {
			continue
		}
		keys = append(keys, p)
	}
	sort.Strings(keys)
	h := sha1.New()
	for _, p := range keys {
		fh, ok := m.hash[p]
		if !ok {
			s := sha1.Sum(m.Files[p])
			fh = hex.EncodeToString(s[:])
			m.hash[p] = fh
		}
		h.Write([]byte(p))
		h.Write([]byte{0})
		h.Write([]byte(fh))
		h.Write([]byte{0})
	}
	var ds []string
	for d := range m.Dirs {
		if skip != nil && skip(d) {
			continue
		}
		ds = append(ds, d)
	}
	sort.Strings(ds)
	for _, d := range ds {
		h.Write([]byte("D" + d))
		h.Write([]byte{0})
	}
	return hex.EncodeToString(h.Sum(nil)[:12])
}

// Materialize writes the model into dir (which must be empty or absent).
func (m *MemFS) Materialize(dir string) error {
	var ds []string
	for d := range m.Dirs {
		ds = append(ds, d)
	}
	sort.Strings(ds)
	if err := os.MkdirAll(dir, 0755); err != nil {
		return err
	}
	for _, d := range ds {
		if err := os.MkdirAll(filepath.Join(dir, d), 0755); err != nil {
			return err
		}
	}
	for p, b := range m.Files {
		fp := filepath.Join(dir, p)
		if err := os.MkdirAll(filepath.Dir(fp), 0755); err != nil {
			return err
		}
		if err := os.WriteFile(fp, b, 0644); err != nil {
			return err
		}
	}
	return nil
}

// Conform compares the model (after the whole log) with the real directory. skip excludes paths written outside
// package os (none for the light boot) — returned differences are harness errors.
func (m *MemFS) Conform(realDir string, skip func(string) bool) []string {
	var diffs []string
	seen := map[string]bool{}
	_ = filepath.Walk(realDir, func(p string, info os.FileInfo, err error) error {
		if err != nil {
			return nil
		}
		rel, _ := filepath.Rel(realDir, p)
		if rel == "." || (skip != nil && skip(rel)) {
			return nil
		}
		if info.IsDir() {
			if !m.Dirs[rel] {
				// directories can also be implied by MkdirAll inside package os (hooked) — a missing one is a difference
				diffs = append(diffs, "dir only on disk: "+rel)
			}
			return nil
		}
		seen[rel] = true
		mb, ok := m.Files[rel]
		if !ok {
			diffs = append(diffs, "file only on disk: "+rel)
			return nil
		}
		rb, rerr := os.ReadFile(p)
		if rerr != nil || !bytes.Equal(rb, mb) {
			diffs = append(diffs, fmt.Sprintf("content differs: %s (disk %d bytes, model %d bytes)", rel, len(rb), len(mb)))
		}
		return nil
	})
	for p := range m.Files {
		if !seen[p] && (skip == nil || !skip(p)) {
			diffs = append(diffs, "file only in model: "+p)
		}
	}
	sort.Strings(diffs)
	return diffs
}
