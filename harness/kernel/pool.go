package kernel

import (
	"fmt"
	"os"
	"runtime"
	"strconv"
	"sync"
)

// NumWorkers: queries sleep ≥10 ms in admission, so more workers than cores is profitable.
func NumWorkers() int {
	if s := os.Getenv("VERIF_WORKERS"); s != "" {
		if n, err := strconv.Atoi(s); err == nil && n > 0 {
			return n
		}
	}
	n := runtime.NumCPU() * 3
	if n > 48 {
		n = 48
	}
	return n
}

type Pool struct {
	N            int
	Boot         map[string]interface{} // boot args (dir is filled in)
	Env          []string
	RecycleEvery int // jobs per worker before it is replaced (0 = never)
	Exe          string
	MemKB        int64 // address-space limit of the workers (KB); 0 = default
}

// BootWorker spawns and boots one worker on a fresh scratch dir.
func (p *Pool) BootWorker() (*Worker, error) {
	var w *Worker
	var err error
	for attempt := 0; attempt < 4; attempt++ { // a boot can lose a port race; retry on a fresh directory
		w, err = p.bootOnce()
		if err == nil {
			return w, nil
		}
	}
	return nil, err
}

func (p *Pool) bootOnce() (*Worker, error) {
	w, err := Spawn(SpawnOpts{Env: p.Env, Exe: p.Exe, MemKB: p.MemKB})
	if err != nil {
		return nil, err
	}
	args := map[string]interface{}{}
	for k, v := range p.Boot {
		args[k] = v
	}
	args["dir"] = w.Dir
	if err := w.Call("boot", args, nil); err != nil {
		st := w.StderrTail()
		w.Close()
		return nil, fmt.Errorf("boot failed: %v\n%s", err, st)
	}
	w.Jobs = 0
	return w, nil
}

// RunPool feeds jobs to fn on N workers. fn must treat *Died as an observation; the pool replaces dead workers.
// A non-nil error from fn that is not handled there is a harness error and is returned (first one).
func RunPool[J any](p *Pool, jobs <-chan J, fn func(w *Worker, j J) error) error {
	n := p.N
	if n <= 0 {
		n = NumWorkers()
	}
	var wg sync.WaitGroup
	var mu sync.Mutex
	var first error
	for i := 0; i < n; i++ {
		wg.Add(1)
		go func() {
			defer wg.Done()
			var w *Worker
			defer func() {
				if w != nil {
					w.Close()
				}
			}()
			for j := range jobs {
				mu.Lock()
				bad := first != nil
				mu.Unlock()
				if bad {
					continue // drain
				}
				if w == nil || w.Dead() || (p.RecycleEvery > 0 && w.Jobs >= p.RecycleEvery) {
					if w != nil {
						w.Close()
					}
					var err error
					w, err = p.BootWorker()
					if err != nil {
						mu.Lock()
						if first == nil {
							first = err
						}
						mu.Unlock()
						w = nil
						continue
					}
				}
				if err := fn(w, j); err != nil {
					mu.Lock()
					if first == nil {
						first = err
					}
					mu.Unlock()
				}
			}
		}()
	}
	wg.Wait()
	return first
}
