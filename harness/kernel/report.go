package kernel

import (
	"crypto/sha1"
	"encoding/hex"
	"encoding/json"
	"fmt"
	"os"
	"path/filepath"
	"sort"
	"strconv"
	"strings"
	"sync"
	"time"
)

// VerifDir is /verif (the directory holding MANIFEST.json); overridable for tests.
func VerifDir() string {
	if s := os.Getenv("VERIF_DIR"); s != "" {
		return s
	}
	return "/verif"
}

type Finding struct {
	Property    string `json:"property"`
	Fingerprint string `json:"fingerprint"`
	Status      string `json:"status"` // known | fixed
	Commit      string `json:"commit,omitempty"`
	Witness     string `json:"witness,omitempty"`
	What        string `json:"what"`
}

func LoadFindings() ([]Finding, error) {
	b, err := os.ReadFile(filepath.Join(VerifDir(), "known_findings.json"))
	if err != nil {
		if os.IsNotExist(err) {
			return nil, nil
		}
		return nil, err
	}
	var f []Finding
	if err := json.Unmarshal(b, &f); err != nil {
		return nil, fmt.Errorf("known_findings.json: %v", err)
	}
	return f, nil
}

type Violation struct {
	Fingerprint string      `json:"fingerprint"`
	What        string      `json:"what"`
	Replay      interface{} `json:"replay"`
	path        string
}

// Report accumulates coverage for one run of one property and writes the evidence file.
type Report struct {
	Property string
	Level    string
	Tier     string
	Seed     int64
	Rule     string
	Bounds   map[string]interface{}
	Assume   []string

	mu          sync.Mutex
	start       time.Time
	evaluations int64
	transitions int64
	traces      int64
	states      map[string]struct{}
	nontrivial  map[string]struct{}
	outcomes    map[string]int64
	samples     []interface{}
	maxSamples  int
	violations  map[string]*Violation // by fingerprint (first = shortest, since enumeration is simplest-first)
	violCount   int64
	known       map[string]int64
	unrepro     []string
	caps        []string
	exhaustive  bool
	extra       map[string]interface{}
	findings    []Finding
	harnessErr  []string
	ntBulk      int64
}

func NewReport(property, level string) *Report {
	tier := os.Getenv("VERIF_TIER")
	if tier == "" {
		tier = "quick"
	}
	seed, _ := strconv.ParseInt(os.Getenv("VERIF_SEED"), 10, 64)
	f, err := LoadFindings()
	r := &Report{Property: property, Level: level, Tier: tier, Seed: seed, start: time.Now(),
		states: map[string]struct{}{}, nontrivial: map[string]struct{}{}, outcomes: map[string]int64{},
		violations: map[string]*Violation{}, known: map[string]int64{}, maxSamples: 5, exhaustive: true,
		extra: map[string]interface{}{}, Bounds: map[string]interface{}{}, findings: f}
	if err != nil {
		r.HarnessError(err.Error())
	}
	return r
}

func (r *Report) Eval(n int64)       { r.mu.Lock(); r.evaluations += n; r.mu.Unlock() }
func (r *Report) Transition(n int64) { r.mu.Lock(); r.transitions += n; r.mu.Unlock() }
func (r *Report) Trace(n int64)      { r.mu.Lock(); r.traces += n; r.mu.Unlock() }
func (r *Report) State(key string) bool {
	h := shortHash(key)
	r.mu.Lock()
	_, seen := r.states[h]
	r.states[h] = struct{}{}
	r.mu.Unlock()
	return !seen
}
func (r *Report) Nontrivial(key string) {
	h := shortHash(key)
	r.mu.Lock()
	r.nontrivial[h] = struct{}{}
	r.mu.Unlock()
}

// NontrivialBulk adds n cases that are distinct by construction (exhaustive enumeration) and non-trivial by the rule,
// for spaces too large to keep one key per case.
func (r *Report) NontrivialBulk(n int64) { r.mu.Lock(); r.ntBulk += n; r.mu.Unlock() }

func (r *Report) Outcome(key string) {
	if len(key) > 80 {
		key = shortHash(key)
	}
	r.mu.Lock()
	r.outcomes[key]++
	r.mu.Unlock()
}
func (r *Report) Sample(s interface{}) {
	r.mu.Lock()
	if len(r.samples) < r.maxSamples {
		r.samples = append(r.samples, s)
	}
	r.mu.Unlock()
}

// SampleAt keeps samples spread over the run: the i-th case is kept when i is one of a few fixed indices.
func (r *Report) SampleAt(i int64, s func() interface{}) {
	switch i {
	case 0, 7, 101, 1009, 10007:
		r.Sample(s())
	}
}
func (r *Report) Cap(what string) {
	r.mu.Lock()
	r.caps = append(r.caps, what)
	r.exhaustive = false
	r.mu.Unlock()
}
func (r *Report) Set(k string, v interface{}) { r.mu.Lock(); r.extra[k] = v; r.mu.Unlock() }
func (r *Report) Add(k string, n int64) {
	r.mu.Lock()
	c, _ := r.extra[k].(int64)
	r.extra[k] = c + n
	r.mu.Unlock()
}
func (r *Report) Unreproduced(what string) {
	r.mu.Lock()
	if len(r.unrepro) < 50 {
		r.unrepro = append(r.unrepro, what)
	}
	r.mu.Unlock()
}
func (r *Report) HarnessError(what string) {
	r.mu.Lock()
	r.harnessErr = append(r.harnessErr, what)
	r.mu.Unlock()
}

func shortHash(s string) string {
	h := sha1.Sum([]byte(s))
	return hex.EncodeToString(h[:10])
}

// IsKnown tells whether a fingerprint is listed as a known (unrepaired) finding.
func (r *Report) IsKnown(fp string) (Finding, bool) {
	for _, f := range r.findings {
		if f.Property == r.Property && f.Status == "known" && f.Fingerprint == fp {
			return f, true
		}
	}
	return Finding{}, false
}

// SeenViolation: true if this fingerprint was already recorded (callers use it to skip confirmation work).
func (r *Report) SeenViolation(fp string) bool {
	r.mu.Lock()
	defer r.mu.Unlock()
	if _, ok := r.violations[fp]; ok {
		r.violCount++
		return true
	}
	if _, ok := r.known[fp]; ok {
		r.known[fp]++
		return true
	}
	return false
}

// Violation records a confirmed violation (or a known finding). Only the first witness per fingerprint is kept.
func (r *Report) Violation(fp, what string, replay interface{}) {
	if _, ok := r.IsKnown(fp); ok {
		r.mu.Lock()
		r.known[fp]++
		first := r.known[fp] == 1
		r.mu.Unlock()
		if first {
			r.writeReplay(fp, what, replay, true)
		}
		return
	}
	r.mu.Lock()
	r.violCount++
	if _, ok := r.violations[fp]; ok {
		r.mu.Unlock()
		return
	}
	v := &Violation{Fingerprint: fp, What: what, Replay: replay}
	r.violations[fp] = v
	r.mu.Unlock()
	v.path = r.writeReplay(fp, what, replay, false)
}

func sanitize(s string) string {
	var b strings.Builder
	for _, c := range s {
		switch {
		case c >= 'a' && c <= 'z', c >= 'A' && c <= 'Z', c >= '0' && c <= '9', c == '-', c == '_', c == '.':
			b.WriteRune(c)
		default:
			b.WriteByte('_')
		}
	}
	o := b.String()
	if len(o) > 100 {
		o = o[:80] + "_" + shortHash(s)[:8]
	}
	return o
}

func (r *Report) writeReplay(fp, what string, replay interface{}, known bool) string {
	dir := filepath.Join(VerifDir(), "replays", r.Property)
	_ = os.MkdirAll(dir, 0755)
	name := sanitize(strings.TrimPrefix(fp, r.Property+"/")) + ".json"
	p := filepath.Join(dir, name)
	doc := map[string]interface{}{"property": r.Property, "fingerprint": fp, "what": what, "tier": r.Tier,
		"seed": r.Seed, "known": known, "replay": replay}
	b, _ := json.MarshalIndent(doc, "", " ")
	_ = os.WriteFile(p, b, 0644)
	return p
}

// Finish writes the evidence file, prints KNOWN-FINDING / VIOLATION lines and returns the exit code.
func (r *Report) Finish() int {
	r.mu.Lock()
	defer r.mu.Unlock()
	cov := map[string]interface{}{
		"evaluations":         r.evaluations,
		"distinct_nontrivial": int64(len(r.nontrivial)) + r.ntBulk,
		"rule":                r.Rule,
		"samples":             r.samples,
		"exhaustive":          r.exhaustive && len(r.harnessErr) == 0,
		"bounds":              r.Bounds,
		"distinct_outcomes":   len(r.outcomes),
	}
	if len(r.outcomes) <= 40 {
		cov["outcomes"] = r.outcomes
	}
	if len(r.states) > 0 || r.transitions > 0 {
		cov["states"] = int64(len(r.states))
		cov["transitions"] = r.transitions
		cov["traces_validated_against_impl"] = r.traces
	}
	if len(r.caps) > 0 {
		cov["caps_hit"] = r.caps
	}
	if len(r.unrepro) > 0 {
		cov["unreproduced"] = r.unrepro
	}
	kf := []string{}
	for fp, n := range r.known {
		kf = append(kf, fmt.Sprintf("%s x%d", fp, n))
	}
	sort.Strings(kf)
	cov["known_findings_seen"] = kf
	for k, v := range r.extra {
		cov[k] = v
	}
	if r.samples == nil {
		cov["samples"] = []interface{}{}
	}
	fps := []string{}
	for fp := range r.violations {
		fps = append(fps, fp)
	}
	sort.Strings(fps)
	if len(fps) > 0 {
		cov["violation_fingerprints"] = fps
	}
	if len(r.harnessErr) > 0 {
		cov["harness_errors"] = r.harnessErr
	}
	ev := map[string]interface{}{
		"property_id": r.Property, "tier": r.Tier, "seed": r.Seed, "level": r.Level, "coverage": cov,
		"assumptions": r.Assume, "wall_s": time.Since(r.start).Seconds(), "violations": len(r.violations),
	}
	if r.Assume == nil {
		ev["assumptions"] = []string{}
	}
	b, _ := json.MarshalIndent(ev, "", " ")
	dir := filepath.Join(VerifDir(), "evidence")
	_ = os.MkdirAll(dir, 0755)
	if err := os.WriteFile(filepath.Join(dir, r.Property+".json"), b, 0644); err != nil {
		fmt.Println("HARNESS-ERROR cannot write evidence:", err)
		return 2
	}
	for fp := range r.known {
		f, _ := r.isKnownLocked(fp)
		fmt.Printf("KNOWN-FINDING: property=%s %s (%s)\n", r.Property, f.What, fp)
	}
	fmt.Printf("%s %s: evaluations=%d nontrivial=%d states=%d transitions=%d outcomes=%d exhaustive=%v wall=%.1fs\n",
		r.Property, r.Tier, r.evaluations, int64(len(r.nontrivial))+r.ntBulk, len(r.states), r.transitions, len(r.outcomes),
		cov["exhaustive"], time.Since(r.start).Seconds())
	if len(r.harnessErr) > 0 && len(r.violations) == 0 {
		for _, e := range r.harnessErr {
			fmt.Println("HARNESS-ERROR", e)
		}
		return 2
	}
	for _, fp := range fps {
		v := r.violations[fp]
		fmt.Printf("VIOLATION property=%s replay=%s\n", r.Property, v.path)
		fmt.Printf("  fingerprint=%s: %s\n", fp, trunc(v.What, 600))
	}
	if len(fps) > 0 {
		return 1
	}
	return 0
}

func (r *Report) isKnownLocked(fp string) (Finding, bool) {
	for _, f := range r.findings {
		if f.Property == r.Property && f.Status == "known" && f.Fingerprint == fp {
			return f, true
		}
	}
	return Finding{}, false
}

// Deadline support: checks stop enumerating (exit 0, exhaustive:false) when their budget is exhausted.
type Budget struct {
	end time.Time
	hit bool
	mu  sync.Mutex
}

func NewBudget(d time.Duration) *Budget {
	if s := os.Getenv("VERIF_BUDGET_S"); s != "" {
		if n, err := strconv.Atoi(s); err == nil {
			d = time.Duration(n) * time.Second
		}
	}
	return &Budget{end: time.Now().Add(d)}
}
func (b *Budget) Exceeded() bool {
	if time.Now().After(b.end) {
		b.mu.Lock()
		b.hit = true
		b.mu.Unlock()
		return true
	}
	return false
}
func (b *Budget) Hit() bool { b.mu.Lock(); defer b.mu.Unlock(); return b.hit }

func (r *Report) Lock()   { r.mu.Lock() }
func (r *Report) Unlock() { r.mu.Unlock() }
