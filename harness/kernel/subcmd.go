package kernel

// SubCommands lets engines register extra process roles (e.g. crash-history child, recover).
var SubCommands = map[string]func(args []string) int{}
