// Package kernel: coordinator side — worker subprocesses, pools, evidence, findings, replays.
package kernel

import (
	"bufio"
	"bytes"
	"encoding/json"
	"fmt"
	"io"
	"os"
	"os/exec"
	"path/filepath"
	"strings"
	"sync"
	"sync/atomic"
	"time"
)

type Req struct {
	ID   int64       `json:"id"`
	Op   string      `json:"op"`
	Args interface{} `json:"args,omitempty"`
}

type Resp struct {
	ID  int64           `json:"id"`
	OK  bool            `json:"ok"`
	Res json.RawMessage `json:"res,omitempty"`
	Err string          `json:"err,omitempty"`
}

// Died is returned by Call when the worker process ended (crash, fatal error, os.Exit) or missed its deadline.
type Died struct {
	Exit    string
	Stderr  string // tail
	Frame   string // innermost /repo frame of a panic trace, if any
	Timeout bool
}

func (d *Died) Error() string {
	if d.Timeout {
		return "worker: no answer within deadline"
	}
	return fmt.Sprintf("worker died (%s) frame=%s", d.Exit, d.Frame)
}

type Worker struct {
	cmd    *exec.Cmd
	in     io.WriteCloser
	out    *bufio.Reader
	stderr *tailBuf
	nextID int64
	Dir    string
	dead   bool
	Jobs   int
	ownDir bool
}

type tailBuf struct {
	mu  sync.Mutex
	buf []byte
}

func (t *tailBuf) Write(p []byte) (int, error) {
	t.mu.Lock()
	t.buf = append(t.buf, p...)
	if len(t.buf) > 256<<10 {
		t.buf = t.buf[len(t.buf)-128<<10:]
	}
	t.mu.Unlock()
	return len(p), nil
}
func (t *tailBuf) String() string { t.mu.Lock(); defer t.mu.Unlock(); return string(t.buf) }

var scratchSeq int64

// ScratchRoot is where data dirs live; tmpfs when available.
func ScratchRoot() string {
	if s := os.Getenv("VERIF_SCRATCH"); s != "" {
		return s
	}
	if st, err := os.Stat("/dev/shm"); err == nil && st.IsDir() {
		return "/dev/shm/verif-scratch"
	}
	return "/var/tmp/verif-scratch"
}

func NewScratchDir(tag string) string {
	n := atomic.AddInt64(&scratchSeq, 1)
	d := filepath.Join(ScratchRoot(), fmt.Sprintf("%s-%d-%d", tag, os.Getpid(), n))
	_ = os.RemoveAll(d)
	_ = os.MkdirAll(d, 0755)
	return d
}

// SelfExe is the binary to spawn for workers (the running one unless overridden).
var SelfExe = func() string {
	if s := os.Getenv("VERIF_WORKER_EXE"); s != "" {
		return s
	}
	e, _ := os.Executable()
	return e
}()

type SpawnOpts struct {
	Env     []string
	Dir     string // data dir; created fresh when empty
	KeepDir bool
	Exe     string
	MemKB   int64 // ulimit -v in KB; 0 = default 24 GB
	SubCmd  string
}

// Spawn starts a worker process (not yet booted).
func Spawn(o SpawnOpts) (*Worker, error) {
	w := &Worker{}
	if o.Dir == "" {
		w.Dir = NewScratchDir("w")
		w.ownDir = !o.KeepDir
	} else {
		w.Dir = o.Dir
	}
	exe := o.Exe
	if exe == "" {
		exe = SelfExe
	}
	mem := o.MemKB
	if mem == 0 {
		mem = 24 << 20
	}
	sub := o.SubCmd
	if sub == "" {
		sub = "worker"
	}
	// ulimit -v guards against runaway allocations turning into a machine-wide OOM
	w.cmd = exec.Command("/bin/sh", "-c", fmt.Sprintf("ulimit -v %d; exec %q %s", mem, exe, sub))
	w.cmd.Env = append(os.Environ(), o.Env...)
	w.cmd.Dir = w.Dir
	var err error
	w.in, err = w.cmd.StdinPipe()
	if err != nil {
		return nil, err
	}
	op, err := w.cmd.StdoutPipe()
	if err != nil {
		return nil, err
	}
	w.out = bufio.NewReaderSize(op, 1<<20)
	w.stderr = &tailBuf{}
	w.cmd.Stderr = w.stderr
	if err := w.cmd.Start(); err != nil {
		return nil, err
	}
	return w, nil
}

var DefaultDeadline = 120 * time.Second

// Call performs one job. A *Died error means the worker is gone (observation, not a harness failure).
func (w *Worker) Call(op string, args interface{}, res interface{}) error {
	return w.CallT(op, args, res, DefaultDeadline)
}

func (w *Worker) CallT(op string, args interface{}, res interface{}, deadline time.Duration) error {
	if w.dead {
		return &Died{Exit: "already dead"}
	}
	w.nextID++
	w.Jobs++
	b, err := json.Marshal(Req{ID: w.nextID, Op: op, Args: args})
	if err != nil {
		return fmt.Errorf("marshal request: %v", err)
	}
	b = append(b, '\n')
	if _, err := w.in.Write(b); err != nil {
		return w.died(false)
	}
	type rd struct {
		line []byte
		err  error
	}
	ch := make(chan rd, 1)
	go func() {
		l, e := w.out.ReadBytes('\n')
		ch <- rd{l, e}
	}()
	var r rd
	select {
	case r = <-ch:
	case <-time.After(deadline):
		_ = w.cmd.Process.Kill()
		<-ch
		return w.died(true)
	}
	if r.err != nil && len(r.line) == 0 {
		return w.died(false)
	}
	var rs Resp
	if err := json.Unmarshal(r.line, &rs); err != nil {
		return fmt.Errorf("HARNESS protocol: bad response %q: %v", trunc(string(r.line), 200), err)
	}
	if rs.ID != w.nextID {
		return fmt.Errorf("HARNESS protocol: response id %d != %d", rs.ID, w.nextID)
	}
	if !rs.OK {
		return &OpError{Op: op, Msg: rs.Err}
	}
	if res != nil && len(rs.Res) > 0 {
		d := json.NewDecoder(bytes.NewReader(rs.Res))
		d.UseNumber()
		if err := d.Decode(res); err != nil {
			return fmt.Errorf("HARNESS protocol: decode result of %s: %v", op, err)
		}
	}
	return nil
}

// OpError: the worker answered, but the operation reported an error (harness-level, e.g. bad args).
type OpError struct{ Op, Msg string }

func (e *OpError) Error() string { return "op " + e.Op + ": " + e.Msg }

func trunc(s string, n int) string {
	if len(s) > n {
		return s[:n] + "…"
	}
	return s
}

func (w *Worker) died(timeout bool) error {
	w.dead = true
	_ = w.in.Close()
	done := make(chan error, 1)
	go func() { done <- w.cmd.Wait() }()
	var exit string
	select {
	case err := <-done:
		if err != nil {
			exit = err.Error()
		} else {
			exit = "exit 0"
		}
	case <-time.After(10 * time.Second):
		_ = w.cmd.Process.Kill()
		exit = "killed"
	}
	se := w.stderr.String()
	d := &Died{Exit: exit, Stderr: crashExcerpt(se), Frame: PanicFrame(se), Timeout: timeout}
	return d
}

// crashExcerpt keeps the part of stderr that explains a crash: from the panic / fatal line onwards.
func crashExcerpt(se string) string {
	i := strings.Index(se, "panic: ")
	if j := strings.Index(se, "fatal error: "); j >= 0 && (i < 0 || j < i) {
		i = j
	}
	if i < 0 {
		return tail(se, 3000)
	}
	ex := se[i:]
	if len(ex) > 3500 {
		ex = ex[:3500]
	}
	return ex
}

func tail(s string, n int) string {
	if len(s) > n {
		return s[len(s)-n:]
	}
	return s
}

// PanicFrame extracts "<what>@<innermost siglens function>" from a Go crash trace.
func PanicFrame(stderr string) string {
	i := strings.Index(stderr, "panic: ")
	j := strings.Index(stderr, "fatal error: ")
	if i < 0 || (j >= 0 && j < i) {
		i = j
	}
	if i < 0 {
		return ""
	}
	rest := stderr[i:]
	head := rest
	if k := strings.Index(head, "\n"); k >= 0 {
		head = head[:k]
	}
	kind := "panic"
	if strings.HasPrefix(head, "fatal error") {
		kind = "fatal:" + strings.TrimPrefix(head, "fatal error: ")
	}
	// first goroutine block after the message is the crashing one
	for _, l := range strings.Split(rest, "\n") {
		if strings.HasPrefix(l, "github.com/siglens/siglens/") {
			fn := l
			if p := strings.LastIndex(fn, "("); p > 0 {
				fn = fn[:p]
			}
			fn = strings.TrimPrefix(fn, "github.com/siglens/siglens/")
			return kind + "@" + fn
		}
	}
	return kind + "@?"
}

func (w *Worker) Dead() bool { return w.dead }

func (w *Worker) StderrTail() string { return tail(w.stderr.String(), 4000) }

// StderrAll returns everything kept of the worker's stderr (up to 256 KiB).
func (w *Worker) StderrAll() string { return w.stderr.String() }

// Close ends the worker and removes its data dir if it owns it.
func (w *Worker) Close() {
	if !w.dead {
		w.dead = true
		b, _ := json.Marshal(Req{ID: -1, Op: "exit"})
		_, _ = w.in.Write(append(b, '\n'))
		_ = w.in.Close()
		done := make(chan struct{})
		go func() { _ = w.cmd.Wait(); close(done) }()
		select {
		case <-done:
		case <-time.After(5 * time.Second):
			_ = w.cmd.Process.Kill()
			<-done
		}
	}
	if w.ownDir {
		_ = os.RemoveAll(w.Dir)
	}
}

// Kill ends the worker abruptly (SIGKILL) keeping its directory — the process-crash primitive.
func (w *Worker) Kill() {
	if !w.dead {
		w.dead = true
		_ = w.cmd.Process.Kill()
		_ = w.cmd.Wait()
	}
}
