//go:build verif

package alertsHandler

import (
	"encoding/json"
	"fmt"
	"time"

	"github.com/go-co-op/gocron"
	"github.com/siglens/siglens/pkg/alerts/alertsqlite"
	"github.com/siglens/siglens/pkg/alerts/alertutils"
)

// VerifCreateAlertNoCron does what ProcessCreateAlertRequest does (decode, window check, query validation, CreateAlert)
// except scheduling the cron job, so that evaluations happen only when the explorer asks for them.
func VerifCreateAlertNoCron(raw []byte, org int64) (string, error) {
	var a alertutils.AlertDetails
	a.OrgId = org
	if err := json.Unmarshal(raw, &a); err != nil {
		return "", err
	}
	if a.EvalWindow < a.EvalInterval {
		return "", fmt.Errorf("EvalWindow should be greater than or equal to EvalInterval")
	}
	if _, err := validateAlertTypeAndQuery(&a); err != nil {
		return "", err
	}
	created, err := databaseObj.CreateAlert(&a)
	if err != nil {
		return "", err
	}
	return created.AlertId, nil
}

// VerifEval feeds one evaluation outcome to the real state machine.
func VerifEval(alertID string, matched bool) error {
	a, err := databaseObj.GetAlert(alertID)
	if err != nil {
		return err
	}
	return handleAlertCondition(a, matched, "verif")
}

// VerifEvalLogAlert runs one complete evaluation (real query, real condition check, real state machine).
func VerifEvalLogAlert(alertID string) error {
	a, err := databaseObj.GetAlert(alertID)
	if err != nil {
		return err
	}
	evaluateLogAlert(a, gocron.Job{})
	return nil
}

func VerifShiftLastSent(alertID string, minutes int) error {
	s, ok := databaseObj.(*alertsqlite.Sqlite)
	if !ok {
		return fmt.Errorf("database is not sqlite")
	}
	return s.VerifShiftLastSent(alertID, time.Duration(minutes)*time.Minute)
}

func VerifSetCooldown(alertID string, minutes uint64) error {
	s, ok := databaseObj.(*alertsqlite.Sqlite)
	if !ok {
		return fmt.Errorf("database is not sqlite")
	}
	return s.VerifSetCooldown(alertID, minutes)
}
