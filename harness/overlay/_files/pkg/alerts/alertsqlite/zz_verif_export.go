//go:build verif

package alertsqlite

import (
	"time"

	"github.com/siglens/siglens/pkg/alerts/alertutils"
)

// VerifShiftLastSent moves the notification's last_sent_time back by d: the explicit "time passes" operation of the
// alert state-machine exploration (the code reads the cool-down clock only through this column and time.Now()).
func (p Sqlite) VerifShiftLastSent(alertID string, d time.Duration) error {
	var n alertutils.Notification
	if err := p.db.Where("alert_id = ?", alertID).First(&n).Error; err != nil {
		return err
	}
	return p.db.Model(&alertutils.Notification{}).Where("alert_id = ?", alertID).Update("last_sent_time", n.LastSentTime.Add(-d)).Error
}

// VerifSetCooldown sets the cool-down period (minutes) of the alert's notification row.
func (p Sqlite) VerifSetCooldown(alertID string, minutes uint64) error {
	return p.db.Model(&alertutils.Notification{}).Where("alert_id = ?", alertID).Update("cooldown_period", minutes).Error
}
