//go:build verif

package memorypool

import (
	"fmt"
	"runtime"
	"strings"
	"sync"
	"sync/atomic"
)

// Quarantine mode (verification builds only, off unless switched on by the harness): a buffer given back to a pool is
// filled with a poison byte and never handed out again. Correct code neither reads nor writes a buffer after releasing
// it, so its behaviour is unchanged (every Get then allocates); code that keeps using a released buffer reads poison,
// and any write into a released buffer is found by VerifCheckQuarantine.

const verifPoison = 0xDB

var VerifQuarantineOn atomic.Bool

type verifQuarantined struct {
	buf      []byte
	released string // who released it
	again    []string
}

var (
	verifQMu sync.Mutex
	verifQ   []*verifQuarantined
)

func verifCaller() string {
	pcs := make([]uintptr, 12)
	n := runtime.Callers(3, pcs)
	fr := runtime.CallersFrames(pcs[:n])
	var out []string
	for {
		f, more := fr.Next()
		if strings.Contains(f.Function, "siglens/pkg/") && !strings.Contains(f.Function, "memorypool.") && !strings.Contains(f.Function, "PutBufToPool") {
			name := f.Function[strings.LastIndex(f.Function, "/")+1:]
			out = append(out, fmt.Sprintf("%s:%d", name, f.Line))
			if len(out) == 3 {
				break
			}
		}
		if !more {
			break
		}
	}
	return strings.Join(out, " < ")
}

// verifQuarantine is called by Put (patched copy of memorypool.go, see harness/overlay/gen.py) for the item that is
// being released. It returns true when the item must stay out of circulation.
func verifQuarantine(buf []byte) bool {
	if !VerifQuarantineOn.Load() {
		return false
	}
	full := buf[:cap(buf)]
	verifQMu.Lock()
	defer verifQMu.Unlock()
	for _, q := range verifQ {
		if len(q.buf) > 0 && len(full) > 0 && &q.buf[0] == &full[0] {
			q.again = append(q.again, verifCaller())
			return true // released again: stays quarantined, contents are left as they are for the check
		}
	}
	for i := range full {
		full[i] = verifPoison
	}
	verifQ = append(verifQ, &verifQuarantined{buf: full, released: verifCaller()})
	return true
}

// VerifCheckQuarantine reports every released buffer that was written to after its release.
func VerifCheckQuarantine() (violations []string, released int) {
	verifQMu.Lock()
	defer verifQMu.Unlock()
	for _, q := range verifQ {
		for i, b := range q.buf {
			if b != verifPoison {
				v := fmt.Sprintf("a %d-byte pool buffer released by [%s] was written to after its release (first changed byte at offset %d)", len(q.buf), q.released, i)
				if len(q.again) > 0 {
					v += fmt.Sprintf("; it was released again by [%s]", strings.Join(q.again, "; "))
				}
				violations = append(violations, v)
				break
			}
		}
	}
	return violations, len(verifQ)
}
