//go:build verif

package processor

import (
	"runtime"

	"github.com/siglens/siglens/pkg/segment/structs"
)

// VerifParallelChains builds the processor chains the way NewQueryProcessor does (AggsToDataProcessors +
// setMergeSettings as the chain factory, the real SetupQueryParallelism with GOMAXPROCS = want) and connects chain i to
// the i-th source the way ConnectEachDpChain connects every chain to the searcher. mk is called with the number of
// chains SetupQueryParallelism decided on. Returns the last processor of the merged chain.
func VerifParallelChains(firstAgg *structs.QueryAggregators, want int, mk func(n int) []Streamer) (*DataProcessor, int, error) {
	old := runtime.GOMAXPROCS(want)
	defer runtime.GOMAXPROCS(old)
	chainFactory := func() []*DataProcessor {
		dpChain := AggsToDataProcessors(firstAgg, nil)
		_ = setMergeSettings(dpChain)
		return dpChain
	}
	chains, err := SetupQueryParallelism(firstAgg.HasStatsBlock(), chainFactory)
	if err != nil {
		return nil, 0, err
	}
	if len(chains) == 0 || len(chains[0]) == 0 {
		return nil, 0, nil
	}
	srcs := mk(len(chains))
	for i, dps := range chains {
		if len(dps) == 0 {
			continue
		}
		dps[0].streams = append(dps[0].streams, NewCachedStream(srcs[i]))
		for m := 1; m < len(dps); m++ {
			var stream Streamer = dps[m-1]
			if len(chains) > 1 && m == len(dps)-1 {
				stream = NewSingleThreadedStream(stream)
			}
			dps[m].streams = append(dps[m].streams, NewCachedStream(stream))
		}
	}
	return chains[0][len(chains[0])-1], len(chains), nil
}
