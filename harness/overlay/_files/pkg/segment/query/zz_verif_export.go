//go:build verif

package query

// VerifSyncSegMeta runs, synchronously, the start-up recovery step that production starts as a goroutine
// (initSyncSegMetaForAllIds): segments found on disk but missing from segmeta.json are loaded from their .sfm files.
func VerifSyncSegMeta(ids []int64) int {
	n := 0
	for _, id := range ids {
		n += syncSegMetaWithSegFullMeta(id, nil)
	}
	return n
}
