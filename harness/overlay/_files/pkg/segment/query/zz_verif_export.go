//go:build verif

package query

// VerifSyncSegMeta runs, synchronously, the start-up recovery step that production starts as a goroutine
// (initSyncSegMetaForAllIds): segments found on disk but missing from segmeta.json are loaded from their .sfm files.
func VerifSyncSegMeta(ids []int64) int {
	n := 0
	for _, id := range ids {
		n += syncSegMetaWithSegFullMeta(id, nil)
	}
	return n
}

// VerifQueryTables lists the qids in the running table and in the waiting queue.
func VerifQueryTables() (running []uint64, waiting []uint64) {
	arqMapLock.RLock()
	for qid := range allRunningQueries {
		running = append(running, qid)
	}
	arqMapLock.RUnlock()
	waitingQueriesLock.Lock()
	for _, ws := range waitingQueries {
		waiting = append(waiting, ws.qid)
	}
	waitingQueriesLock.Unlock()
	return
}

// VerifSetMaxRunning sets the admission limit (production derives it from the memory configuration) and returns the old one.
func VerifSetMaxRunning(n uint64) uint64 {
	old := MAX_RUNNING_QUERIES
	MAX_RUNNING_QUERIES = n
	return old
}
