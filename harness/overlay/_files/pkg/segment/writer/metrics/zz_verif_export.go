//go:build verif

package metrics

import (
	sutils "github.com/siglens/siglens/pkg/segment/utils"
)

// VerifRotate performs, synchronously, what the rotation timers do: kind "block" rotates the open block of every
// metrics segment that holds data (size threshold pulled down to 0 for the call), kind "segment" rotates the segment
// through the size trigger (threshold pulled down to 0 for the call). Added by the verification overlay only.
func VerifRotate(kind string) error {
	var first error
	for _, ms := range GetAllMetricsSegments() {
		ms.rwLock.Lock()
		var err error
		switch kind {
		case "block":
			old := sutils.MAX_BYTES_METRICS_BLOCK
			sutils.MAX_BYTES_METRICS_BLOCK = 0
			err = ms.CheckAndRotate(false)
			sutils.MAX_BYTES_METRICS_BLOCK = old
		case "segment":
			// size-triggered segment rotation (the only mid-life rotation; the forced variant is the shutdown flush,
			// which re-uses the segment suffix because the process is about to exit)
			old := sutils.MAX_BYTES_METRICS_SEGMENT
			sutils.MAX_BYTES_METRICS_SEGMENT = 0
			err = ms.CheckAndRotate(false)
			sutils.MAX_BYTES_METRICS_SEGMENT = old
		}
		ms.rwLock.Unlock()
		if err != nil && first == nil {
			first = err
		}
	}
	return first
}
