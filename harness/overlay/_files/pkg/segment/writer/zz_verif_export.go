//go:build verif

package writer

// VerifWaitSortIndexes waits for the sort index files that rotations write in the background.
func VerifWaitSortIndexes() { sortedIndexWG.Wait() }
