#!/usr/bin/env python3
"""Generate the go build -overlay JSON from /repo's current tree.
 - files under overlay/_files/<path relative to /repo> are ADDED to the corresponding package (build tag verif).
Nothing in /repo is modified."""
import json, os, sys
here = os.path.dirname(os.path.abspath(__file__))
repo = os.environ.get("VERIF_REPO", "/repo")
out = sys.argv[1]
replace = {}
root = os.path.join(here, "_files")
for d, _, fs in os.walk(root):
    for f in fs:
        if not f.endswith(".go"): continue
        rel = os.path.relpath(os.path.join(d, f), root)
        target = os.path.join(repo, rel)
        if not os.path.isdir(os.path.dirname(target)):
            print("overlay: package dir missing for", rel, file=sys.stderr); sys.exit(1)
        replace[target] = os.path.join(d, f)
# patched copies: one inserted line in a copy of a /repo file (skipped with a note if the anchor is not there any more)
PATCHES = [("pkg/memorypool/memorypool.go",
            "\t\tif self.items[i].pointer == bufferPointer {\n\t\t\tself.items[i].inUse = false\n",
            "\t\tif self.items[i].pointer == bufferPointer {\n\t\t\tif verifQuarantine(self.items[i].buffer) {\n\t\t\t\treturn nil\n\t\t\t}\n\t\t\tself.items[i].inUse = false\n")]
work = os.path.join(os.path.dirname(os.path.abspath(out)), "patched-src")
os.makedirs(work, exist_ok=True)
for rel, old, new in PATCHES:
    src = open(os.path.join(repo, rel)).read()
    if src.count(old) != 1:
        print("overlay: anchor for", rel, "not found; hook skipped", file=sys.stderr)
        # the hook function must still be referenced nowhere: nothing to do
        continue
    q = os.path.join(work, rel.replace("/", "__"))
    s2 = src.replace(old, new)
    if not os.path.exists(q) or open(q).read() != s2:
        open(q, "w").write(s2)
    replace[os.path.join(repo, rel)] = q
tmp = out + ".tmp%d" % os.getpid()
json.dump({"Replace": replace}, open(tmp, "w"), indent=1)
os.replace(tmp, out)
