#!/usr/bin/env python3
"""Generate the go build -overlay JSON from /repo's current tree.
 - files under overlay/_files/<path relative to /repo> are ADDED to the corresponding package (build tag verif).
Nothing in /repo is modified."""
import json, os, sys
here = os.path.dirname(os.path.abspath(__file__))
repo = os.environ.get("VERIF_REPO", "/repo")
out = sys.argv[1]
replace = {}
root = os.path.join(here, "_files")
for d, _, fs in os.walk(root):
    for f in fs:
        if not f.endswith(".go"): continue
        rel = os.path.relpath(os.path.join(d, f), root)
        target = os.path.join(repo, rel)
        if not os.path.isdir(os.path.dirname(target)):
            print("overlay: package dir missing for", rel, file=sys.stderr); sys.exit(1)
        replace[target] = os.path.join(d, f)
tmp = out + ".tmp%d" % os.getpid()
json.dump({"Replace": replace}, open(tmp, "w"), indent=1)
os.replace(tmp, out)
