#!/usr/bin/env python3
"""Generate the overlay for the crashfs binary: the export overlay of gen.py plus patched copies of four files of
$GOROOT/src/os in which the mutating entry points are renamed verifOrig* and re-implemented (with a hook) by
zz_verif_hook.go. Output: overlay JSON path given as argv[1]; patched files go next to it."""
import json, os, re, subprocess, sys
here = os.path.dirname(os.path.abspath(__file__))
out = sys.argv[1]
work = os.path.join(os.path.dirname(out), "goroot-os")
os.makedirs(work, exist_ok=True)
goroot = subprocess.check_output(["go", "env", "GOROOT"], text=True).strip()
src = os.path.join(goroot, "src", "os")
base = json.load(open(sys.argv[2]))["Replace"] if len(sys.argv) > 2 else {}
renames = {
 "file.go": [("func (f *File) Write(", "func (f *File) verifOrigWrite("), ("func (f *File) WriteAt(", "func (f *File) verifOrigWriteAt("),
             ("func (f *File) ReadFrom(", "func (f *File) verifOrigReadFrom("), ("func Mkdir(", "func verifOrigMkdir("),
             ("func OpenFile(", "func verifOrigOpenFile("), ("func Rename(", "func verifOrigRename(")],
 "file_posix.go": [("func (f *File) Truncate(", "func (f *File) verifOrigTruncate(")],
 "file_unix.go": [("func Truncate(", "func verifOrigTruncate("), ("func Remove(", "func verifOrigRemove("),
                  ("func Link(", "func verifOrigLink("), ("func Symlink(", "func verifOrigSymlink(")],
 "path.go": [("func RemoveAll(", "func verifOrigRemoveAll(")],
}
replace = dict(base)
for fn, rs in renames.items():
    s = open(os.path.join(src, fn)).read()
    for a, b in rs:
        if s.count(a) != 1:
            print("gen_crash: cannot patch", fn, a, "count", s.count(a), file=sys.stderr); sys.exit(1)
        s = s.replace(a, b)
    # internal callers inside package os keep calling the public (hooked) names; only the definitions were renamed
    p = os.path.join(work, fn)
    if not os.path.exists(p) or open(p).read() != s:
        open(p, "w").write(s)
    replace[os.path.join(src, fn)] = p
hook = open(os.path.join(here, "goroot", "zz_verif_hook.go.txt")).read()
# ReadFrom's parameter type must be io.Reader for the io.ReaderFrom interface
hook = hook.replace('''func (f *File) ReadFrom(r interface {
	Read(p []byte) (n int, err error)
}) (n int64, err error) {''', 'func (f *File) ReadFrom(r io.Reader) (n int64, err error) {').replace('import (\n\t"sync"\n)', 'import (\n\t"io"\n\t"sync"\n)')
hp = os.path.join(work, "zz_verif_hook.go")
if not os.path.exists(hp) or open(hp).read() != hook:
    open(hp, "w").write(hook)
replace[os.path.join(src, "zz_verif_hook.go")] = hp
tmp = out + ".tmp%d" % os.getpid()
json.dump({"Replace": replace}, open(tmp, "w"), indent=1)
os.replace(tmp, out)
