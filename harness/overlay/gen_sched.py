#!/usr/bin/env python3
"""Overlay for the vsched binary: the export overlay plus (1) the shim package pkg/zzvsync added to the siglens module
and (2) a copy of every non-test file under /repo/pkg and /repo/cmd that imports "sync", with that one import line
rewritten to `sync "github.com/siglens/siglens/pkg/zzvsync"`. Generated from /repo's current working tree."""
import json, os, re, sys
here = os.path.dirname(os.path.abspath(__file__))
repo = os.environ.get("VERIF_REPO", "/repo")
out = sys.argv[1]
base = json.load(open(sys.argv[2]))["Replace"] if len(sys.argv) > 2 else {}
work = os.path.join(os.path.dirname(out), "sched-src")
os.makedirs(work, exist_ok=True)
replace = dict(base)
shim = open(os.path.join(here, "zzvsync", "vsync.go.txt")).read()
sp = os.path.join(work, "vsync.go")
if not os.path.exists(sp) or open(sp).read() != shim:
    open(sp, "w").write(shim)
replace[os.path.join(repo, "pkg", "zzvsync", "vsync.go")] = sp
n = 0
imp = re.compile(r'^(\s*)"sync"\s*$', re.M)
for top in ("pkg", "cmd"):
    for d, _, fs in os.walk(os.path.join(repo, top)):
        for f in fs:
            if not f.endswith(".go") or f.endswith("_test.go"):
                continue
            p = os.path.join(d, f)
            s = open(base.get(p, p)).read()  # a patched copy from the base overlay takes the place of the /repo file
            if not imp.search(s):
                continue
            s2 = imp.sub(r'\1sync "github.com/siglens/siglens/pkg/zzvsync"', s, count=1)
            rel = os.path.relpath(p, repo).replace("/", "__")
            q = os.path.join(work, rel)
            if not os.path.exists(q) or open(q).read() != s2:
                open(q, "w").write(s2)
            replace[p] = q
            n += 1
tmp = out + ".tmp%d" % os.getpid()
json.dump({"Replace": replace}, open(tmp, "w"), indent=1)
os.replace(tmp, out)
print("gen_sched: rewrote", n, "files", file=sys.stderr)
