package props

import (
	"encoding/json"
	"fmt"
	"sort"
	"strings"
	"sync/atomic"
	"time"

	"verif/harness/kernel"
)

// C01 — ingest→query round trip is lossless. Engine: seqx (bounded-exhaustive histories, reference model).

type c01Job struct {
	N      int64    `json:"n"`
	Card   int      `json:"cardLimit"`
	Events []string `json:"events"`
	Bounds []int    `json:"bounds"` // after event i: 0 nothing, 1 flush, 2 flush+rotate
	Class  string   `json:"class"`
}

type vfrag struct {
	name string
	json string // "" = absent
}

func c01Values(tier string) []vfrag {
	q := []vfrag{
		{"absent", ""}, {"int", "1"}, {"str", `"x"`}, {"null", "null"}, {"bool", "true"}, {"float", "2.5"},
		{"numstr", `"1"`}, {"neg", "-9007199254740993"}, {"text", `"X \"y@@I"`}, // negative and beyond 2^53: must survive the conversion of a mixed column to text exactly
	}
	if tier != "thorough" {
		return q
	}
	return append(q, []vfrag{
		{"empty", `""`}, {"maxint", "9223372036854775807"}, {"minint", "-9223372036854775808"},
		{"bigf", "1e308"}, {"tenth", "0.1"}, {"esc", `"é\n\"\\"`}, {"u64", "18446744073709551615"},
	}...)
}

// shapes: each builds the non-id part of an event from up to two value fragments
type c01Shape struct {
	name  string
	build func(v, w string) string // returns JSON members (without braces), may be ""
}

func member(k, v string) string {
	if v == "" {
		return ""
	}
	return fmt.Sprintf("%q:%s", k, v)
}

func joinMembers(ms ...string) string {
	var out []string
	for _, m := range ms {
		if m != "" {
			out = append(out, m)
		}
	}
	return strings.Join(out, ",")
}

var c01Shapes = []c01Shape{
	{"two", func(v, w string) string { return joinMembers(member("a", v), member("b", w)) }},
	{"nested", func(v, w string) string {
		if v == "" {
			return member("b", w)
		}
		return joinMembers(fmt.Sprintf(`"n":{"a":%s}`, v), member("b", w))
	}},
	{"array", func(v, w string) string {
		if v == "" || w == "" {
			return member("a", v)
		}
		return fmt.Sprintf(`"r":[%s,%s,{"k":%s}]`, v, w, v)
	}},
	{"twin", func(v, w string) string {
		if v == "" || w == "" {
			return member("a", v)
		}
		return fmt.Sprintf(`"n.a":%s,"n":{"a":%s}`, v, w)
	}},
}

var c01TS = []int64{0, 1, 1000, 70_000, 1 << 32}

func c01Event(k int, ts int64, members string) string {
	s := fmt.Sprintf(`{"timestamp":%d,"id":"e%d"`, ts, k)
	if members != "" {
		// @@I: the event's number, so that a value kind can differ from event to event (escaped strings must not be
		// byte-identical in two events of one request)
		s += "," + strings.ReplaceAll(members, "@@I", fmt.Sprint(k))
	}
	return s + "}"
}

func c01Enumerate(tier string, emit func(j c01Job)) {
	vals := c01Values(tier)
	depth := 3
	cards := []int{2, 501}
	if tier == "thorough" {
		cards = []int{0, 2, 3, 501}
	}
	var n int64
	// boundaries: every placement; the last one is at least a flush
	var bounds func(d int) [][]int
	bounds = func(d int) [][]int {
		if d == 1 {
			return [][]int{{1}, {2}}
		}
		var out [][]int
		for _, rest := range bounds(d - 1) {
			for b := 0; b < 3; b++ {
				out = append(out, append([]int{b}, rest...))
			}
		}
		return out
	}
	// (0) arrival order vs event time: three (thorough: four) events with every assignment of three instants, so that
	// blocks and segments overlap in time, touch at equal timestamps or lie entirely before one another
	{
		// every assignment of three instants to the events (orders and ties alike)
		offs := []int64{0, 1000, 5000}
		nev := 3
		if tier == "thorough" {
			nev = 4
		}
		var perms [][]int64
		var rec func(cur []int64)
		rec = func(cur []int64) {
			if len(cur) == nev {
				perms = append(perms, append([]int64{}, cur...))
				return
			}
			for i := range offs {
				rec(append(cur, offs[i]))
			}
		}
		rec(nil)
		for _, pm := range perms {
			evs := make([]string, len(pm))
			for i, o := range pm {
				evs[i] = c01Event(i, T0+o, member("a", fmt.Sprint(i)))
			}
			for _, b := range bounds(len(pm)) {
				for _, c := range cards {
					emit(c01Job{N: n, Card: c, Events: evs, Bounds: b, Class: "arrival-order"})
					n++
				}
			}
		}
	}
	// (1) single column `a`, all sequences of length ≤ depth over the value alphabet
	maxd := depth
	vd := vals
	if tier == "thorough" {
		maxd = 4
	}
	for d := 1; d <= maxd; d++ {
		if d == 4 {
			vd = vals[:9] // depth 4 over the 9-value core (6561 sequences)
		}
		idx := make([]int, d)
		for {
			evs := make([]string, d)
			names := make([]string, d)
			for i, vi := range idx {
				evs[i] = c01Event(i, T0+int64(i), member("a", vd[vi].json))
				names[i] = vd[vi].name
			}
			for _, b := range bounds(d) {
				if d == 4 && tier == "thorough" && (b[0] == 2 && b[1] == 2 && b[2] == 2) {
					// 4 rotations in a row add nothing over 3; keep the space smaller
					continue
				}
				for _, c := range cards {
					emit(c01Job{N: n, Card: c, Events: evs, Bounds: b, Class: "col:" + strings.Join(names, ",")})
					n++
				}
			}
			k := d - 1
			for k >= 0 {
				idx[k]++
				if idx[k] < len(vd) {
					break
				}
				idx[k] = 0
				k--
			}
			if k < 0 {
				break
			}
		}
	}
	// (2) shapes × value pairs × timestamp gaps, length ≤ 3 over a 5-value core, late columns
	core := []vfrag{vals[1], vals[2], vals[5], vals[0], vals[6]}
	sd := 2
	if tier == "thorough" {
		sd = 3
	}
	for _, sh := range c01Shapes {
		for d := 1; d <= sd; d++ {
			idx := make([]int, d)
			for {
				evs := make([]string, d)
				names := make([]string, d)
				for i, vi := range idx {
					v := core[vi]
					w := core[(vi+i+1)%len(core)]
					evs[i] = c01Event(i, T0+c01TS[(i*2+vi)%len(c01TS)], sh.build(v.json, w.json))
					names[i] = v.name + "/" + w.name
				}
				for _, b := range bounds(d) {
					for _, c := range cards {
						emit(c01Job{N: n, Card: c, Events: evs, Bounds: b, Class: "shape:" + sh.name + ":" + strings.Join(names, ",")})
						n++
					}
				}
				k := d - 1
				for k >= 0 {
					idx[k]++
					if idx[k] < len(core) {
						break
					}
					idx[k] = 0
					k--
				}
				if k < 0 {
					break
				}
			}
		}
	}
	// (3) dedicated histories: cardinality above the default dictionary limit; value at the record size limit
	{
		var evs []string
		for i := 0; i < 502; i++ {
			evs = append(evs, c01Event(i, T0+int64(i), fmt.Sprintf(`"a":"v%d","c":%d`, i, i%3)))
		}
		for _, b := range []int{1, 2} {
			bs := make([]int, len(evs))
			bs[len(bs)-1] = b
			emit(c01Job{N: n, Card: 501, Events: evs, Bounds: bs, Class: "card502"})
			n++
		}
		// more records in one block than one allocation step of the block's per-record arrays holds (4000): the arrays grow
		// while the block is open
		var evs3 []string
		for i := 0; i < 4100; i++ {
			evs3 = append(evs3, c01Event(i, T0+int64(i)*3, fmt.Sprintf(`"c":%d`, i%7)))
		}
		for _, b := range []int{1, 2} {
			bs := make([]int, len(evs3))
			bs[len(bs)-1] = b
			emit(c01Job{N: n, Card: 501, Events: evs3, Bounds: bs, Class: "block4100"})
			n++
		}
		big := strings.Repeat("z", 62000)
		evs2 := []string{
			c01Event(0, T0, `"a":"s","big":"`+big+`"`),
			c01Event(1, T0+1, `"a":"t","big":"`+big[:61000]+`"`),
			c01Event(2, T0+2, `"a":1`),
		}
		for _, b := range [][]int{{0, 0, 1}, {1, 0, 2}, {0, 1, 2}} {
			emit(c01Job{N: n, Card: 501, Events: evs2, Bounds: b, Class: "bigvalue"})
			n++
		}
	}
}

type c01Result struct {
	FP   string
	What string
}

// c01Run executes one history on worker w and returns the first oracle failure (nil if none).
// A *kernel.Died error is converted into a failure; other errors are harness errors.
func c01Run(w *kernel.Worker, j *c01Job, rep *kernel.Report) (*c01Result, error) {
	idx := fmt.Sprintf("c01x%d", atomic.AddInt64(&idxSeq, 1))
	var model []*MEvent
	fail := func(clause, what string) *c01Result {
		col := ""
		if i := strings.Index(clause, "@"); i >= 0 {
			clause, col = clause[:i], clause[i+1:]
		}
		return &c01Result{FP: "C01/" + clause + "/" + c01ClassOf(j, model, col), What: what}
	}
	asDied := func(err error) (*c01Result, error) {
		if d, ok := err.(*kernel.Died); ok {
			if d.Timeout {
				return fail("no-answer", "worker gave no answer within the job deadline"), nil
			}
			return &c01Result{FP: "C01/worker-died/" + d.Frame, What: "worker died: " + d.Exit + "\n" + trunc(d.Stderr, 3500)}, nil
		}
		return nil, err
	}
	if err := setTun(w, "cardLimit", float64(j.Card)); err != nil {
		return asDied(err)
	}
	flushed := 0
	var pending []string
	hsum := 0
	for _, ev := range j.Events {
		for _, c := range []byte(ev) {
			hsum += int(c)
		}
	}
	oneRequestPerFlush := (hsum+len(j.Bounds))%2 == 0
	if oneRequestPerFlush {
		rep.Add("histories_with_one_request_per_flush", 1)
	}
	for i, ev := range j.Events {
		me, err := Flatten(ev, "timestamp")
		if err != nil {
			return nil, fmt.Errorf("model flatten %q: %v", ev, err)
		}
		model = append(model, me)
		// requests: in every second history the events between two flushes travel in one bulk request, in the others
		// each event is a request of its own
		b := j.Bounds[i]
		pending = append(pending, ev)
		if !oneRequestPerFlush || b != 0 || i == len(j.Events)-1 {
			if err := ingestStep(w, 0, idx, pending); err != nil {
				return asDied(err)
			}
			pending = nil
		}
		rep.Transition(1)
		if b == 0 {
			continue
		}
		op := "flush"
		if b == 2 {
			op = "rotate"
		}
		if err := w.Call(op, nil, nil); err != nil {
			return asDied(err)
		}
		rep.Transition(1)
		flushed = i + 1
		last := i == len(j.Events)-1
		size := 1000
		if flushed+100 > size {
			size = flushed + 100
		}
		qs := []Q{{Index: idx, Text: "*", Start: T0 - 1, End: T0 + (1 << 33), Size: size, Nulls: true}} // includeNulls: empty strings are rendered (""), absent columns as null
		if last && len(j.Events) <= 8 {
			for k := 0; k < flushed; k++ {
				qs = append(qs, Q{Index: idx, Text: fmt.Sprintf(`id="e%d"`, k), Start: T0 - 1, End: T0 + (1 << 33), Size: 1000, Nulls: true})
			}
		}
		rs, err := runQueries(w, qs)
		if err != nil {
			return asDied(err)
		}
		rep.Eval(int64(len(qs)))
		if clause, what := c01Check(model[:flushed], rs[0], nil); clause != "" {
			return fail(clause, fmt.Sprintf("after step %d (%s): %s", i, op, what)), nil
		}
		for k := 1; k < len(rs); k++ {
			only := k - 1
			if clause, what := c01Check(model[:flushed], rs[k], &only); clause != "" {
				return fail("point-"+clause, fmt.Sprintf("query id=e%d after step %d: %s", only, i, what)), nil
			}
		}
		// the same match-all on one processor: the searcher then takes the blocks in several rounds instead of all at once
		prev, err := setProcs(w, 1)
		if err != nil {
			return asDied(err)
		}
		r1, err := runQueries(w, qs[:1])
		if _, rerr := setProcs(w, prev); rerr != nil && err == nil {
			err = rerr
		}
		if err != nil {
			return asDied(err)
		}
		rep.Eval(1)
		if clause, what := c01Check(model[:flushed], r1[0], nil); clause != "" {
			return fail(clause, fmt.Sprintf("after step %d (%s), on one processor: %s", i, op, what)), nil
		}
	}
	if err := delIndex(w, 0, idx); err != nil {
		return asDied(err)
	}
	return nil, nil
}

var idxSeq int64

func tailStr(s string, n int) string {
	if len(s) > n {
		return s[len(s)-n:]
	}
	return s
}

// c01ClassOf: discrepancy class = "dupkey" when a document of the history yields one flattened name twice,
// else the sorted value kinds held by the offending column over the history.
func c01ClassOf(j *c01Job, model []*MEvent, col string) string {
	for _, m := range model {
		for _, vs := range m.Cols {
			if len(vs) > 1 {
				return "dupkey"
			}
		}
	}
	kinds := map[string]bool{}
	for _, m := range model {
		for c, vs := range m.Cols {
			if c == col {
				kinds[vs[0].Kind] = true
				if vs[0].Kind == "str" {
					if _, err := json.Number(vs[0].S).Float64(); err == nil {
						delete(kinds, "str")
						kinds["numstr"] = true
					}
				}
			}
		}
	}
	return "kinds[" + strings.Join(sortedKeys(kinds), "+") + "]"
}

// c01Check compares a `*` (only==nil) or point-query (only = event number) answer with the model.
func c01Check(model []*MEvent, r *QRes, only *int) (clause, what string) {
	if r.Err != "" {
		return "query-error", r.Err
	}
	if len(r.Errors) > 0 {
		return "query-error", strings.Join(r.Errors, "; ")
	}
	// Mixed columns (≥ 2 value kinds in the index): the writer consolidates such a block to text and the reader
	// re-parses it, so the JSON type tag is not preserved; values are then compared by canonical text / numeric
	// value (see DESIGN §6). Single-kind columns are compared strictly.
	textCols := map[string]bool{}
	colKinds := map[string]map[string]bool{}
	for _, m := range model {
		for c, vs := range m.Cols {
			for _, v := range vs {
				if colKinds[c] == nil {
					colKinds[c] = map[string]bool{}
				}
				k := v.Kind
				if k == "float" {
					k = "int"
				}
				colKinds[c][k] = true
			}
		}
	}
	for c, ks := range colKinds {
		if len(ks) >= 2 {
			textCols[c] = true
		}
	}
	want := map[string]*MEvent{}
	for k, m := range model {
		if only != nil && k != *only {
			continue
		}
		want[fmt.Sprintf("e%d", k)] = m
	}
	seen := map[string]bool{}
	for _, rec := range r.Records {
		id, _ := rec["id"].(string)
		m, ok := want[id]
		if !ok {
			return "invented-event", fmt.Sprintf("record %s has no model event (wanted %v)", jstr(rec), sortedKeys(want))
		}
		if seen[id] {
			return "duplicate-event", fmt.Sprintf("event %s returned twice", id)
		}
		seen[id] = true
		ts, ok := ObsInt(rec["timestamp"])
		if !ok || ts != m.TS {
			return "wrong-ts", fmt.Sprintf("event %s: timestamp %v, sent %d", id, rec["timestamp"], m.TS)
		}
		for c, obs := range rec {
			if c == "timestamp" || c == "_index" || obs == nil {
				continue
			}
			if s, ok := obs.(string); ok && s == "" {
				if _, has := m.Cols[c]; !has {
					continue // absent column rendered as empty string
				}
			}
			vs, has := m.Cols[c]
			if !has {
				return "extra-column@" + c, fmt.Sprintf("event %s: column %q=%s was never sent (%s)", id, c, jstr(obs), m.Raw)
			}
			okv := false
			for _, v := range vs {
				if MatchObserved(v, obs, textCols[c]) {
					okv = true
				}
			}
			if !okv {
				return "wrong-value@" + c, fmt.Sprintf("event %s column %q: got %s (%T), sent %v (%s)", id, c, jstr(obs), obs, vs, m.Raw)
			}
		}
		for c := range m.Cols {
			if v, has := rec[c]; !has || v == nil {
				return "missing-column@" + c, fmt.Sprintf("event %s: column %q missing from %s (sent %s)", id, c, jstr(rec), m.Raw)
			}
		}
	}
	for id := range want {
		if !seen[id] {
			return "missing-event", fmt.Sprintf("event %s not returned (got %d records)", id, len(r.Records))
		}
	}
	if tv, ok := r.TotalValue(); !ok || tv != int64(len(want)) {
		return "total-mismatch", fmt.Sprintf("totalMatched=%v, expected %d", jstr(r.Total), len(want))
	}
	return "", ""
}

func c01Nontrivial(j *c01Job) bool {
	if len(j.Events) < 2 {
		return false
	}
	for _, b := range j.Bounds[:len(j.Bounds)-1] {
		if b != 0 {
			return true
		}
	}
	kinds := map[string]bool{}
	parts := strings.SplitN(j.Class, ":", 2)
	if len(parts) < 2 {
		return true // dedicated histories: many distinct values / mixed kinds by construction
	}
	for _, k := range strings.Split(parts[1], ",") {
		kinds[k] = true
	}
	return len(kinds) >= 2
}

func C01() int {
	rep := kernel.NewReport("C01", "model_checking")
	rep.Rule = "all event sequences ≤ depth over the value alphabet for one column × every placement of {none, flush, flush+rotate} " +
		"between events × cardinality limits, plus shape histories (nested/array/two-column/dotted twin, timestamp gaps), a block of 4100 records (its per-record arrays grow while it is open) and " +
		"dedicated >limit-cardinality / near-record-size histories; checked after every flushed prefix against the Go reference " +
		"model (match-all + one point query per event). non-trivial = ≥2 events and (≥2 value kinds in the column or a boundary between events)"
	rep.Assume = []string{"PQS disabled (named tunable) so checking prefixes does not change later layout",
		"worker boots through the production config path (ExtractConfigData defaults)",
		"background idle-flush timers may add a flush; every oracle clause holds under extra flushes"}
	budget := kernel.NewBudget(map[string]time.Duration{"quick": 150 * time.Second, "thorough": 30 * time.Minute}[rep.Tier])
	off := false
	pool := &kernel.Pool{Boot: map[string]interface{}{"pqs": &off}, RecycleEvery: 400}
	jobs := make(chan c01Job, 256)
	var total, skipped int64
	go func() {
		c01Enumerate(rep.Tier, func(j c01Job) {
			total++
			if budget.Exceeded() {
				skipped++
				return
			}
			jobs <- j
		})
		close(jobs)
	}()
	err := kernel.RunPool(pool, jobs, func(w *kernel.Worker, j c01Job) error {
		res, err := c01Run(w, &j, rep)
		if err != nil {
			return err
		}
		rep.Trace(1)
		rep.State(fmt.Sprintf("%d|%v|%v", j.Card, j.Events, j.Bounds))
		if c01Nontrivial(&j) {
			rep.Nontrivial(fmt.Sprintf("%d|%v|%v", j.Card, j.Events, j.Bounds))
		}
		rep.SampleAt(j.N, func() interface{} { return j })
		if res == nil {
			rep.Outcome("ok")
			return nil
		}
		rep.Outcome(res.FP)
		if rep.SeenViolation(res.FP) {
			return nil
		}
		// confirm twice in fresh workers
		for k := 0; k < 2; k++ {
			fw, err := pool.BootWorker()
			if err != nil {
				return err
			}
			r2, err := c01Run(fw, &j, rep)
			fw.Close()
			if err != nil {
				return err
			}
			if r2 == nil || r2.FP != res.FP {
				rep.Unreproduced(fmt.Sprintf("%s: %s (job %d)", res.FP, res.What, j.N))
				return nil
			}
		}
		rep.Violation(res.FP, res.What, j)
		return nil
	})
	if err != nil {
		rep.HarnessError(err.Error())
	}
	rep.Bounds["histories_total"] = total
	if skipped > 0 {
		rep.Cap(fmt.Sprintf("time budget: %d of %d histories not run", skipped, total))
	}
	rep.Bounds["depth"] = map[string]int{"quick": 3, "thorough": 4}[rep.Tier]
	rep.Bounds["values"] = len(c01Values(rep.Tier))
	return rep.Finish()
}

func init() {
	Registry["C01"] = C01
	Replayers["C01"] = func(doc json.RawMessage) int {
		var j c01Job
		if err := json.Unmarshal(doc, &j); err != nil {
			fmt.Println("HARNESS-ERROR", err)
			return 2
		}
		off := false
		pool := &kernel.Pool{Boot: map[string]interface{}{"pqs": &off}}
		w, err := pool.BootWorker()
		if err != nil {
			fmt.Println("HARNESS-ERROR", err)
			return 2
		}
		defer w.Close()
		rep := kernel.NewReport("C01", "model_checking")
		res, err := c01Run(w, &j, rep)
		if err != nil {
			fmt.Println("HARNESS-ERROR", err)
			return 2
		}
		if res == nil {
			fmt.Println("replay: property held")
			return 0
		}
		fmt.Printf("replay: %s\n  %s\n", res.FP, res.What)
		return 1
	}
	_ = sort.Strings
}
