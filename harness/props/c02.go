package props

import (
	"fmt"
	"regexp"
	"strconv"
	"strings"
	"time"

	"verif/harness/kernel"
)

// C02 — filters select exactly the satisfying events. seqx: all expressions of a 2-level grammar over atoms ×
// datasets × layouts × cardinality limits. Oracles: (i) reference model where the statement pins the rule down,
// (ii) boolean algebra on observed id sets, (iii) search ≡ where on numeric fields, (iv) time-range restriction.

type c02Atom struct {
	Text  string // search-clause text
	Col   string // "" = free text
	Op    string // = != < <= > >=
	Lit   string // literal text (unquoted)
	Num   bool   // literal is numeric
	Where string // equivalent where-stage expression ("" = none)
}

func c02Atoms(tier string) []c02Atom {
	core := []c02Atom{
		{Text: `a=1`, Col: "a", Op: "=", Lit: "1", Num: true, Where: `a=1`},
		{Text: `a=2`, Col: "a", Op: "=", Lit: "2", Num: true, Where: `a=2`},
		{Text: `a!=2`, Col: "a", Op: "!=", Lit: "2", Num: true, Where: `a!=2`},
		{Text: `a<2`, Col: "a", Op: "<", Lit: "2", Num: true, Where: `a<2`},
		{Text: `a<=2`, Col: "a", Op: "<=", Lit: "2", Num: true, Where: `a<=2`},
		{Text: `a>2`, Col: "a", Op: ">", Lit: "2", Num: true, Where: `a>2`},
		{Text: `a>=2.5`, Col: "a", Op: ">=", Lit: "2.5", Num: true, Where: `a>=2.5`},
		{Text: `a>1.5`, Col: "a", Op: ">", Lit: "1.5", Num: true, Where: `a>1.5`},
		{Text: `a=x`, Col: "a", Op: "=", Lit: "x"},
		{Text: `m=foo`, Col: "m", Op: "=", Lit: "foo"},
		{Text: `m="foo bar"`, Col: "m", Op: "=", Lit: "foo bar"},
		{Text: `m=*bar*`, Col: "m", Op: "=", Lit: "*bar*"},
		{Text: `b=true`, Col: "b", Op: "=", Lit: "true"},
		// a negative integer literal (against integer and decimal stored values)
		{Text: `a>=-1`, Col: "a", Op: ">=", Lit: "-1", Num: true, Where: `a>=-1`},
		{Text: `foo`, Lit: "foo"},
		// all-column terms that read as numbers (matched against every column, numeric ones included)
		{Text: `404`, Lit: "404"},
		{Text: `1500`, Lit: "1500"},
		// literals with characters that are special in regular expressions (the wildcard machinery must treat them literally)
		{Text: `m="a.b"`, Col: "m", Op: "=", Lit: "a.b"},
		{Text: `m=*.b`, Col: "m", Op: "=", Lit: "*.b"},
		{Text: `m="a+*"`, Col: "m", Op: "=", Lit: "a+*"},
	}
	if tier != "thorough" {
		return core
	}
	return append(core, []c02Atom{
		{Text: `a=1.0`, Col: "a", Op: "=", Lit: "1.0", Num: true, Where: `a=1.0`},
		{Text: `a="1"`, Col: "a", Op: "=", Lit: "1"}, // a string literal that reads as a number: against numbers the coercion is not fixed by the statement
		{Text: `a<2.5`, Col: "a", Op: "<", Lit: "2.5", Num: true, Where: `a<2.5`},
		{Text: `a=2.5`, Col: "a", Op: "=", Lit: "2.5", Num: true, Where: `a=2.5`},
		{Text: `a>=2`, Col: "a", Op: ">=", Lit: "2", Num: true, Where: `a>=2`},
		{Text: `a<-1`, Col: "a", Op: "<", Lit: "-1", Num: true, Where: `a<-1`},
		{Text: `a="x"`, Col: "a", Op: "=", Lit: "x"},
		{Text: `a=X`, Col: "a", Op: "=", Lit: "X"},
		{Text: `a=x*`, Col: "a", Op: "=", Lit: "x*"},
		{Text: `a=*`, Col: "a", Op: "=", Lit: "*"},
		{Text: `a!=x`, Col: "a", Op: "!=", Lit: "x"},
		{Text: `m=FOO`, Col: "m", Op: "=", Lit: "FOO"},
		{Text: `m=foo*`, Col: "m", Op: "=", Lit: "foo*"},
		{Text: `FOO`, Lit: "FOO"},
		{Text: `"foo bar"`, Lit: "foo bar"},
		{Text: `bar`, Lit: "bar"},
		{Text: `b=false`, Col: "b", Op: "=", Lit: "false"},
		{Text: `zz=1`, Col: "zz", Op: "=", Lit: "1", Num: true},
		{Text: `m="a.*"`, Col: "m", Op: "=", Lit: "a.*"},
		{Text: `m="a+b"`, Col: "m", Op: "=", Lit: "a+b"},
		{Text: `m!="a.b"`, Col: "m", Op: "!=", Lit: "a.b"},
	}...)
}

type c02Dataset struct {
	Name   string
	Events []string
}

func c02Datasets() []c02Dataset {
	mk := func(name string, as, ms, bs []string) c02Dataset {
		d := c02Dataset{Name: name}
		for i := range as {
			d.Events = append(d.Events, c01Event(i, T0+int64(i), joinMembers(member("a", as[i]), member("m", ms[i]), member("b", bs[i]))))
		}
		return d
	}
	return []c02Dataset{
		mk("mixed", []string{"1", "2", "2.5", `"2"`, `"x"`, ""}, []string{`"Foo bar"`, `"foo"`, `"BAR baz"`, "", `"foo bar"`, `"x"`}, []string{"true", "false", "", "true", "false", "true"}),
		mk("ints", []string{"1", "2", "3", "2", "-1"}, []string{`"foo"`, `"bar"`, `"foo bar"`, `"Foo"`, `"baz"`}, []string{"true", "true", "false", "false", ""}),
		mk("floats", []string{"1.5", "2.5", "-1", "2", ""}, []string{`"foo bar"`, "", `"BAR"`, `"bar foo"`, `"foo"`}, []string{"", "true", "", "false", "true"}),
		mk("strings", []string{`"x"`, `"X"`, `"xy"`, `"2"`, ""}, []string{`"foo"`, `"foo"`, `"foo"`, `"bar"`, `"bar"`}, []string{"true", "true", "true", "true", "false"}),
		// two numeric columns with disjoint value ranges (all-column numeric terms match in different columns of one block)
		mk("twonum", []string{"404", "7", "404", "9", "12"}, []string{`"moved"`, `"ok"`, `"ok"`, `"moved"`, `"x"`}, []string{"3", "1500", "1500", "8", "1500"}),
		// numbers next to numeric strings below and above them (the block's column is converted to numbers; its range index must cover them)
		mk("numstr", []string{"2", `"1"`, "2", `"3"`, `"1"`}, []string{`"foo"`, `"bar"`, `"foo bar"`, `"Foo"`, `"baz"`}, []string{"true", "false", "true", "false", "true"}),
		mk("punct", []string{"1", "2", "3", "2", "1", "3"}, []string{`"a.b"`, `"axb"`, `"a+b"`, `"aab"`, `"xa.b"`, `"a.bx"`}, []string{"true", "false", "true", "false", "true", "false"}),
	}
}

// tri-state model
const (
	mFalse = 0
	mTrue  = 1
	mUndef = 2
)

func wildcardMatch(pat, s string) bool {
	re := "^"
	for _, c := range pat {
		switch c {
		case '*':
			re += ".*"
		case '?':
			re += "."
		default:
			re += regexp.QuoteMeta(string(c))
		}
	}
	re += "$"
	ok, _ := regexp.MatchString("(?is)"+re, s)
	return ok
}

func c02EvalAtom(a *c02Atom, ev *MEvent) int {
	if a.Col == "" {
		// free text: defined only for whole-word / whole-phrase, case-insensitive, over string columns
		term := strings.ToLower(a.Lit)
		found := false
		for c, vs := range ev.Cols {
			if c == "id" {
				continue
			}
			v := vs[0]
			if v.Kind != "str" {
				if v.String() == term {
					return mUndef
				}
				continue
			}
			s := strings.ToLower(v.S)
			if s == term {
				found = true
			}
			words := strings.Fields(s)
			tw := strings.Fields(term)
			for i := 0; i+len(tw) <= len(words); i++ {
				if strings.Join(words[i:i+len(tw)], " ") == term {
					found = true
				}
			}
			if !found && strings.Contains(s, term) {
				return mUndef // substring but not a whole word: the statement does not fix it
			}
		}
		if found {
			return mTrue
		}
		return mFalse
	}
	vs, ok := ev.Cols[a.Col]
	if !ok {
		if a.Op == "!=" {
			return mUndef
		}
		return mFalse
	}
	v := vs[0]
	if a.Num {
		lit, _ := strconv.ParseFloat(a.Lit, 64)
		switch v.Kind {
		case "int", "float":
			f := v.Float()
			switch a.Op {
			case "=":
				return b2m(f == lit)
			case "!=":
				return b2m(f != lit)
			case "<":
				return b2m(f < lit)
			case "<=":
				return b2m(f <= lit)
			case ">":
				return b2m(f > lit)
			case ">=":
				return b2m(f >= lit)
			}
		case "str":
			if _, err := strconv.ParseFloat(v.S, 64); err == nil {
				return mUndef // numeric string vs numeric literal: coercion not fixed by the statement
			}
			if a.Op == "=" {
				return mFalse
			}
			return mUndef
		default:
			return mUndef
		}
	}
	// string literal (possibly wildcard)
	switch v.Kind {
	case "str":
		m := wildcardMatch(a.Lit, v.S)
		if a.Op == "=" {
			return b2m(m)
		}
		if a.Op == "!=" {
			return b2m(!m)
		}
	case "bool":
		// the statement names string, integer and decimal literals only; how a bool value compares is not fixed
		return mUndef
	case "int", "float":
		if a.Lit == "*" && a.Op == "=" {
			return mTrue
		}
		if strings.ContainsAny(a.Lit, "*?") {
			return mUndef
		}
		if _, err := strconv.ParseFloat(a.Lit, 64); err == nil {
			return mUndef // a quoted literal that reads as a number against a number: string-vs-number coercion, not fixed
		}
		if a.Op == "=" {
			return mFalse // a number never equals a non-numeric word
		}
		return mUndef
	}
	return mUndef
}

func b2m(b bool) int {
	if b {
		return mTrue
	}
	return mFalse
}

type c02Job struct {
	Dataset string `json:"dataset"`
	Layout  Layout `json:"layout"`
	Card    int    `json:"cardLimit"`
	Atom    int    `json:"atom"` // index of the "left" atom; all right atoms are paired with it
	Tier    string `json:"tier"`
}

func c02Find(name string) *c02Dataset {
	for _, d := range c02Datasets() {
		if d.Name == name {
			dd := d
			return &dd
		}
	}
	return nil
}

func c02Run(w *kernel.Worker, j *c02Job, rep *kernel.Report) (*Fail, error) {
	ds := c02Find(j.Dataset)
	atoms := c02Atoms(j.Tier)
	if err := setTun(w, "cardLimit", float64(j.Card)); err != nil {
		fp, what, herr := diedResult("C02", err)
		if herr != nil {
			return nil, herr
		}
		return &Fail{FP: fp, What: what}, nil
	}
	var idx string
	var err error
	pqs := strings.HasPrefix(j.Layout.Name, "pqs-")
	if pqs {
		// persistent-query layouts: the first event is flushed; then the left atom and its AND/OR pairs are run twice
		// against the index (which is how a filter becomes a tracked persistent query) and the segment is rotated; the
		// segment that takes the remaining events evaluates the tracked filters while ingesting (a second evaluator
		// of the same filters) and its answers are served from those bitsets (pqs-open: unrotated, pqs-rotated: from
		// the pqmr files). All oracles below apply unchanged.
		if err = w.Call("clearpqs", nil, nil); err == nil {
			err = setTun(w, "pqs", 1)
		}
		defer func() { _ = setTun(w, "pqs", 0); _ = w.Call("clearpqs", nil, nil) }()
		if err == nil {
			idx, err = LoadDataset(w, "c02x", ds.Events[:1], Layout{"", []int{1}}, rep)
		}
		if err == nil {
			L := atoms[j.Atom]
			reg := []Q{{Index: idx, Text: L.Text, Start: T0 - 10, End: T0 + 1000, Size: 1000}}
			for _, r := range atoms {
				reg = append(reg, Q{Index: idx, Text: L.Text + " AND " + r.Text, Start: T0 - 10, End: T0 + 1000, Size: 1000},
					Q{Index: idx, Text: L.Text + " OR " + r.Text, Start: T0 - 10, End: T0 + 1000, Size: 1000})
			}
			for rpt := 0; rpt < 2 && err == nil; rpt++ {
				_, err = runQueries(w, reg)
			}
		}
		if err == nil {
			// a segment takes over the tracked filters when it is started, i.e. at the rotation of its predecessor: the
			// rotation comes after the registration
			err = w.Call("rotate", nil, nil)
		}
		for i := 1; i < len(ds.Events) && err == nil; i++ {
			if err = ingestStep(w, 0, idx, []string{ds.Events[i]}); err != nil {
				break
			}
			rep.Transition(1)
			switch j.Layout.Bounds[i] {
			case 1:
				err = w.Call("flush", nil, nil)
			case 2:
				err = w.Call("rotate", nil, nil)
			}
		}
	} else {
		idx, err = LoadDataset(w, "c02x", ds.Events, j.Layout, rep)
	}
	if err != nil {
		fp, what, herr := diedResult("C02", err)
		if herr != nil {
			return nil, herr
		}
		return &Fail{FP: fp, What: what}, nil
	}
	defer func() { _ = delIndex(w, 0, idx) }()
	if pqs {
		// non-vacuity: the segment written after the registration carries persistent-query result files
		var files map[string]int64
		if err := w.Call("files", map[string]interface{}{"contains": "/" + idx + "/"}, &files); err == nil {
			n := 0
			for p := range files {
				if strings.Contains(p, "pqmr") {
					n++
				}
			}
			if n > 0 {
				rep.Add("pqs_jobs_with_pqmr_files", 1)
			}
			rep.Add("pqs_jobs", 1)
		}
	}
	var model []*MEvent
	for _, e := range ds.Events {
		m, err := Flatten(e, "timestamp")
		if err != nil {
			return nil, err
		}
		model = append(model, m)
	}
	n := len(ds.Events)
	full := func(text string) Q { return Q{Index: idx, Text: text, Start: T0 - 10, End: T0 + 1000, Size: 1000} }
	var qs []Q
	var labels []string
	add := func(label string, q Q) { qs = append(qs, q); labels = append(labels, label) }
	add("all", full("*"))
	for i, a := range atoms {
		add(fmt.Sprintf("atom:%d", i), full(a.Text))
	}
	L := atoms[j.Atom]
	add("not", full("NOT "+L.Text))
	if L.Where != "" {
		add("where", full("* | where "+L.Where))
	}
	for i, r := range atoms {
		add(fmt.Sprintf("and:%d", i), full(L.Text+" AND "+r.Text))
		add(fmt.Sprintf("or:%d", i), full(L.Text+" OR "+r.Text))
		add(fmt.Sprintf("andnot:%d", i), full(L.Text+" AND NOT "+r.Text))
		add(fmt.Sprintf("nor:%d", i), full("NOT ("+L.Text+" OR "+r.Text+")"))
	}
	// (iv) time ranges for the left atom: all [s,e] with s,e ∈ {ts_i-1, ts_i, ts_i+1} reduce to bounds in [-1..n]
	type tr struct{ s, e int64 }
	var trs []tr
	for s := int64(-1); s <= int64(n); s++ {
		for e := s; e <= int64(n); e++ {
			trs = append(trs, tr{s, e})
			q := full(L.Text)
			q.Start, q.End = T0+s, T0+e
			add(fmt.Sprintf("range:%d:%d", s, e), q)
		}
	}
	rs, err := runQueries(w, qs)
	if err != nil {
		fp, what, herr := diedResult("C02", err)
		if herr != nil {
			return nil, herr
		}
		return &Fail{FP: fp, What: what}, nil
	}
	rep.Eval(int64(len(qs)))
	sets := map[string]map[string]bool{}
	for i, r := range rs {
		if r.Err != "" || len(r.Errors) > 0 {
			return &Fail{FP: "C02/query-error/" + strings.SplitN(labels[i], ":", 2)[0], What: fmt.Sprintf("query %q: %s %v", qs[i].Text, r.Err, r.Errors)}, nil
		}
		s, dup := IDSet(r)
		if dup != "" {
			return &Fail{FP: "C02/duplicate-event", What: fmt.Sprintf("query %q returned %s twice", qs[i].Text, dup)}, nil
		}
		sets[labels[i]] = s
	}
	all := sets["all"]
	if len(all) != n {
		return &Fail{FP: "C02/match-all", What: fmt.Sprintf("* returned %v of %d events", setStr(all), n)}, nil
	}
	ctx := func(q string) string {
		return fmt.Sprintf("dataset=%s layout=%s card=%d query=%q", j.Dataset, j.Layout.Name, j.Card, q)
	}
	fs := &Fails{}
	// (i) reference model for atoms
	for i := range atoms {
		a := &atoms[i]
		got := sets[fmt.Sprintf("atom:%d", i)]
		for k, m := range model {
			id := fmt.Sprintf("e%d", k)
			want := c02EvalAtom(a, m)
			if want == mUndef {
				continue
			}
			if got[id] != (want == mTrue) {
				fs.Add(c02FP("model", c02Causes(model, j.Layout, a), c02AtomClass(a, m)), fmt.Sprintf("%s: event %s (%s) in result=%v, model says %v", ctx(a.Text), id, m.Raw, got[id], want == mTrue))
			}
		}
		if len(got) > 0 && len(got) < n {
			rep.Nontrivial(j.Dataset + "|" + a.Text)
		}
	}
	// (ii) algebra on observed sets. AND/OR: exactly intersection/union (the statement). NOT: an event never
	// satisfies both X and NOT X, and where the comparison is *applicable* to the event (value present and of the
	// literal's type) NOT is the complement; for absent / other-typed values the statement fixes nothing.
	la := sets[fmt.Sprintf("atom:%d", j.Atom)]
	appl := func(a *c02Atom, k int) bool { return c02Applicable(a, model[k]) }
	setOf := map[string]map[string]bool{}
	for i := range atoms {
		setOf[atoms[i].Text] = sets[fmt.Sprintf("atom:%d", i)]
	}
	// neg: how many of the trailing atoms of as stand under the negation
	checkNot := func(form, text string, got map[string]bool, excl func(id string) bool, mustIn func(k int) bool, neg int, as ...*c02Atom) {
		for k := range model {
			id := fmt.Sprintf("e%d", k)
			if got[id] && excl(id) {
				cause := c02Causes(model, j.Layout, as...)
				for _, a := range as[len(as)-neg:] {
					// the event is in the result of a negated free-text term: one root cause whatever the block kinds are
					if a.Col == "" && setOf[a.Text][id] {
						cause = "negated-free-text"
					}
				}
				fs.Add("C02/algebra/"+cause+"/"+form+"-overlap",
					fmt.Sprintf("%s: event %s is returned although it is also in the result of the negated expression; got %s", ctx(text), id, setStr(got)))
			}
			if !got[id] && mustIn(k) {
				fs.Add("C02/algebra/"+c02Causes(model, j.Layout, as...)+"/"+form+"-missing",
					fmt.Sprintf("%s: event %s (%s) does not satisfy the negated comparison (which applies to it) but is not returned; got %s", ctx(text), id, model[k].Raw, setStr(got)))
			}
		}
	}
	checkNot("not", "NOT "+L.Text, sets["not"], func(id string) bool { return la[id] },
		func(k int) bool { return appl(&L, k) && !la[fmt.Sprintf("e%d", k)] }, 1, &L)
	for i := range atoms {
		ra := sets[fmt.Sprintf("atom:%d", i)]
		and, or := map[string]bool{}, map[string]bool{}
		for id := range all {
			if la[id] && ra[id] {
				and[id] = true
			}
			if la[id] || ra[id] {
				or[id] = true
			}
		}
		R := atoms[i]
		for _, c := range []struct {
			lab  string
			want map[string]bool
			text string
		}{{"and", and, L.Text + " AND " + R.Text}, {"or", or, L.Text + " OR " + R.Text}} {
			got := sets[fmt.Sprintf("%s:%d", c.lab, i)]
			if !setEq(got, c.want) {
				cause := c02Causes(model, j.Layout, &L, &R)
				fp := "C02/algebra/" + cause + "/" + c.lab
				if cause == "plain" {
					fp += "/" + c02LitClass(&L) + "," + c02LitClass(&R)
				}
				fs.Add(fp, fmt.Sprintf("%s: got %s, set algebra on R(A)=%s R(B)=%s gives %s", ctx(c.text), setStr(got), setStr(la), setStr(ra), setStr(c.want)))
			}
			if len(got) > 0 && len(got) < n {
				rep.Nontrivial(j.Dataset + "|" + c.text)
			}
		}
		Rp := &atoms[i]
		checkNot("andnot", L.Text+" AND NOT "+R.Text, sets[fmt.Sprintf("andnot:%d", i)],
			func(id string) bool { return ra[id] || !la[id] },
			func(k int) bool { id := fmt.Sprintf("e%d", k); return la[id] && appl(Rp, k) && !ra[id] }, 1, &L, Rp)
		checkNot("nor", "NOT ("+L.Text+" OR "+R.Text+")", sets[fmt.Sprintf("nor:%d", i)],
			func(id string) bool { return ra[id] || la[id] },
			func(k int) bool {
				id := fmt.Sprintf("e%d", k)
				return appl(&L, k) && appl(Rp, k) && !la[id] && !ra[id]
			}, 2, &L, Rp)
	}
	// (iii) search ≡ where on numeric fields
	if L.Where != "" {
		wh := sets["where"]
		for k, m := range model {
			vs, ok := m.Cols[L.Col]
			if !ok || !vs[0].IsNum() {
				continue
			}
			id := fmt.Sprintf("e%d", k)
			if la[id] != wh[id] {
				fs.Add(c02FP("search-vs-where", c02Causes(model, j.Layout, &L), L.Op+"/"+vs[0].Kind+"-vs-"+c02NumLitKind(L.Lit)),
					fmt.Sprintf("%s: event %s (%s=%v): search clause matched=%v, `where %s` matched=%v", ctx(L.Text), id, L.Col, vs[0], la[id], L.Where, wh[id]))
			}
		}
	}
	// (iv) time range restriction
	for _, t := range trs {
		want := map[string]bool{}
		for k := range model {
			id := fmt.Sprintf("e%d", k)
			if la[id] && int64(k) >= t.s && int64(k) <= t.e {
				want[id] = true
			}
		}
		got := sets[fmt.Sprintf("range:%d:%d", t.s, t.e)]
		if !setEq(got, want) {
			fs.Add(c02FP("time-range", c02Causes(model, j.Layout, &L), c02LitClass(&L)), fmt.Sprintf("%s range=[T0%+d,T0%+d]: got %s, want %s", ctx(L.Text), t.s, t.e, setStr(got), setStr(want)))
		}
	}
	return fs.Result(), nil
}

// c02Causes names the data conditions (of this dataset × layout) under which an atom is evaluated; they
// identify the known root causes so that a failure under *plain* conditions keeps a distinct fingerprint.
func c02Causes(model []*MEvent, lay Layout, atoms ...*c02Atom) string {
	causes := map[string]bool{}
	// blocks of the layout
	var blocks [][]*MEvent
	var cur []*MEvent
	for i, m := range model {
		cur = append(cur, m)
		if lay.Bounds[i] != 0 {
			blocks = append(blocks, cur)
			cur = nil
		}
	}
	kindClass := func(v MVal) string {
		if v.IsNum() {
			return "num"
		}
		return v.Kind
	}
	for _, a := range atoms {
		cols := []string{a.Col}
		if a.Col == "" {
			cols = []string{"a", "m", "b"}
		}
		for _, c := range cols {
			anyHas := false
			for _, m := range model {
				if _, ok := m.Cols[c]; ok {
					anyHas = true
				}
			}
			for _, blk := range blocks {
				ks := map[string]bool{}
				allStrNumeric := true
				for _, m := range blk {
					if vs, ok := m.Cols[c]; ok {
						ks[kindClass(vs[0])] = true
						if vs[0].Kind == "str" {
							if _, err := strconv.ParseFloat(vs[0].S, 64); err != nil {
								allStrNumeric = false
							}
						}
					}
				}
				if len(ks) == 2 && ks["num"] && ks["str"] && allStrNumeric {
					// numbers next to strings that all read as numbers: the writer converts the whole column of the block
					// to numbers (another code path than the consolidation to strings of a really mixed block)
					causes["numstr-block"] = true
				} else if len(ks) >= 2 {
					causes["mixed-block"] = true
				}
				if len(ks) == 0 && anyHas {
					causes["col-absent-in-block"] = true
				}
			}
		}
		for _, m := range model {
			if vs, ok := m.Cols[a.Col]; ok && vs[0].Kind == "bool" {
				causes["bool-column"] = true
			}
		}
		if a.Num && strings.Contains(a.Lit, ".") {
			for _, m := range model {
				if vs, ok := m.Cols[a.Col]; ok && vs[0].Kind == "int" {
					causes["int-vs-decimal"] = true
				}
			}
		}
	}
	// answers served from persistent-query results come from another evaluator (the ingest-time one): a class of its own
	sfx := ""
	if strings.HasPrefix(lay.Name, "pqs-") {
		sfx = "@pqs"
	}
	for _, c := range []string{"col-absent-in-block", "mixed-block", "int-vs-decimal", "bool-column", "numstr-block"} {
		if causes[c] {
			return c + sfx // primary cause, by priority
		}
	}
	return "plain" + sfx
}

// c02Applicable: the comparison applies to the event — the column is present and its value has the literal's type.
func c02Applicable(a *c02Atom, ev *MEvent) bool {
	if a.Col == "" {
		for c, vs := range ev.Cols {
			if c != "id" && vs[0].Kind != "str" {
				return false
			}
		}
		return c02EvalAtom(a, ev) != mUndef
	}
	vs, ok := ev.Cols[a.Col]
	if !ok {
		return false
	}
	if a.Num {
		return vs[0].IsNum()
	}
	return vs[0].Kind == "str"
}

func c02FP(oracle, cause, detail string) string {
	if cause == "plain" {
		return "C02/" + oracle + "/plain/" + detail
	}
	return "C02/" + oracle + "/" + cause
}

func c02NumLitKind(l string) string {
	if strings.Contains(l, ".") {
		return "decimal"
	}
	return "integer"
}

func c02LitClass(a *c02Atom) string {
	if a.Col == "" {
		return "freetext"
	}
	if a.Num {
		return "num" + a.Op
	}
	if strings.ContainsAny(a.Lit, "*?") {
		return "wild" + a.Op
	}
	return "str" + a.Op
}

func c02AtomClass(a *c02Atom, m *MEvent) string {
	k := "absent"
	if vs, ok := m.Cols[a.Col]; ok {
		k = vs[0].Kind
	}
	return c02LitClass(a) + "/" + k
}

func C02() int {
	rep := kernel.NewReport("C02", "exploration")
	rep.Rule = "every atom, NOT atom, and A AND B / A OR B / A AND NOT B / NOT (A OR B) for all ordered atom pairs, each also under every " +
		"time range with bounds on/next to event timestamps, × 5 datasets (mixed, ints, floats, strings, strings with regex metacharacters) × 7 layouts (5 flush/rotation placements; 2 with the filters registered as persistent queries before the segment is written, unrotated and rotated) × cardinality limits; " +
		"oracles: reference model where defined, set algebra on observed id sets, search≡where on numeric fields, range restriction. " +
		"non-trivial = (dataset, expression) whose result is neither empty nor everything"
	rep.Assume = []string{"model is three-valued: string-vs-number coercions, != on absent fields, substring-but-not-word free text are left undefined (no stance)",
		"float literals in the alphabet are ≥ 0.5 apart (no stance on the 1e-4 equality tolerance)"}
	d := &Driver[c02Job]{Rep: rep, Pool: logPool(),
		Budget: kernel.NewBudget(map[string]time.Duration{"quick": 150 * time.Second, "thorough": 30 * time.Minute}[rep.Tier]),
		Enumerate: func(emit func(c02Job)) {
			atoms := c02Atoms(rep.Tier)
			cards := []int{2, 501}
			if rep.Tier == "thorough" {
				cards = []int{0, 2, 501}
			}
			for _, ds := range c02Datasets() {
				n := len(ds.Events)
				lays := StdLayouts(n)
				po, pr := make([]int, n), make([]int, n)
				po[0], pr[0], po[n-1], pr[n-1] = 2, 2, 1, 2
				lays = append(lays, Layout{"pqs-open", po}, Layout{"pqs-rotated", pr})
				for _, lay := range lays {
					for _, c := range cards {
						for i := range atoms {
							emit(c02Job{Dataset: ds.Name, Layout: lay, Card: c, Atom: i, Tier: rep.Tier})
						}
					}
				}
			}
			rep.Bounds["atoms"] = len(atoms)
			rep.Bounds["datasets"] = len(c02Datasets())
			rep.Bounds["layouts"] = 7
			rep.Bounds["cardLimits"] = cards
		},
		Run:        c02Run,
		Key:        func(j *c02Job) string { return fmt.Sprintf("%s|%s|%d|%d", j.Dataset, j.Layout.Name, j.Card, j.Atom) },
		Nontrivial: func(j *c02Job) bool { return false }, // counted per (dataset, expression) inside Run
	}
	d.Drive()
	return rep.Finish()
}

func init() {
	Registry["C02"] = C02
	Replayers["C02"] = MakeReplayer[c02Job]("C02", "exploration", logPool, c02Run)
}
