package props

import (
	"fmt"
	"math"
	"regexp"
	"sort"
	"strings"
	"time"

	"verif/harness/kernel"
)

// C03 — answers do not depend on layout or acceleration path. Differential seqx: the same dataset is loaded twice in
// one worker, once in the baseline configuration (one open block, dictionary limit 501, PQS off, GOMAXPROCS 1) and
// once in configuration k; every query of the set must give the same normalised answer.

type c03Config struct {
	Layout Layout `json:"layout"`
	Card   int    `json:"cardLimit"`
	PQS    string `json:"pqs"` // off | on (queries registered after the first event's block, so later blocks carry pqmr / agile tree)
	Procs  int    `json:"gomaxprocs"`
	// SortIdx: sort columns v, f, g are configured for the index before ingest, so rotated segments carry sort index
	// files and sorts on these columns are served from them
	SortIdx bool `json:"sortIndex,omitempty"`
}

type c03Job struct {
	Dataset string    `json:"dataset"`
	Config  c03Config `json:"config"`
}

type c03Query struct {
	Text    string
	Ordered bool
	Class   string
}

func c03Datasets() map[string][]string {
	ev := func(i int, ts int64, members string) string { return c01Event(i, T0+ts, members) }
	return map[string][]string{
		"plain": {
			ev(0, 0, `"v":1,"f":1.5,"g":"A","m":"foo bar"`),
			ev(1, 1000, `"v":2,"f":-2.25,"g":"B","m":"foo"`),
			ev(2, 1500, `"v":3,"f":100.5,"g":"A","m":"BAR baz"`),
			ev(3, 2000, `"v":4,"f":0.125,"g":"B","m":"qux"`),
			ev(4, 61000, `"v":5,"f":7.5,"g":"A","m":"foo qux"`), // (an integer-valued f would make this block's column integer-typed: C02's int-vs-decimal class)
		},
		"dups": {
			ev(0, 0, `"v":2,"f":2.5,"g":"A","m":"foo"`),
			ev(1, 0, `"v":2,"f":2.5,"g":"A","m":"foo"`),
			ev(2, 1, `"v":7,"f":-1.5,"g":"A","m":"bar"`),
			ev(3, 1, `"v":2,"f":3.5,"g":"B","m":"Foo Bar"`),
			ev(4, 2, `"v":9,"f":4.5,"g":"B","m":"bar"`),
		},
		// a column that starts with a non-numeric string and goes on with numbers (numeric measures over it take the numbers)
		"mixnum": {
			ev(0, 0, `"v":1,"f":1.5,"g":"A","m":"foo","x":"n/a"`),
			ev(1, 1000, `"v":2,"f":2.5,"g":"B","m":"foo","x":5`),
			ev(2, 1500, `"v":3,"f":3.5,"g":"A","m":"bar","x":7`),
			ev(3, 2000, `"v":4,"f":4.5,"g":"B","m":"bar","x":10`),
			ev(4, 61000, `"v":5,"f":5.5,"g":"A","m":"foo","x":2`),
		},
		// a decimal column whose first value of a block is a fraction and whose later values are larger whole numbers (the
		// block's range index starts as a decimal range and has to keep growing)
		"fracwhole": {
			ev(0, 0, `"v":1,"f":2.5,"g":"A","m":"foo"`),
			ev(1, 1000, `"v":2,"f":5,"g":"B","m":"foo"`),
			ev(2, 1500, `"v":3,"f":12,"g":"A","m":"bar"`),
			ev(3, 2000, `"v":4,"f":7,"g":"B","m":"bar"`),
			ev(4, 61000, `"v":5,"f":0.125,"g":"A","m":"foo"`),
		},
		// events that arrive out of time order: a later block of a segment holds events older than everything before it
		"late": {
			ev(0, 2000, `"v":1,"f":1.5,"g":"A","m":"foo bar"`),
			ev(1, 3000, `"v":2,"f":-2.25,"g":"B","m":"foo"`),
			ev(2, 0, `"v":3,"f":100.5,"g":"A","m":"BAR baz"`),
			ev(3, 1000, `"v":4,"f":0.125,"g":"B","m":"qux"`),
			ev(4, 61000, `"v":5,"f":7.5,"g":"A","m":"foo qux"`),
		},
		// spellings that differ only in case (equality is case-insensitive, dictionary words are not)
		"case": {
			ev(0, 0, `"v":1,"f":1.5,"g":"a","m":"Error"`),
			ev(1, 1, `"v":2,"f":2.5,"g":"A","m":"error"`),
			ev(2, 2, `"v":3,"f":3.5,"g":"b","m":"ERROR"`),
			ev(3, 3, `"v":4,"f":4.5,"g":"a","m":"warn"`),
			ev(4, 4, `"v":5,"f":5.5,"g":"B","m":"error x"`),
		},
	}
}

var c03Queries = []c03Query{
	{"v=2", false, "filter-num"}, {"v>2", false, "filter-num"}, {"v<=3", false, "filter-num"}, {"v!=2", false, "filter-num"},
	{"g=A", false, "filter-str"}, {"m=foo", false, "filter-str"}, {"foo", false, "filter-freetext"}, {"m=*bar*", false, "filter-wild"},
	{`m="foo bar"`, false, "filter-str"}, {"v>1 AND g=A", false, "filter-and"}, {"v=1 OR g=B", false, "filter-or"}, {"NOT g=A", false, "filter-not"},
	{"bar OR qux", false, "filter-freetext"},
	{"* | stats count", false, "stats"}, {"* | stats count, sum(v), avg(v), min(v), max(v), dc(v) by g", false, "stats-by"},
	{"* | stats sum(f), avg(f), min(f), max(f)", false, "stats"}, {"g=A | stats count, sum(v)", false, "filter-stats"},
	{"v>1 | stats count, max(f) by g", false, "filter-stats-by"}, {"* | stats dc(g), values(g)", false, "stats"},
	{"* | timechart span=1s count", false, "timechart"}, {"* | timechart span=1m sum(v) by g", false, "timechart"},
	{"* | stats count by m", false, "stats-by"},
	{"* | sort v, f, id | fields id, v, f", true, "sort"}, {"* | sort -f, v | head 2", true, "sort"}, {"g=A | sort -v, id | fields id, v", true, "filter-sort"}, {"g=A | sort 2 v, id | fields id, v", true, "filter-sort"}, {"v>1 | sort f, id | fields id, f", true, "filter-sort"}, {"* | eval w=v*2 | where w>4 | fields id, w", false, "eval-where"},
	{"* | dedup g | fields g", false, "dedup"}, {"* | top 1 g", false, "top"},
	{"* | stats sum(x), avg(x), min(x), max(x)", false, "stats-mixed-column"}, {"g=A | stats sum(x), max(x)", false, "filter-stats-mixed-column"},
	{"f>6", false, "filter-float-int-literal"}, {"f>=12", false, "filter-float-int-literal"}, {"f=12", false, "filter-float-int-literal"}, {"f<=5", false, "filter-float-int-literal"}, {"f>2", false, "filter-float-int-literal"},
	{"g=a", false, "filter-str"}, {"g=B", false, "filter-str"}, {"m=error", false, "filter-str"}, {"m=ERROR", false, "filter-str"}, {"m!=error", false, "filter-str"},
}

// every comparison operator at every value that occurs (block minima and maxima are among them in the multi-block layouts)
func init() {
	for _, op := range []string{">=", "<=", ">", "<", "=", "!="} {
		for _, x := range []string{"1", "2", "3", "4", "5", "7", "9"} {
			c03Queries = append(c03Queries, c03Query{"v" + op + x, false, "filter-num-boundary"})
		}
		for _, x := range []string{"-2.25", "-1.5", "0.125", "1.5", "2.5", "3.5", "7.5", "100.5"} {
			c03Queries = append(c03Queries, c03Query{"f" + op + x, false, "filter-float-boundary"})
		}
	}
}

func normNum(o interface{}) string {
	if f, ok := ObsFloat(o); ok {
		if s, iss := o.(string); iss && strings.TrimSpace(s) == "" {
			return `""`
		}
		if math.Abs(f) < 1e15 && f == math.Trunc(f) {
			return fmt.Sprintf("%d", int64(f))
		}
		return fmt.Sprintf("%.9g", f)
	}
	return jstr(o)
}

// c03Norm renders an answer in a layout-independent canonical form.
func c03Norm(r *QRes, ordered bool) string {
	if r.Err != "" {
		return "ERR"
	}
	var sb strings.Builder
	if len(r.Errors) > 0 {
		sb.WriteString("ERRORS;")
	}
	var recs []string
	for _, rec := range r.Records {
		ks := sortedKeys(rec)
		var parts []string
		for _, k := range ks {
			if k == "_index" || rec[k] == nil {
				continue
			}
			if s, ok := rec[k].(string); ok && s == "" {
				continue
			}
			parts = append(parts, k+"="+normNum(rec[k]))
		}
		recs = append(recs, strings.Join(parts, ","))
	}
	if !ordered {
		sort.Strings(recs)
	}
	sb.WriteString("R[" + strings.Join(recs, " | ") + "]")
	var bs []string
	for _, b := range r.Measure {
		var parts []string
		for _, k := range sortedKeys(b.M) {
			v := b.M[k]
			if l, ok := v.([]interface{}); ok {
				var ts []string
				for _, e := range l {
					ts = append(ts, normNum(e))
				}
				sort.Strings(ts)
				parts = append(parts, k+"=["+strings.Join(ts, " ")+"]")
				continue
			}
			if s, ok := v.(string); ok && strings.HasPrefix(s, "[") {
				ts := parseListValue(s)
				for i := range ts {
					ts[i] = normNum(ts[i])
				}
				sort.Strings(ts)
				parts = append(parts, k+"=["+strings.Join(ts, " ")+"]")
				continue
			}
			parts = append(parts, k+"="+normNum(v))
		}
		g := make([]string, len(b.G))
		for i, x := range b.G {
			g[i] = normNum(x)
		}
		bs = append(bs, strings.Join(g, "/")+"{"+strings.Join(parts, ",")+"}")
	}
	sort.Strings(bs)
	sb.WriteString("M[" + strings.Join(bs, " | ") + "]")
	return sb.String()
}

func c03Run(w *kernel.Worker, j *c03Job, rep *kernel.Report) (*Fail, error) {
	die := func(err error) (*Fail, error) {
		fp, what, herr := diedResult("C03", err)
		if herr != nil {
			return nil, herr
		}
		return &Fail{FP: fp, What: what}, nil
	}
	evs := c03Datasets()[j.Dataset]
	n := len(evs)
	set := func(card, procs int, pqs bool) error {
		if err := setTun(w, "cardLimit", float64(card)); err != nil {
			return err
		}
		if err := setTun(w, "gomaxprocs", float64(procs)); err != nil {
			return err
		}
		v := 0.0
		if pqs {
			v = 1
		}
		return setTun(w, "pqs", v)
	}
	// every query over the whole range, and three query forms over every window [timestamp of event i, timestamp of
	// event j] (windows that begin after the first block, end before the last, cut inside a block)
	type planned struct {
		c03Query
		S, E int64
	}
	var plan []planned
	for _, q := range c03Queries {
		if j.Dataset == "fracwhole" && q.Class == "filter-float-boundary" {
			// whole numbers in a decimal column are stored as integers, and an integer-typed stored value against a decimal
			// literal is C02's recorded finding (int-vs-decimal); this dataset is asked with integer literals only
			continue
		}
		plan = append(plan, planned{q, T0 - 5, T0 + 100000})
	}
	var tss []int64
	for _, e := range evs {
		if m, err := Flatten(e, "timestamp"); err == nil {
			tss = append(tss, m.TS)
		}
	}
	for i := range tss {
		for k := i; k < len(tss); k++ {
			if tss[k] < tss[i] {
				continue
			}
			for _, q := range []c03Query{{"*", false, "window-all"}, {"v>1", false, "window-filter"}, {"* | stats count, sum(v) by g", false, "window-stats-by"}, {"v>1 | stats count, max(f) by g", false, "window-filter-stats-by"}} {
				plan = append(plan, planned{q, tss[i], tss[k] + 1})
			}
		}
	}
	mkqs := func(idx string) []Q {
		var qs []Q
		for _, q := range plan {
			qs = append(qs, Q{Index: idx, Text: q.Text, Start: q.S, End: q.E, Size: 100})
		}
		return qs
	}
	// baseline
	if err := set(501, 1, false); err != nil {
		return die(err)
	}
	base := make([]int, n)
	base[n-1] = 1
	bidx, err := LoadDataset(w, "c03b", evs, Layout{"baseline", base}, rep)
	if err != nil {
		return die(err)
	}
	defer func() { _ = delIndex(w, 0, bidx) }()
	brs, err := runQueries(w, mkqs(bidx))
	if err != nil {
		return die(err)
	}
	// configuration k
	if err := set(j.Config.Card, j.Config.Procs, j.Config.PQS == "on"); err != nil {
		return die(err)
	}
	var kidx string
	if j.Config.PQS == "on" {
		// first event, then register every query against the index, then the rest: later blocks/segments are
		// written with persistent-query bitsets and (at rotation) aggregation trees for the registered queries
		kidx, err = LoadDataset(w, "c03k", evs[:1], Layout{"", []int{1}}, rep)
		if err != nil {
			return die(err)
		}
		for rpt := 0; rpt < 2; rpt++ {
			if _, err := runQueries(w, mkqs(kidx)); err != nil {
				return die(err)
			}
		}
		for i := 1; i < n; i++ {
			if err := ingestStep(w, 0, kidx, []string{evs[i]}); err != nil {
				return die(err)
			}
			b := j.Config.Layout.Bounds[i]
			if b == 1 {
				err = w.Call("flush", nil, nil)
			} else if b == 2 {
				err = w.Call("rotate", nil, nil)
			}
			if err != nil {
				return die(err)
			}
			rep.Transition(2)
		}
	} else {
		kidx, err = LoadDatasetWith(w, "c03k", evs, j.Config.Layout, rep, func(idx string) error {
			if !j.Config.SortIdx {
				return nil
			}
			return w.Call("sortcols", map[string]interface{}{"index": idx, "columns": []string{"v", "f", "g"}}, nil)
		})
		if err != nil {
			return die(err)
		}
		if j.Config.SortIdx {
			if err := w.Call("waitsortindex", nil, nil); err != nil {
				return die(err)
			}
		}
	}
	defer func() { _ = delIndex(w, 0, kidx) }()
	krs, err := runQueries(w, mkqs(kidx))
	if err != nil {
		return die(err)
	}
	rep.Eval(int64(2 * len(plan)))
	// which accelerator files exist for configuration k (non-vacuity)
	var files map[string]int64
	if err := w.Call("files", map[string]interface{}{"contains": "/" + kidx + "/"}, &files); err != nil {
		return die(err)
	}
	accel := map[string]bool{}
	for p := range files {
		switch {
		case strings.Contains(p, "pqmr"):
			accel["pqmr"] = true
		case strings.HasSuffix(p, ".str") || strings.Contains(p, ".strl"):
			accel["agiletree"] = true
		case strings.HasSuffix(p, ".sst"):
			accel["sst"] = true
		case strings.HasSuffix(p, ".cmi"):
			accel["cmi"] = true
		}
	}
	for a := range accel {
		rep.Add("configs_with_"+a, 1)
	}
	_ = set(501, 1, false)
	fs := &Fails{}
	for i, q := range plan {
		a, b := c03Norm(brs[i], q.Ordered), c03Norm(krs[i], q.Ordered)
		if a != b {
			if j.Config.SortIdx {
				// one root cause with its own class: records that come from sort index lines carry timestamp 0
				tsRe := regexp.MustCompile(`timestamp=\d+`)
				if tsRe.ReplaceAllString(a, "timestamp=T") == tsRe.ReplaceAllString(b, "timestamp=T") && strings.Contains(b, "timestamp=0") {
					fs.Add("C03/differs/timestamp-zero-in-records-served-from-a-sort-index",
						fmt.Sprintf("dataset=%s query=%q\n  baseline: %s\n  config %s: %s", j.Dataset, q.Text, a, jstr(j.Config), b))
					continue
				}
			}
			fs.Add("C03/differs/"+q.Class+"/"+c03CfgClass(&j.Config),
				fmt.Sprintf("dataset=%s query=%q window=[T0%+d,T0%+d)\n  baseline (one open block, card 501, pqs off, procs 1): %s\n  config %s: %s\n  accelerator files: %v",
					j.Dataset, q.Text, q.S-T0, q.E-T0, a, jstr(j.Config), b, sortedKeys(accel)))
		} else if !strings.Contains(a, "R[]M[]") {
			rep.Nontrivial(j.Dataset + "|" + q.Text + fmt.Sprint(q.S, q.E) + "|" + jstr(j.Config))
		}
	}
	return fs.Result(), nil
}

func c03CfgClass(c *c03Config) string {
	var parts []string
	rot := false
	multi := false
	for i, b := range c.Layout.Bounds {
		if b == 2 {
			rot = true
		}
		if b != 0 && i < len(c.Layout.Bounds)-1 {
			multi = true
		}
	}
	if rot {
		parts = append(parts, "rotated")
	}
	if multi {
		parts = append(parts, "multiblock")
	}
	if c.Card != 501 {
		parts = append(parts, fmt.Sprintf("card%d", c.Card))
	}
	if c.PQS == "on" {
		parts = append(parts, "pqs")
	}
	if c.Procs != 1 {
		parts = append(parts, "parallel")
	}
	if c.SortIdx {
		parts = append(parts, "sortindex")
	}
	if len(parts) == 0 {
		return "same-as-baseline"
	}
	if c.PQS == "on" {
		// persistent-query / aggregation-tree acceleration: one class per (open|rotated)
		if rot {
			return "pqs+rotated"
		}
		return "pqs+open"
	}
	return strings.Join(parts, "+")
}

func pqsPool() *kernel.Pool {
	// PQS is toggled per configuration through the tunable; boot with the production default
	return &kernel.Pool{Boot: map[string]interface{}{}, RecycleEvery: 150}
}

func C03() int {
	rep := kernel.NewReport("C03", "exploration")
	rep.Rule = "for each dataset × configuration k = (layout, dictionary limit, PQS off/on with every query registered after the first block, GOMAXPROCS) " +
		"the dataset is loaded in the baseline configuration and in k inside one worker and all 122 queries (filters incl. every comparison operator at every occurring value and case-variant equality, boolean forms, free text, stats with and " +
		"without group-by, timechart, sort, eval/where, dedup, top) must give identical normalised answers. non-trivial = (dataset, query, k) with a non-empty equal answer; " +
		"configs_with_<accelerator> counts configurations in which that accelerator's files actually existed"
	rep.Assume = []string{"datasets hold single-kind dense columns only (mixed/sparse columns are covered, with their known findings, by C02/C04)",
		"float measures are compared to 9 significant digits"}
	d := &Driver[c03Job]{Rep: rep, Pool: pqsPool(),
		Budget: kernel.NewBudget(map[string]time.Duration{"quick": 150 * time.Second, "thorough": 30 * time.Minute}[rep.Tier]),
		Enumerate: func(emit func(c03Job)) {
			var lays []Layout
			if rep.Tier == "thorough" {
				lays = AllLayouts(5)
			} else {
				lays = append(StdLayouts(5), Layout{"r-r-r-r-r", []int{2, 2, 2, 2, 2}}, Layout{"f-r-f-r-f", []int{1, 2, 1, 2, 1}}, Layout{"0-2-0-0-2", []int{0, 2, 0, 0, 2}})
			}
			names := []string{"plain", "dups", "case", "mixnum", "fracwhole", "late"}
			for _, ds := range names {
				for _, l := range lays {
					for _, c := range []int{2, 501} {
						for _, p := range []string{"off", "on"} {
							for _, pr := range []int{1, 4} {
								if (ds == "fracwhole" || ds == "late") && rep.Tier != "thorough" && (c != 501 || pr != 1) {
									continue // quick: the two added datasets in the default dictionary limit on one processor
								}
								emit(c03Job{Dataset: ds, Config: c03Config{Layout: l, Card: c, PQS: p, Procs: pr}})
								if c == 501 && p == "off" {
									emit(c03Job{Dataset: ds, Config: c03Config{Layout: l, Card: c, PQS: p, Procs: pr, SortIdx: true}})
								}
							}
						}
					}
				}
			}
			rep.Bounds["layouts"] = len(lays)
			rep.Bounds["queries"] = len(c03Queries)
		},
		Run:        c03Run,
		Key:        func(j *c03Job) string { return j.Dataset + "|" + jstr(j.Config) },
		Nontrivial: func(j *c03Job) bool { return false },
	}
	d.Drive()
	return rep.Finish()
}

func init() {
	Registry["C03"] = C03
	Replayers["C03"] = MakeReplayer[c03Job]("C03", "exploration", pqsPool, c03Run)
}
