package props

import (
	"fmt"
	"math"
	"sort"
	"strconv"
	"strings"
	"time"

	"verif/harness/kernel"
)

// C04 — aggregations equal the mathematical aggregate. seqx: datasets × all segmentations × measure/group-by/span
// combinations, reference aggmodel.

type c04Dataset struct {
	Name   string
	Events []string
}

const c04S = T0 - 500 // query start; timechart buckets are [S+k·span, S+(k+1)·span)

func c04Datasets() []c04Dataset {
	ev := func(i int, off int64, members string) string { return c01Event(i, c04S+off, members) }
	return []c04Dataset{
		{"dense-sparse", []string{
			ev(0, 0, `"v":1,"s":10,"ns":"3","x":1,"g":"A","k":1`),
			ev(1, 999, `"v":2,"ns":"4","x":"2","g":"B","h":"H","k":"z"`),
			ev(2, 1000, `"v":2.5,"s":30,"ns":"5","x":"z","g":"A","k":true`),
			ev(3, 60000, `"v":4,"ns":"6","g":"B","h":"H"`),
		}},
		{"dups-negative", []string{
			ev(0, 1, `"v":2,"s":-1,"ns":"2","x":"w","g":"A","h":"H1","k":"q"`),
			ev(1, 1001, `"v":2,"s":-1,"ns":"2","g":"A","h":"H2","k":"q"`),
			ev(2, 2000, `"v":-3,"ns":"-3","x":5,"g":"A","k":2`),
			ev(3, 3599999, `"v":2,"s":7,"ns":"10","g":"B","h":"H1","k":2`),
		}},
		{"one-group-floats", []string{
			ev(0, 500, `"v":0.5,"s":1.5,"ns":"0.5","x":true,"g":"A"`),
			ev(1, 500, `"v":1.5,"ns":"1.5","g":"A","h":"H"`),
			ev(2, 1500, `"v":100,"s":2.5,"ns":"100","x":"1","g":"A"`),
			ev(3, 3600000, `"v":1e10,"ns":"7","g":"A","h":"H"`),
		}},
		{"six", []string{
			ev(0, 0, `"v":1,"s":1,"ns":"1","x":"a b","g":"A","k":1`),
			ev(1, 10, `"v":2,"ns":"2","g":"B","k":"1"`),
			ev(2, 1000, `"v":3,"s":3,"ns":"3","g":"C","h":"H","k":1.5`),
			ev(3, 1999, `"v":4,"ns":"4","g":"A","h":"H"`),
			ev(4, 2000, `"v":5,"s":5,"ns":"5","x":2,"g":"B","k":false`),
			ev(5, 59999, `"v":6,"ns":"6","g":"C","h":"I"`),
		}},
	}
}

type c04Job struct {
	Dataset string `json:"dataset"`
	Layout  Layout `json:"layout"`
	Card    int    `json:"cardLimit"`
}

var c04Measures = []string{"count", "count(%s)", "sum(%s)", "min(%s)", "max(%s)", "avg(%s)", "range(%s)", "dc(%s)", "values(%s)", "list(%s)", "earliest(%s)", "latest(%s)", "perc50(%s)", "perc99(%s)"}

func fmtMeasure(measure, col string) string {
	if !strings.Contains(measure, "%s") {
		return measure
	}
	return fmt.Sprintf(measure, col)
}

func c04Key(measure, col string) string {
	m := fmtMeasure(measure, col)
	if measure == "count" {
		return "count(*)"
	}
	if strings.HasPrefix(m, "dc(") {
		return "cardinality(" + col + ")"
	}
	return m
}

// numeric value of a model value for numeric measures: numbers and numeric strings count
func c04Num(v MVal) (float64, bool) {
	switch v.Kind {
	case "int", "float":
		return v.Float(), true
	case "str":
		f, err := strconv.ParseFloat(v.S, 64)
		return f, err == nil
	}
	return 0, false
}

func canonText(v MVal) string {
	switch v.Kind {
	case "str":
		return v.S
	case "bool":
		return strconv.FormatBool(v.B)
	case "int":
		return strconv.FormatInt(v.I, 10)
	}
	return strconv.FormatFloat(v.F, 'f', -1, 64)
}

type c04Check struct {
	fs    *Fails
	ctx   string
	cause string
}

func approxEq(a, b float64) bool {
	if a == b {
		return true
	}
	d := math.Abs(a - b)
	return d <= 1e-9*math.Max(math.Abs(a), math.Abs(b)) || d < 1e-12
}

// c04Compare checks every measure of one bucket against the events of that bucket.
func c04Compare(fs *Fails, ctx, col, numClass string, evs []*MEvent, got map[string]interface{}, only string) {
	want := func(key string) bool { // only: "" (every measure) or the |-separated measures the query holds
		if only == "" {
			return true
		}
		for _, o := range strings.Split(only, "|") {
			if o == key {
				return true
			}
		}
		return false
	}
	var nums []float64
	var toks []string
	present := 0
	for _, m := range evs { // evs are in timestamp order
		vs, ok := m.Cols[col]
		if !ok {
			continue
		}
		present++
		toks = append(toks, canonText(vs[0]))
		if f, ok := c04Num(vs[0]); ok {
			nums = append(nums, f)
		}
	}
	bad := func(measure, what string) {
		fam := map[string]string{"count": "count", "count-col": "count", "sum": "sum-avg", "avg": "sum-avg", "min": "minmax-range",
			"max": "minmax-range", "range": "minmax-range", "cardinality": "dc-values-list", "values": "dc-values-list",
			"list": "dc-values-list", "earliest": "earliest-latest", "latest": "earliest-latest", "perc": "perc"}[measure]
		if fam == "" {
			fam = measure
		}
		fs.Add("C04/"+fam+"/"+numClass, ctx+": "+what)
	}
	num := func(key string) (float64, bool, bool) { // value, present, numeric
		o, ok := got[key]
		if !ok || o == nil {
			return 0, false, false
		}
		f, isnum := ObsFloat(o)
		if s, iss := o.(string); iss && s == "" {
			return 0, false, false
		}
		return f, true, isnum
	}
	if f, ok, isnum := num("count(*)"); want("count(*)") && (!ok || !isnum || f != float64(len(evs))) {
		bad("count", fmt.Sprintf("count=%v, want %d", got["count(*)"], len(evs)))
	}
	if f, ok, isnum := num("count(" + col + ")"); want("count("+col+")") && (!ok || !isnum || f != float64(present)) {
		bad("count-col", fmt.Sprintf("count(%s)=%v, want %d", col, got["count("+col+")"], present))
	}
	if len(nums) != present {
		return // non-numeric values in the column: numeric measures are not fixed by the statement
	}
	exp := map[string]float64{}
	if len(nums) > 0 {
		s, mn, mx := 0.0, nums[0], nums[0]
		for _, f := range nums {
			s += f
			mn = math.Min(mn, f)
			mx = math.Max(mx, f)
		}
		exp["sum("+col+")"] = s
		exp["min("+col+")"] = mn
		exp["max("+col+")"] = mx
		exp["avg("+col+")"] = s / float64(len(nums))
		exp["range("+col+")"] = mx - mn
		exp["earliest("+col+")"] = nums[0]
		exp["latest("+col+")"] = nums[len(nums)-1]
		d := map[float64]bool{}
		for _, f := range nums {
			d[f] = true
		}
		exp["cardinality("+col+")"] = float64(len(d))
	}
	numstr := false
	for _, m := range evs {
		if vs, ok := m.Cols[col]; ok && vs[0].Kind == "str" {
			numstr = true // numeric strings: only count/sum/avg are fixed (min/max/order may be textual)
		}
	}
	for _, k := range sortedKeys(exp) {
		if !want(k) {
			continue
		}
		if numstr && !(strings.HasPrefix(k, "sum(") || strings.HasPrefix(k, "avg(")) {
			continue
		}
		f, ok, isnum := num(k)
		name := k[:strings.Index(k, "(")]
		if !ok || !isnum {
			bad(name, fmt.Sprintf("%s=%v (missing/non-numeric), want %v over %v", k, got[k], exp[k], nums))
			continue
		}
		if (name == "earliest" || name == "latest") && tiesAtEnds(evs, col, name) {
			continue
		}
		if !approxEq(f, exp[k]) {
			bad(name, fmt.Sprintf("%s=%v, want %v over %v", k, got[k], exp[k], nums))
		}
	}
	if len(nums) == 0 {
		// empty aggregate: 0, null or absent are all accepted; anything else is invented
		for _, k := range []string{"sum(" + col + ")", "min(" + col + ")", "max(" + col + ")", "avg(" + col + ")"} {
			if f, ok, isnum := num(k); want(k) && ok && isnum && f != 0 {
				bad(k[:strings.Index(k, "(")], fmt.Sprintf("%s=%v over no values", k, got[k]))
			}
		}
	}
	// percentiles: between the neighbouring order statistics
	if len(nums) > 0 && !numstr {
		sorted := append([]float64{}, nums...)
		sort.Float64s(sorted)
		for _, p := range []struct {
			key string
			q   float64
		}{{"perc50(" + col + ")", 0.5}, {"perc99(" + col + ")", 0.99}} {
			if !want(p.key) {
				continue
			}
			f, ok, isnum := num(p.key)
			if !ok || !isnum {
				bad("perc", fmt.Sprintf("%s=%v missing", p.key, got[p.key]))
				continue
			}
			r := p.q * float64(len(sorted)-1)
			lo, hi := sorted[int(math.Floor(r))], sorted[int(math.Ceil(r))]
			// nearest-rank definitions may also pick the next order statistic
			if int(math.Ceil(r))+1 < len(sorted) {
				hi = math.Max(hi, sorted[int(math.Ceil(p.q*float64(len(sorted))))%len(sorted)])
			}
			if f < lo-1e-9*math.Abs(lo)-1e-12 || f > hi+1e-9*math.Abs(hi)+1e-12 {
				bad("perc", fmt.Sprintf("%s=%v outside [%v,%v] of %v", p.key, f, lo, hi, sorted))
			}
		}
	}
	// values (distinct set) and list (multiset)
	for _, k := range []string{"values(" + col + ")", "list(" + col + ")"} {
		if !want(k) {
			continue
		}
		o, ok := got[k]
		if !ok {
			bad(k[:strings.Index(k, "(")], k+" missing")
			continue
		}
		gotToks := parseListValue(o)
		want := append([]string{}, toks...)
		if strings.HasPrefix(k, "values") {
			set := map[string]bool{}
			for _, t := range toks {
				set[t] = true
			}
			want = sortedKeys(set)
		}
		if !sameNumericTokens(gotToks, want) {
			bad(k[:strings.Index(k, "(")], fmt.Sprintf("%s=%v, want %v", k, o, want))
		}
	}
}

// normKey joins group-key components; numeric components are normalised (1.500000 == 1.5).
func normKey(parts []string) string {
	out := make([]string, len(parts))
	for i, p := range parts {
		if f, err := strconv.ParseFloat(p, 64); err == nil && p != "" {
			out[i] = strconv.FormatFloat(f, 'g', -1, 64)
		} else {
			out[i] = p
		}
	}
	return strings.Join(out, "\x00")
}

func tiesAtEnds(evs []*MEvent, col, name string) bool {
	// earliest/latest are ambiguous when two events carrying the column share the extreme timestamp
	var ts []int64
	for _, m := range evs {
		if _, ok := m.Cols[col]; ok {
			ts = append(ts, m.TS)
		}
	}
	if len(ts) < 2 {
		return false
	}
	if name == "earliest" {
		return ts[0] == ts[1]
	}
	return ts[len(ts)-1] == ts[len(ts)-2]
}

func parseListValue(o interface{}) []string {
	switch x := o.(type) {
	case string:
		s := strings.TrimSpace(x)
		s = strings.TrimPrefix(s, "[")
		s = strings.TrimSuffix(s, "]")
		return strings.Fields(s)
	case []interface{}:
		var out []string
		for _, e := range x {
			out = append(out, fmt.Sprint(e))
		}
		return out
	}
	return []string{fmt.Sprint(o)}
}

func sameNumericTokens(a, b []string) bool {
	if len(a) != len(b) {
		return false
	}
	norm := func(xs []string) []string {
		out := make([]string, len(xs))
		for i, x := range xs {
			if f, err := strconv.ParseFloat(x, 64); err == nil {
				out[i] = strconv.FormatFloat(f, 'g', -1, 64)
			} else {
				out[i] = x
			}
		}
		sort.Strings(out)
		return out
	}
	na, nb := norm(a), norm(b)
	for i := range na {
		if na[i] != nb[i] {
			return false
		}
	}
	return true
}

func c04Run(w *kernel.Worker, j *c04Job, rep *kernel.Report) (*Fail, error) {
	var ds *c04Dataset
	for _, d := range c04Datasets() {
		if d.Name == j.Dataset {
			dd := d
			ds = &dd
		}
	}
	die := func(err error) (*Fail, error) {
		fp, what, herr := diedResult("C04", err)
		if herr != nil {
			return nil, herr
		}
		return &Fail{FP: fp, What: what}, nil
	}
	if err := setTun(w, "cardLimit", float64(j.Card)); err != nil {
		return die(err)
	}
	idx, err := LoadDataset(w, "c04x", ds.Events, j.Layout, rep)
	if err != nil {
		return die(err)
	}
	defer func() { _ = delIndex(w, 0, idx) }()
	var model []*MEvent
	for _, e := range ds.Events {
		m, err := Flatten(e, "timestamp")
		if err != nil {
			return nil, err
		}
		model = append(model, m)
	}
	sort.SliceStable(model, func(a, b int) bool { return model[a].TS < model[b].TS })
	end := c04S + 4*3600*1000
	mkq := func(text string) Q { return Q{Index: idx, Text: text, Start: c04S, End: end, Size: 1000} }
	type qd struct {
		kind        string // stats | timechart
		col         string
		groups      []string
		span        int64
		byG         bool
		single      string
		align       int64    // bin ... aligntime= (0: none)
		win         [2]int64 // time window of the query ([0,0]: the whole range)
		vgt         *float64 // search filter v > *vgt in front of the stats
		geq         string   // search filter g=<value> (a dictionary-encoded column) in front of the stats
		numericOnly bool     // the query holds only count/sum/min/max/avg of the column
	}
	var qs []Q
	var ds2 []qd
	cols := []string{"v", "s", "ns", "x"}
	groupBys := [][]string{nil, {"g"}, {"h"}, {"k"}, {"g", "h"}}
	for _, col := range cols {
		var ms []string
		for _, m := range c04Measures {
			ms = append(ms, fmtMeasure(m, col))
		}
		for _, gb := range groupBys {
			t := "* | stats " + strings.Join(ms, ", ")
			if len(gb) > 0 {
				t += " by " + strings.Join(gb, ", ")
			}
			qs = append(qs, mkq(t))
			ds2 = append(ds2, qd{kind: "stats", col: col, groups: gb})
		}
	}
	for _, m := range c04Measures { // single-measure queries (pre-aggregated fast paths)
		qs = append(qs, mkq("* | stats "+fmtMeasure(m, "v")))
		ds2 = append(ds2, qd{kind: "stats", col: "v", single: c04Key(m, "v")})
	}
	// the purely numeric measures alone over the other column kinds too: a query of only such measures is answered
	// from the pre-computed segment statistics where they exist
	for _, col := range []string{"s", "ns", "x"} {
		var ms []string
		for _, m := range []string{"count(%s)", "sum(%s)", "min(%s)", "max(%s)", "avg(%s)"} {
			ms = append(ms, fmtMeasure(m, col))
		}
		qs = append(qs, mkq("* | stats "+strings.Join(ms, ", ")))
		ds2 = append(ds2, qd{kind: "stats", col: col, numericOnly: true})
	}
	for _, span := range []struct {
		txt string
		ms  int64
	}{{"1s", 1000}, {"1m", 60000}, {"1h", 3600000}} {
		for _, byG := range []bool{false, true} {
			t := "* | timechart span=" + span.txt + " count, sum(v)"
			if byG {
				t = "* | timechart span=" + span.txt + " sum(v) by g"
			}
			qs = append(qs, mkq(t))
			ds2 = append(ds2, qd{kind: "timechart", col: "v", span: span.ms, byG: byG})
		}
	}
	// the bin command over the timestamp, without and with an alignment instant later than some events / earlier than all
	for _, span := range []struct {
		txt string
		ms  int64
	}{{"1s", 1000}, {"1m", 60000}, {"1h", 3600000}} {
		for _, al := range []int64{0, T0 + 250, T0 - 3600000 - 123} {
			t := "* | bin span=" + span.txt
			if al != 0 {
				t += fmt.Sprintf(" aligntime=%d", al)
			}
			t += " timestamp | stats count, sum(v) by timestamp"
			qs = append(qs, mkq(t))
			ds2 = append(ds2, qd{kind: "timechart", col: "v", span: span.ms, align: al})
		}
	}
	// a search filter in front of the stats and a time window that begins / ends at any event's timestamp (so that it
	// cuts inside blocks and segments in the multi-block layouts)
	{
		one := 1.0
		for i := range model {
			for k := i; k < len(model); k++ {
				for _, gb := range [][]string{nil, {"g"}} {
					var msV []string
					for _, m := range c04Measures {
						msV = append(msV, fmtMeasure(m, "v"))
					}
					t := "v>1 | stats " + strings.Join(msV, ", ")
					if len(gb) > 0 {
						t += " by g"
					}
					qs = append(qs, Q{Index: idx, Text: t, Start: model[i].TS, End: model[k].TS}) // no size given, as a client asking for an aggregate does
					ds2 = append(ds2, qd{kind: "stats", col: "v", groups: gb, win: [2]int64{model[i].TS, model[k].TS}, vgt: &one})
					// the same with an equality on a dictionary-encoded column as the filter
					if gv, ok := model[0].Cols["g"]; ok && gv[0].Kind == "str" {
						t2 := "g=" + gv[0].S + " | stats " + strings.Join(msV, ", ")
						if len(gb) > 0 {
							t2 += " by g"
						}
						qs = append(qs, Q{Index: idx, Text: t2, Start: model[i].TS, End: model[k].TS})
						ds2 = append(ds2, qd{kind: "stats", col: "v", groups: gb, win: [2]int64{model[i].TS, model[k].TS}, geq: gv[0].S})
					}
				}
			}
		}
	}
	rs, err := runQueries(w, qs)
	if err != nil {
		return die(err)
	}
	rep.Eval(int64(len(qs)))
	fs := &Fails{}
	nseg := 0
	for _, b := range j.Layout.Bounds {
		if b == 2 {
			nseg++
		}
	}
	for qi, r := range rs {
		d := ds2[qi]
		ctx := fmt.Sprintf("dataset=%s layout=%v card=%d query=%q", j.Dataset, j.Layout.Bounds, j.Card, qs[qi].Text)
		gclass := "nogroup"
		if len(d.groups) > 0 {
			gclass = map[string]string{"g": "by-dense", "h": "by-sparse", "k": "by-mixed", "g-h": "by-sparse"}[strings.Join(d.groups, "-")]
		}
		if d.kind == "timechart" {
			gclass = "timechart"
		}
		if r.Err != "" || len(r.Errors) > 0 {
			fs.Add("C04/query-error/"+gclass+"/"+d.col, ctx+": "+r.Err+strings.Join(r.Errors, ";"))
			continue
		}
		numClass := gclass + "/" + map[string]string{"v": "dense", "s": "sparse", "ns": "numstr", "x": "mixed"}[d.col]
		if gclass == "by-sparse" || gclass == "by-mixed" {
			numClass = gclass // grouping by a sparse / mixed-type key: one class per measure family
		}
		modelQ := model
		if d.win != [2]int64{} || d.vgt != nil || d.geq != "" {
			modelQ = nil
			for _, m := range model {
				if d.win != [2]int64{} && (m.TS < d.win[0] || m.TS > d.win[1]) { // both bounds inclusive
					continue
				}
				if d.geq != "" {
					gs, ok := m.Cols["g"]
					if !ok || !strings.EqualFold(canonText(gs[0]), d.geq) {
						continue
					}
				}
				if d.vgt != nil {
					vs, ok := m.Cols["v"]
					if !ok {
						continue
					}
					f, isNum := c04Num(vs[0])
					if !isNum || f <= *d.vgt {
						continue
					}
				}
				modelQ = append(modelQ, m)
			}
			ctx += fmt.Sprintf(" window=[T0%+d,T0%+d]", d.win[0]-T0, d.win[1]-T0)
			gclass = "window-filter-" + gclass
		}
		if d.kind == "stats" {
			// expected groups
			groups := map[string][]*MEvent{}
			for _, m := range modelQ {
				var key []string
				for _, g := range d.groups {
					if vs, ok := m.Cols[g]; ok {
						key = append(key, canonText(vs[0]))
					} else {
						key = append(key, "")
					}
				}
				groups[normKey(key)] = append(groups[normKey(key)], m)
			}
			seen := map[string]bool{}
			for _, b := range r.Measure {
				key := normKey(b.G)
				if len(d.groups) == 0 {
					key = ""
				}
				if seen[key] {
					fs.Add("C04/group-twice/"+gclass, ctx+fmt.Sprintf(": group %q appears twice", b.G))
					continue
				}
				seen[key] = true
				evs, ok := groups[key]
				if !ok && len(d.groups) == 0 && len(modelQ) == 0 {
					// stats without group-by over nothing: the single row of an empty aggregate (count 0) is legitimate
					if c, isInt := ObsInt(b.M["count(*)"]); isInt && c != 0 {
						fs.Add("C04/count/"+gclass, ctx+fmt.Sprintf(": no event matches, count(*)=%d", c))
					}
					continue
				}
				if !ok {
					fs.Add("C04/invented-group/"+gclass, ctx+fmt.Sprintf(": group %q does not occur in the data", b.G))
					continue
				}
				if d.single != "" {
					c04Compare(fs, ctx, d.col, "single", evs, b.M, d.single)
					continue
				}
				onlyKeys := ""
				if d.numericOnly {
					onlyKeys = fmt.Sprintf("count(%[1]s)|sum(%[1]s)|min(%[1]s)|max(%[1]s)|avg(%[1]s)", d.col)
				}
				c04Compare(fs, ctx, d.col, numClass, evs, b.M, onlyKeys)
				if len(groups) >= 2 || nseg >= 1 {
					rep.Nontrivial(j.Dataset + "|" + fmt.Sprint(j.Layout.Bounds) + "|" + qs[qi].Text)
				}
			}
			for key, evs := range groups {
				if seen[key] {
					continue
				}
				// the all-absent group may be omitted
				allAbsent := true
				for _, p := range strings.Split(key, "\x00") {
					if p != "" {
						allAbsent = false
					}
				}
				if allAbsent && len(d.groups) > 0 {
					continue
				}
				fs.Add("C04/missing-group/"+gclass, ctx+fmt.Sprintf(": group %q (%d events) missing from %s", strings.Split(key, "\x00"), len(evs), jstr(r.Measure)))
			}
			continue
		}
		// timechart: each bucket [K, K+span) holds exactly the events with K ≤ ts < K+span
		counted := 0
		seenB := map[int64]bool{}
		for _, b := range r.Measure {
			if len(b.G) != 1 {
				fs.Add("C04/timechart-shape", ctx+": bucket key "+fmt.Sprint(b.G))
				continue
			}
			K, err := strconv.ParseInt(b.G[0], 10, 64)
			if err != nil {
				fs.Add("C04/timechart-shape", ctx+": bucket key "+fmt.Sprint(b.G))
				continue
			}
			if d.align != 0 && ((K-d.align)%d.span+d.span)%d.span != 0 {
				fs.Add("C04/bin-not-aligned", ctx+fmt.Sprintf(": bucket %d does not start a whole number of spans (%d ms) from aligntime %d", K, d.span, d.align))
			}
			if seenB[K] {
				fs.Add("C04/timechart-bucket-twice", ctx+fmt.Sprintf(": bucket %d twice", K))
			}
			seenB[K] = true
			for K2 := range seenB {
				if K2 != K && K2 < K+d.span && K < K2+d.span {
					fs.Add("C04/timechart-overlap", ctx+fmt.Sprintf(": buckets %d and %d overlap (span %d)", K, K2, d.span))
				}
			}
			var evs []*MEvent
			for _, m := range model {
				if m.TS >= K && m.TS < K+d.span {
					evs = append(evs, m)
				}
			}
			counted += len(evs)
			if !d.byG {
				if c, ok := ObsInt(b.M["count(*)"]); !ok || c != int64(len(evs)) {
					fs.Add("C04/timechart-count", ctx+fmt.Sprintf(": bucket [%d,%d) count=%v, events with timestamp inside: %d", K, K+d.span, b.M["count(*)"], len(evs)))
				}
				s := 0.0
				for _, m := range evs {
					f, _ := c04Num(m.Cols["v"][0])
					s += f
				}
				if f, ok := ObsFloat(b.M["sum(v)"]); !ok || !approxEq(f, s) {
					fs.Add("C04/timechart-sum", ctx+fmt.Sprintf(": bucket [%d,%d) sum(v)=%v want %v", K, K+d.span, b.M["sum(v)"], s))
				}
			} else {
				sums := map[string]float64{}
				for _, m := range evs {
					f, _ := c04Num(m.Cols["v"][0])
					sums[canonText(m.Cols["g"][0])] += f
				}
				for g, s := range sums {
					f, ok := ObsFloat(b.M["sum(v): "+g])
					if !ok || !approxEq(f, s) {
						fs.Add("C04/timechart-by-sum", ctx+fmt.Sprintf(": bucket [%d,%d) group %s sum=%v want %v", K, K+d.span, g, b.M["sum(v): "+g], s))
					}
				}
				for k, v := range b.M {
					g := strings.TrimPrefix(k, "sum(v): ")
					if _, ok := sums[g]; !ok {
						if f, ok := ObsFloat(v); ok && f != 0 {
							fs.Add("C04/timechart-by-invented", ctx+fmt.Sprintf(": bucket [%d,%d) has %s=%v but no such event", K, K+d.span, k, v))
						}
					}
				}
			}
			rep.Nontrivial(j.Dataset + "|" + fmt.Sprint(j.Layout.Bounds) + "|" + qs[qi].Text)
		}
		if counted != len(model) {
			fs.Add("C04/timechart-partition", ctx+fmt.Sprintf(": %d of %d events fall in a listed bucket; buckets %s", counted, len(model), jstr(r.Measure)))
		}
	}
	// the Elasticsearch-compatible API computes its aggregations inside the segment search (not in the processor chain):
	// filter + terms aggregation with a sum, over every window
	for i := range model {
		for k := i; k < len(model); k++ {
			body := fmt.Sprintf(`{"size":0,"query":{"bool":{"filter":[{"range":{"timestamp":{"gte":%d,"lte":%d}}},{"range":{"v":{"gt":1}}}]}},"aggs":{"by":{"terms":{"field":"g"},"aggs":{"s":{"sum":{"field":"v"}}}}}}`, model[i].TS, model[k].TS)
			var hr httpRes
			if err := w.Call("call", map[string]interface{}{"handler": "esSearch", "org": 0, "method": "POST", "uri": "/elastic/" + idx + "/_search", "body": body,
				"userValues": map[string]string{"indexName": idx}}, &hr); err != nil {
				return die(err)
			}
			rep.Eval(1)
			ctx := fmt.Sprintf("dataset=%s layout=%v card=%d Elasticsearch _search: range v>1, terms aggregation on g with sum(v), window=[T0%+d,T0%+d]", j.Dataset, j.Layout.Bounds, j.Card, model[i].TS-T0, model[k].TS-T0)
			var er struct {
				Aggregations map[string]struct {
					Buckets []map[string]interface{} `json:"buckets"`
				} `json:"aggregations"`
			}
			if hr.Status != 200 || DecodeNum([]byte(hr.Body), &er) != nil {
				fs.Add("C04/es-terms-agg/error", ctx+fmt.Sprintf(": http %d %s", hr.Status, trunc(hr.Body, 200)))
				continue
			}
			wantN, wantS := map[string]int64{}, map[string]float64{}
			for _, m := range model {
				if m.TS < model[i].TS || m.TS > model[k].TS {
					continue
				}
				vs, ok := m.Cols["v"]
				if !ok {
					continue
				}
				f, isNum := c04Num(vs[0])
				gs, hasG := m.Cols["g"]
				if !isNum || f <= 1 || !hasG {
					continue
				}
				wantN[canonText(gs[0])]++
				wantS[canonText(gs[0])] += f
			}
			gotN, gotS := map[string]int64{}, map[string]float64{}
			for _, b := range er.Aggregations["by"].Buckets {
				key := ""
				if ks, ok := b["key"].([]interface{}); ok && len(ks) == 1 {
					key = fmt.Sprint(ks[0])
				} else {
					key = fmt.Sprint(b["key"])
				}
				c, _ := ObsInt(b["doc_count"])
				gotN[key] += c
				if sm, ok := b["sum(v)"].(map[string]interface{}); ok {
					f, _ := ObsFloat(sm["value"])
					gotS[key] += f
				}
			}
			for g, n := range wantN {
				if gotN[g] != n {
					fs.Add("C04/es-terms-agg/count", ctx+fmt.Sprintf(": group %s doc_count=%d, want %d (buckets %s)", g, gotN[g], n, trunc(hr.Body, 300)))
				} else if !approxEq(gotS[g], wantS[g]) {
					fs.Add("C04/es-terms-agg/sum", ctx+fmt.Sprintf(": group %s sum(v)=%v, want %v", g, gotS[g], wantS[g]))
				}
			}
			for g, n := range gotN {
				if _, ok := wantN[g]; !ok && n != 0 {
					fs.Add("C04/es-terms-agg/invented-group", ctx+fmt.Sprintf(": group %s (doc_count %d) has no event in the window", g, n))
				}
			}
		}
	}
	return fs.Result(), nil
}

func C04() int {
	rep := kernel.NewReport("C04", "exploration")
	rep.Rule = "14 measures × 4 target columns (dense, sparse, numeric-string, mixed) × 5 group-bys (none, dense, sparse, mixed-type, two keys) " +
		"in combined and single-measure form, timechart span ∈ {1s,1m,1h} with and without by, bin span ∈ {1s,1m,1h} × aligntime ∈ {none, after some events, before all} on the timestamp followed by stats by timestamp, over datasets whose timestamps sit on / 1 ms " +
		"before / after bucket edges × every segmentation (all placements of flush / rotate between events for 4-event datasets). " +
		"non-trivial = (dataset, layout, query) with ≥2 groups or ≥1 rotated segment"
	rep.Assume = []string{"numeric measures count numbers and numeric strings; columns holding other strings are only checked for count and absence of failure",
		"percentiles must lie between the neighbouring order statistics; an all-absent group may be omitted; empty aggregates may be 0/null/absent"}
	d := &Driver[c04Job]{Rep: rep, Pool: logPool(),
		Budget: kernel.NewBudget(map[string]time.Duration{"quick": 150 * time.Second, "thorough": 30 * time.Minute}[rep.Tier]),
		Enumerate: func(emit func(c04Job)) {
			cards := []int{2, 501}
			if rep.Tier == "thorough" {
				cards = []int{0, 2, 501}
			}
			for _, ds := range c04Datasets() {
				lays := AllLayouts(len(ds.Events))
				if len(ds.Events) > 4 {
					lays = StdLayouts(len(ds.Events))
					if rep.Tier == "thorough" {
						lays = AllLayouts(len(ds.Events))
					}
				}
				for _, l := range lays {
					for _, c := range cards {
						emit(c04Job{Dataset: ds.Name, Layout: l, Card: c})
					}
				}
			}
		},
		Run:        c04Run,
		Key:        func(j *c04Job) string { return fmt.Sprintf("%s|%v|%d", j.Dataset, j.Layout.Bounds, j.Card) },
		Nontrivial: func(j *c04Job) bool { return false },
	}
	d.Drive()
	return rep.Finish()
}

func init() {
	Registry["C04"] = C04
	Replayers["C04"] = MakeReplayer[c04Job]("C04", "exploration", logPool, c04Run)
}
