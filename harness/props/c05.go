package props

import (
	"encoding/json"
	"fmt"
	"sort"
	"strconv"
	"strings"
	"time"

	"verif/harness/kernel"
)

// C05 — result order, limits and pagination. seqx: all timestamp assignments × layouts × limits/pages;
// sort specifications × value distributions × layouts.

type c05Job struct {
	Kind     string   `json:"kind"` // time | sort
	TS       []int64  `json:"ts,omitempty"`
	Vals     []string `json:"vals,omitempty"` // JSON fragments for column a
	Bs       []string `json:"bs,omitempty"`
	Layout   Layout   `json:"layout"`
	Procs    int      `json:"gomaxprocs"`
	ValClass string   `json:"valClass,omitempty"`
	// SortCols: columns for which the index keeps a sort index (set before ingest): sorts on them are served from the
	// per-segment sort index files of rotated segments
	SortCols []string `json:"sortCols,omitempty"`
}

func (j *c05Job) events() []string {
	var evs []string
	if j.Kind == "time" {
		for i, t := range j.TS {
			evs = append(evs, c01Event(i, T0+t, fmt.Sprintf(`"a":%d`, i)))
		}
		return evs
	}
	for i, v := range j.Vals {
		evs = append(evs, c01Event(i, T0+int64(i%3), joinMembers(member("a", v), member("b", j.Bs[i]))))
	}
	return evs
}

type sortKey struct {
	col  string
	desc bool
	mode string // auto | num | str
}

type c05Sort struct {
	Text string
	Keys []sortKey
	Head int
	// FilterB: the search clause in front of the sort is b=<FilterB> instead of * (with a sort index the searcher then
	// intersects the matched records with the sort index lines)
	FilterB string
}

var c05Sorts = []c05Sort{
	{"sort a", []sortKey{{"a", false, "auto"}}, 0, ""},
	{"sort -a", []sortKey{{"a", true, "auto"}}, 0, ""},
	{"sort num(a)", []sortKey{{"a", false, "num"}}, 0, ""},
	{"sort -num(a)", []sortKey{{"a", true, "num"}}, 0, ""},
	{"sort str(a)", []sortKey{{"a", false, "str"}}, 0, ""},
	{"sort b, -a", []sortKey{{"b", false, "auto"}, {"a", true, "auto"}}, 0, ""},
	{"sort -b, a", []sortKey{{"b", true, "auto"}, {"a", false, "auto"}}, 0, ""},
	{"sort -a | head 2", []sortKey{{"a", true, "auto"}}, 2, ""},
	{"sort a | head 3", []sortKey{{"a", false, "auto"}}, 3, ""},
	// limits inside the sort command; with two keys the cut may fall inside a group of equal first keys
	{"sort 2 b, -a", []sortKey{{"b", false, "auto"}, {"a", true, "auto"}}, 2, ""},
	{"sort 3 b, a", []sortKey{{"b", false, "auto"}, {"a", false, "auto"}}, 3, ""},
	{"sort 3 -b, a", []sortKey{{"b", true, "auto"}, {"a", false, "auto"}}, 3, ""},
	{"sort 1 a", []sortKey{{"a", false, "auto"}}, 1, ""},
	// a filter in front of the sort
	{"sort -a", []sortKey{{"a", true, "auto"}}, 0, "1"}, {"sort a", []sortKey{{"a", false, "auto"}}, 0, "2"},
	{"sort b, -a", []sortKey{{"b", false, "auto"}, {"a", true, "auto"}}, 0, "1"}, {"sort 2 a", []sortKey{{"a", false, "auto"}}, 2, "1"},
}

// cmpKey compares two model values under one key. ok=false: the pair's relative order is not fixed
// (different kinds, absent values, or textual mode on numbers).
func cmpKey(k sortKey, x, y *MEvent) (c int, ok bool) {
	xv, xo := x.Cols[k.col]
	yv, yo := y.Cols[k.col]
	if !xo || !yo {
		return 0, false
	}
	a, b := xv[0], yv[0]
	num := func(v MVal) (float64, bool) {
		if v.IsNum() {
			return v.Float(), true
		}
		return 0, false
	}
	switch k.mode {
	case "auto", "num":
		fa, oka := num(a)
		fb, okb := num(b)
		if oka && okb {
			c = 0
			if fa < fb {
				c = -1
			} else if fa > fb {
				c = 1
			}
		} else if k.mode == "auto" && a.Kind == "str" && b.Kind == "str" && !isNumText(a.S) && !isNumText(b.S) {
			c = strings.Compare(a.S, b.S)
		} else {
			return 0, false
		}
	case "str":
		if a.Kind == "str" && b.Kind == "str" {
			c = strings.Compare(a.S, b.S)
		} else {
			return 0, false
		}
	}
	if k.desc {
		c = -c
	}
	return c, true
}

func isNumText(s string) bool { _, err := strconv.ParseFloat(s, 64); return err == nil }

// cmpKeys: lexicographic over the key list; undefined as soon as a deciding key is undefined.
func cmpKeys(keys []sortKey, x, y *MEvent) (int, bool) {
	for _, k := range keys {
		c, ok := cmpKey(k, x, y)
		if !ok {
			return 0, false
		}
		if c != 0 {
			return c, true
		}
	}
	return 0, true
}

func c05Run(w *kernel.Worker, j *c05Job, rep *kernel.Report) (*Fail, error) {
	die := func(err error) (*Fail, error) {
		fp, what, herr := diedResult("C05", err)
		if herr != nil {
			return nil, herr
		}
		return &Fail{FP: fp, What: what}, nil
	}
	if err := setTun(w, "gomaxprocs", float64(j.Procs)); err != nil {
		return die(err)
	}
	evs := j.events()
	idx, err := LoadDatasetWith(w, "c05x", evs, j.Layout, rep, func(idx string) error {
		if len(j.SortCols) == 0 {
			return nil
		}
		return w.Call("sortcols", map[string]interface{}{"index": idx, "columns": j.SortCols}, nil)
	})
	if err != nil {
		return die(err)
	}
	if len(j.SortCols) > 0 {
		if err := w.Call("waitsortindex", nil, nil); err != nil {
			return die(err)
		}
	}
	defer func() { _ = delIndex(w, 0, idx) }()
	model := map[string]*MEvent{}
	var mlist []*MEvent
	for i, e := range evs {
		m, err := Flatten(e, "timestamp")
		if err != nil {
			return nil, err
		}
		model[fmt.Sprintf("e%d", i)] = m
		mlist = append(mlist, m)
	}
	n := len(evs)
	mk := func(text string, size, from int) Q {
		return Q{Index: idx, Text: text, Start: T0 - 10, End: T0 + 1000, Size: size, From: from}
	}
	fs := &Fails{}
	ctxOf := func(q Q) string {
		sc := ""
		if len(j.SortCols) > 0 {
			sc = fmt.Sprintf(" sort-index-on=%v", j.SortCols)
		}
		return fmt.Sprintf("events=%v layout=%v procs=%d%s query=%q size=%d from=%d", evs, j.Layout.Bounds, j.Procs, sc, q.Text, q.Size, q.From)
	}
	ids := func(r *QRes) []string {
		var out []string
		for _, rec := range r.Records {
			id, _ := rec["id"].(string)
			out = append(out, id)
		}
		return out
	}
	overlap := false
	{ // do block/segment time ranges overlap, or ties exist?
		seen := map[int64]bool{}
		for _, m := range mlist {
			if seen[m.TS] {
				overlap = true
			}
			seen[m.TS] = true
		}
		for i := 1; i < len(mlist); i++ {
			if mlist[i].TS < mlist[i-1].TS {
				overlap = true
			}
		}
	}
	if j.Kind == "time" {
		var qs []Q
		for _, sz := range []int{1, 2, 3, 10} {
			qs = append(qs, mk("*", sz, 0))
		}
		for _, h := range []int{1, 2, 3} {
			qs = append(qs, mk(fmt.Sprintf("* | head %d", h), 100, 0))
		}
		type page struct{ k, from int }
		var pages []page
		for _, k := range []int{1, 2, 3} {
			for from := 0; from < n+k; from += k {
				pages = append(pages, page{k, from})
				qs = append(qs, mk("*", k, from))
			}
		}
		rs, err := runQueries(w, qs)
		if err != nil {
			return die(err)
		}
		rep.Eval(int64(len(qs)))
		sortedTS := []int64{}
		for _, m := range mlist {
			sortedTS = append(sortedTS, m.TS)
		}
		sort.Slice(sortedTS, func(a, b int) bool { return sortedTS[a] > sortedTS[b] })
		checkNewest := func(q Q, r *QRes, limit int, what string) {
			if r.Err != "" || len(r.Errors) > 0 {
				fs.Add("C05/query-error/"+what, ctxOf(q)+": "+r.Err+strings.Join(r.Errors, ";"))
				return
			}
			got := ids(r)
			want := limit
			if want > n {
				want = n
			}
			if len(got) != want {
				fs.Add("C05/limit-count/"+what, ctxOf(q)+fmt.Sprintf(": %d records, want %d: %v", len(got), want, got))
				return
			}
			seen := map[string]bool{}
			for i, id := range got {
				m, ok := model[id]
				if !ok || seen[id] {
					fs.Add("C05/dup-or-invented/"+what, ctxOf(q)+fmt.Sprintf(": %v", got))
					return
				}
				seen[id] = true
				if i > 0 && model[got[i-1]].TS < m.TS {
					fs.Add("C05/newest-first/"+what, ctxOf(q)+fmt.Sprintf(": %s (ts %d) listed before %s (ts %d): %v", got[i-1], model[got[i-1]].TS-T0, id, m.TS-T0, got))
					return
				}
				if m.TS != sortedTS[i] {
					fs.Add("C05/n-newest/"+what, ctxOf(q)+fmt.Sprintf(": position %d has ts %d, the %d newest are %v; got %v", i, m.TS-T0, want, sortedTS[:want], got))
					return
				}
			}
		}
		qi := 0
		for _, sz := range []int{1, 2, 3, 10} {
			checkNewest(qs[qi], rs[qi], sz, "size")
			qi++
		}
		for _, h := range []int{1, 2, 3} {
			checkNewest(qs[qi], rs[qi], h, "head")
			qi++
		}
		// paging: every match exactly once; concatenation in newest-first order
		byK := map[int][]string{}
		for _, p := range pages {
			r := rs[qi]
			q := qs[qi]
			qi++
			if r.Err != "" || len(r.Errors) > 0 {
				fs.Add("C05/query-error/page", ctxOf(q)+": "+r.Err+strings.Join(r.Errors, ";"))
				continue
			}
			got := ids(r)
			if len(got) > p.k {
				fs.Add("C05/page-size", ctxOf(q)+fmt.Sprintf(": %d records in a page of %d", len(got), p.k))
			}
			byK[p.k] = append(byK[p.k], got...)
		}
		for _, k := range []int{1, 2, 3} {
			all := byK[k]
			cnt := map[string]int{}
			for _, id := range all {
				cnt[id]++
			}
			okAll := len(all) == n
			for id := range model {
				if cnt[id] != 1 {
					okAll = false
				}
			}
			if !okAll {
				cls := "distinct-timestamps"
				tsSeen := map[int64]bool{}
				for _, m := range mlist {
					if tsSeen[m.TS] {
						cls = "timestamp-ties"
					}
					tsSeen[m.TS] = true
				}
				fs.Add("C05/paging-exactly-once/"+cls, fmt.Sprintf("events=%v layout=%v procs=%d page size %d: pages concatenate to %v (want each of %d events once)", evs, j.Layout.Bounds, j.Procs, k, all, n))
				continue
			}
			for i := 1; i < len(all); i++ {
				if model[all[i-1]].TS < model[all[i]].TS {
					fs.Add("C05/paging-order", fmt.Sprintf("events=%v layout=%v procs=%d page size %d: concatenated pages not newest-first: %v", evs, j.Layout.Bounds, j.Procs, k, all))
					break
				}
			}
		}
		if overlap {
			rep.Nontrivial(fmt.Sprintf("time|%v|%v|%d", j.TS, j.Layout.Bounds, j.Procs))
		}
		return fs.Result(), nil
	}
	// sort part
	var qs []Q
	for _, s := range c05Sorts {
		if s.FilterB != "" {
			qs = append(qs, mk("b="+s.FilterB+" | "+s.Text, 100, 0))
		} else {
			qs = append(qs, mk("* | "+s.Text, 100, 0))
		}
	}
	// paging under sort a: pages of 2
	pageStart := len(qs)
	for from := 0; from < n+2; from += 2 {
		qs = append(qs, mk("* | sort a", 2, from))
	}
	rs, err := runQueries(w, qs)
	if err != nil {
		return die(err)
	}
	rep.Eval(int64(len(qs)))
	checkOrder := func(q Q, got []string, keys []sortKey, what string) bool {
		for a := 0; a < len(got); a++ {
			for b := a + 1; b < len(got); b++ {
				c, ok := cmpKeys(keys, model[got[a]], model[got[b]])
				if ok && c > 0 {
					fs.Add("C05/sort-order/"+what+"/"+j.ValClass, ctxOf(q)+fmt.Sprintf(": %s (%s) listed before %s (%s) — out of order; got %v", got[a], model[got[a]].Raw, got[b], model[got[b]].Raw, got))
					return false
				}
			}
		}
		return true
	}
	for si, s := range c05Sorts {
		r, q := rs[si], qs[si]
		what := strings.ReplaceAll(strings.SplitN(s.Text, " |", 2)[0], " ", "_")
		if r.Err != "" || len(r.Errors) > 0 {
			fs.Add("C05/query-error/"+what, ctxOf(q)+": "+r.Err+strings.Join(r.Errors, ";"))
			continue
		}
		got := ids(r)
		pop := model // the events the search clause selects
		if s.FilterB != "" {
			what += "_after_filter"
			fb, _ := strconv.ParseFloat(s.FilterB, 64)
			pop = map[string]*MEvent{}
			for id, m := range model {
				if vs, ok := m.Cols["b"]; ok && vs[0].IsNum() && vs[0].Float() == fb {
					pop[id] = m
				}
			}
		}
		want := len(pop)
		if s.Head > 0 && s.Head < want {
			want = s.Head
		}
		seen := map[string]bool{}
		bad := false
		for _, id := range got {
			if _, ok := pop[id]; !ok || seen[id] {
				bad = true
			}
			seen[id] = true
		}
		if bad || len(got) != want {
			fs.Add("C05/sort-count/"+what, ctxOf(q)+fmt.Sprintf(": got %v, want %d distinct events", got, want))
			continue
		}
		if !checkOrder(q, got, s.Keys, what) {
			continue
		}
		if s.Head > 0 {
			// limit = prefix of the order: no omitted event may sort strictly before a returned one
			for id, m := range pop {
				if seen[id] {
					continue
				}
				for _, g := range got {
					if c, ok := cmpKeys(s.Keys, m, model[g]); ok && c < 0 {
						fs.Add("C05/sort-limit-prefix/"+what+"/"+j.ValClass, ctxOf(q)+fmt.Sprintf(": %s (%s) sorts before returned %s (%s) but was cut off; got %v", id, m.Raw, g, model[g].Raw, got))
					}
				}
			}
		}
		rep.Nontrivial(fmt.Sprintf("sort|%v|%v|%s", j.Vals, j.Layout.Bounds, s.Text))
	}
	var all []string
	for qi := pageStart; qi < len(qs); qi++ {
		if rs[qi].Err != "" {
			fs.Add("C05/query-error/sort-page", ctxOf(qs[qi])+": "+rs[qi].Err)
			continue
		}
		all = append(all, ids(rs[qi])...)
	}
	cnt := map[string]int{}
	for _, id := range all {
		cnt[id]++
	}
	okAll := len(all) == n
	for id := range model {
		if cnt[id] != 1 {
			okAll = false
		}
	}
	if !okAll {
		cls := j.ValClass
		for a := 0; a < len(mlist); a++ {
			for b := a + 1; b < len(mlist); b++ {
				if c, ok := cmpKeys(c05Sorts[0].Keys, mlist[a], mlist[b]); !ok || c == 0 {
					cls = "key-ties" // two events tie (or are unordered) under the sort key
				}
			}
		}
		fs.Add("C05/sort-paging-exactly-once/"+cls, fmt.Sprintf("events=%v layout=%v: pages of 2 under `sort a` concatenate to %v", evs, j.Layout.Bounds, all))
	} else {
		checkOrder(mk("* | sort a (pages of 2)", 2, 0), all, c05Sorts[0].Keys, "sort_a_paged")
	}
	return fs.Result(), nil
}

type c05ValSet struct {
	Class string
	Vals  []string
	Bs    []string
}

func c05ValSets(tier string) []c05ValSet {
	vs := []c05ValSet{
		{"ints", []string{"3", "1", "2", "10", "-5"}, []string{"1", "2", "1", "2", "1"}},
		{"close-floats", []string{"1.00002", "1.00001", "1.00003", "1", "0.99999"}, []string{"1", "1", "2", "2", "1"}},
		{"floats", []string{"2.5", "-1.5", "100.25", "0", "2"}, []string{"2", "1", "2", "1", "2"}},
		{"strings", []string{`"pear"`, `"apple"`, `"fig"`, `"zoo"`, `"kiwi"`}, []string{"1", "1", "1", "2", "2"}},
		{"sparse-ints", []string{"3", "", "1", "", "2"}, []string{"1", "2", "", "1", "2"}},
		{"num-and-text", []string{"3", `"apple"`, "1", `"fig"`, "2"}, []string{"1", "1", "2", "2", "1"}},
		{"ties", []string{"2", "1", "2", "1", "2"}, []string{"2", "2", "1", "1", "3"}},
	}
	if tier == "thorough" {
		vs = append(vs, c05ValSet{"big", []string{"9007199254740993", "9007199254740992", "1e15", "-9007199254740993", "5"}, []string{"1", "1", "1", "1", "1"}},
			c05ValSet{"numstr", []string{`"10"`, `"9"`, `"100"`, `"1"`, `"2"`}, []string{"1", "2", "1", "2", "1"}})
	}
	return vs
}

func C05() int {
	rep := kernel.NewReport("C05", "model_checking")
	rep.Rule = "time part: all 3^4 assignments of timestamps {T0,T0+1,T0+2} to 4 events (ties, out-of-order arrival) × layouts × GOMAXPROCS {1,2}; " +
		"queries * with size 1,2,3,10, head 1..3, and paging with page sizes 1,2,3 over the whole result. sort part: value sets (ints, floats closer " +
		"than 1e-4, strings, sparse, numbers+text, ties) × layouts × 17 sort specifications (auto/num/str, asc/desc, two keys, sort|head, limits inside sort with one and two keys, a filter b=<value> in front of the sort) " +
		"× sort index configured for the index {none, [b], [a b]} (rotated segments then carry sort index files and sorts on those columns are served from them) + paging under sort. " +
		"Oracle: ordermodel on every pair of results whose relative order the requested keys determine. paging processors: head(from+size) → scroller(from) over tables of ≤ n rows × " +
		"every composition into batches × every (from, size): page == rows[from:from+size]. non-trivial = time case with ties or " +
		"out-of-order arrival (overlapping block/segment ranges); every sort case"
	rep.Assume = []string{"the relative order of values of different kinds (number vs text vs absent) is not asserted", "ties are free"}
	d := &Driver[c05Job]{Rep: rep, Pool: logPool(),
		Budget: kernel.NewBudget(map[string]time.Duration{"quick": 150 * time.Second, "thorough": 30 * time.Minute}[rep.Tier]),
		Enumerate: func(emit func(c05Job)) {
			var lays []Layout
			if rep.Tier == "thorough" {
				lays = AllLayouts(4)
			} else {
				lays = append(StdLayouts(4), Layout{"r-r-r-r", []int{2, 2, 2, 2}}, Layout{"f-r-f-f", []int{1, 2, 1, 1}})
			}
			for a := int64(0); a < 3; a++ {
				for b := int64(0); b < 3; b++ {
					for c := int64(0); c < 3; c++ {
						for dd := int64(0); dd < 3; dd++ {
							for _, l := range lays {
								for _, p := range []int{1, 2} {
									emit(c05Job{Kind: "time", TS: []int64{a, b, c, dd}, Layout: l, Procs: p})
								}
							}
						}
					}
				}
			}
			lays5 := StdLayouts(5)
			if rep.Tier == "thorough" {
				lays5 = AllLayouts(5)
			}
			for _, vs := range c05ValSets(rep.Tier) {
				for _, l := range lays5 {
					for _, p := range []int{1, 2} {
						emit(c05Job{Kind: "sort", Vals: vs.Vals, Bs: vs.Bs, Layout: l, Procs: p, ValClass: vs.Class})
						emit(c05Job{Kind: "sort", Vals: vs.Vals, Bs: vs.Bs, Layout: l, Procs: p, ValClass: vs.Class, SortCols: []string{"b"}})
						emit(c05Job{Kind: "sort", Vals: vs.Vals, Bs: vs.Bs, Layout: l, Procs: p, ValClass: vs.Class, SortCols: []string{"a", "b"}})
					}
				}
			}
		},
		Run: c05Run,
		Key: func(j *c05Job) string {
			return fmt.Sprintf("%s|%v|%v|%v|%d|%v", j.Kind, j.TS, j.Vals, j.Layout.Bounds, j.Procs, j.SortCols)
		},
		Nontrivial: func(j *c05Job) bool { return false },
	}
	d.Drive()
	c05Scroll(rep, d.Budget)
	return rep.Finish()
}

func init() {
	Registry["C05"] = C05
	Replayers["C05"] = func(doc json.RawMessage) int {
		var probe struct {
			Batches []int `json:"batches"`
		}
		_ = json.Unmarshal(doc, &probe)
		if len(probe.Batches) > 0 {
			return MakeReplayer[c05ScrollJob]("C05", "model_checking", logPool, c05ScrollRun)(doc)
		}
		return MakeReplayer[c05Job]("C05", "model_checking", logPool, c05Run)(doc)
	}
}
