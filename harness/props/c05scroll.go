package props

import (
	"fmt"

	"verif/harness/kernel"
)

// C05 part S — paging through the processors that serve a paged request (head(from+size) → scroller(from), the pair
// newQueryProcessorHelper appends): for every table of n rows, every way the rows arrive in successive batches, and
// every (from, size): the page is exactly rows[from : from+size] of the full result.

type c05ScrollJob struct {
	Rows    int   `json:"rows"`
	Batches []int `json:"batches"` // sizes of the successive batches
}

func c05ScrollRun(w *kernel.Worker, j *c05ScrollJob, rep *kernel.Report) (*Fail, error) {
	die := func(err error) (*Fail, error) {
		fp, what, herr := diedResult("C05", err)
		if herr != nil {
			return nil, herr
		}
		return &Fail{FP: fp + "/scroll", What: what}, nil
	}
	var table []map[string]interface{}
	for i := 0; i < j.Rows; i++ {
		table = append(table, map[string]interface{}{"a": i % 2, "b": i + 1, "m": fmt.Sprintf("r%d", i)})
	}
	var batches [][]map[string]interface{}
	pos := 0
	for _, sz := range j.Batches {
		batches = append(batches, table[pos:pos+sz])
		pos += sz
	}
	fs := &Fails{}
	for from := 0; from <= j.Rows; from++ {
		for size := 1; size <= 3; size++ {
			var r pipeRes
			if err := w.Call("pipeline", map[string]interface{}{"query": "* | where b>0", "cols": []string{"a", "b", "m"}, "batches": batches, "scrollFrom": from, "scrollSize": size}, &r); err != nil {
				return die(err)
			}
			rep.Eval(1)
			if r.ParseErr != "" || r.RunErr != "" {
				return &Fail{FP: "C05/scroll/error", What: fmt.Sprintf("%d rows in batches %v, from=%d size=%d: %s%s", j.Rows, j.Batches, from, size, r.ParseErr, r.RunErr)}, nil
			}
			var got, want []string
			for _, row := range r.Rows {
				got = append(got, fmt.Sprint(row["m"]))
			}
			for i := from; i < from+size && i < j.Rows; i++ {
				want = append(want, fmt.Sprintf("r%d", i))
			}
			if fmt.Sprint(got) != fmt.Sprint(want) {
				cls := "rows-missing"
				if len(got) > len(want) {
					cls = "rows-extra"
				} else if len(got) == len(want) {
					cls = "wrong-rows"
				}
				fs.Add("C05/scroll/"+cls, fmt.Sprintf("%d rows (r0..r%d) arriving in batches of %v, page from=%d size=%d: returned %v, the page is %v", j.Rows, j.Rows-1, j.Batches, from, size, got, want))
			}
		}
	}
	return fs.Result(), nil
}

func c05Scroll(rep *kernel.Report, budget *kernel.Budget) {
	maxRows := 5
	if rep.Tier == "thorough" {
		maxRows = 7
	}
	d := &Driver[c05ScrollJob]{Rep: rep, Pool: logPool(), Budget: budget,
		Enumerate: func(emit func(c05ScrollJob)) {
			for n := 1; n <= maxRows; n++ {
				for _, comp := range compositions(n) {
					emit(c05ScrollJob{Rows: n, Batches: comp})
				}
			}
		},
		Run:        c05ScrollRun,
		Key:        func(j *c05ScrollJob) string { return fmt.Sprintf("scroll|%d|%v", j.Rows, j.Batches) },
		Nontrivial: func(j *c05ScrollJob) bool { return len(j.Batches) >= 2 },
	}
	d.Drive()
}
