package props

import (
	"fmt"
	"sort"
	"strings"
	"time"

	"verif/harness/kernel"
)

// C06 — pipeline commands mean the same however the stream is chunked. seqx without storage: command chains ×
// tables × every composition of the rows into successive batches (with empty batches and both EOF conventions)
// × partitions over two upstream streams. Oracle: output(batching) == output(single batch).

type c06Cmd struct {
	Text     string
	Order    string // keep = preserves input order; set = output order undefined (compare as multiset); sorts = defines order by unique key
	Stateful bool   // keeps cross-batch state
}

var c06Cmds = []c06Cmd{
	{"where a>1", "keep", false}, {"eval c=a+1", "keep", false}, {`eval d=if(a>1,"hi","lo")`, "keep", false},
	{"fields a, b", "keep", false}, {"fields - m", "keep", false}, {"rename a as z", "keep", false},
	{"fillnull value=0 a", "keep", false}, {`rex field=m "(?<w>\w+)"`, "keep", false}, {`regex m="^x"`, "keep", false},
	{"dedup a", "keep", true}, {"dedup 2 a", "keep", true}, {"dedup a sortby -b", "keep", true},
	{"head 2", "keep", true}, {"head 3", "keep", true}, {"tail 2", "keep", true},
	{"sort -b", "sorts", true}, {"sort b", "sorts", true},
	{"top 1 a", "set", true}, {"rare a", "set", true}, {"bin span=2 b", "keep", false},
	{"streamstats count", "keep", true}, {"streamstats window=2 sum(b) as sb", "keep", true},
	{`makemv delim="," m`, "keep", false}, {"mvexpand m", "keep", false},
	{"stats count by a", "set", true}, {"stats sum(b), count", "set", true}, {"stats count, max(b) by m", "set", true},
	// option variants of the stateful commands (a limit with a condition, limits on sort, two-pass forms, per-group state)
	{"head limit=2 (b>0)", "keep", true}, {"head (a<3) keeplast=true", "keep", true}, {"tail 1", "keep", true},
	{"sort 2 -b", "sorts", true}, {"dedup a keepempty=true", "keep", true}, {"dedup a consecutive=true", "keep", true},
	{"fillnull", "keep", true}, {"bin b", "keep", true}, {"eventstats sum(b) as tb", "keep", true}, {"eventstats count as n by a", "keep", true},
	{"streamstats sum(b) as rb by a", "keep", true}, {"streamstats current=f count as pc", "keep", true},
	{"stats dc(a), values(m)", "set", true}, {"stats first(b), last(b)", "set", true},
}

type c06Job struct {
	Chain   []string                 `json:"chain"`
	Table   []map[string]interface{} `json:"table"`
	NStream int                      `json:"streams"`
	// Parallel k > 1: the chains are built by the real SetupQueryParallelism for k processors; the rows are distributed
	// over the k chains in every possible way (each batch of the searcher goes to exactly one chain in production)
	Parallel int `json:"parallel,omitempty"`
}

var c06RowAlphabet = []map[string]interface{}{
	{"a": 1, "m": "x,y"}, {"a": 2, "m": "z"}, {"a": 2, "m": "x,y"}, {"m": "z"}, {"a": 3, "m": "q"}, {"a": 1},
}

func c06Tables(maxLen int) [][]map[string]interface{} {
	var out [][]map[string]interface{}
	var rec func(cur []int)
	rec = func(cur []int) {
		if len(cur) > 0 {
			var t []map[string]interface{}
			for i, k := range cur {
				r := map[string]interface{}{"b": i + 1} // b = unique, increasing with input position
				for c, v := range c06RowAlphabet[k] {
					r[c] = v
				}
				t = append(t, r)
			}
			out = append(out, t)
		}
		if len(cur) == maxLen {
			return
		}
		for k := range c06RowAlphabet {
			rec(append(append([]int{}, cur...), k))
		}
	}
	rec(nil)
	return out
}

// compositions of n into ordered positive parts
func compositions(n int) [][]int {
	if n == 0 {
		return [][]int{{}}
	}
	var out [][]int
	for first := 1; first <= n; first++ {
		for _, rest := range compositions(n - first) {
			out = append(out, append([]int{first}, rest...))
		}
	}
	return out
}

type pipeRes struct {
	Rows     []map[string]interface{} `json:"rows"`
	Measure  []QBucket                `json:"measure"`
	ParseErr string                   `json:"parseErr"`
	RunErr   string                   `json:"runErr"`
	Chains   int                      `json:"chains"`
}

func (p *pipeRes) canon(ordered bool) string {
	if p.ParseErr != "" {
		return "PARSE-ERR"
	}
	if p.RunErr != "" {
		return "RUN-ERR" // the message carries qids and batch sizes
	}
	var rows []string
	for _, r := range p.Rows {
		var parts []string
		for _, k := range sortedKeys(r) {
			if r[k] == nil {
				continue
			}
			parts = append(parts, k+"="+normNum(r[k]))
		}
		rows = append(rows, strings.Join(parts, ","))
	}
	if !ordered {
		sort.Strings(rows)
	}
	var bs []string
	for _, b := range p.Measure {
		var parts []string
		for _, k := range sortedKeys(b.M) {
			parts = append(parts, k+"="+normNum(b.M[k]))
		}
		bs = append(bs, strings.Join(b.G, "/")+"{"+strings.Join(parts, ",")+"}")
	}
	sort.Strings(bs)
	return "R[" + strings.Join(rows, " | ") + "]M[" + strings.Join(bs, " | ") + "]"
}

func c06Find(text string) *c06Cmd {
	for i := range c06Cmds {
		if c06Cmds[i].Text == text {
			return &c06Cmds[i]
		}
	}
	return nil
}

func c06Run(w *kernel.Worker, j *c06Job, rep *kernel.Report) (*Fail, error) {
	die := func(err error) (*Fail, error) {
		fp, what, herr := diedResult("C06", err)
		if herr != nil {
			return nil, herr
		}
		// A crash inside the storage-less harness is not attributable: the same chains run end to end (C17b) do not crash,
		// because the real searcher hands over RRC-backed batches. Counted, never reported.
		_ = fp
		_ = what
		rep.Add("inconclusive_harness_crashes", 1)
		return nil, nil
	}
	query := "* | " + strings.Join(j.Chain, " | ")
	cols := []string{"a", "b", "m"}
	ordered := true
	for _, c := range j.Chain {
		if c06Find(c).Order == "set" {
			ordered = false
		}
	}
	n := len(j.Table)
	sparseCols := false
	call := func(batches [][]map[string]interface{}, streams [][][]map[string]interface{}, eofWith bool) (*pipeRes, error) {
		var r pipeRes
		args := map[string]interface{}{"query": query, "cols": cols, "batches": batches, "eofWithData": eofWith, "sparseBatchCols": sparseCols}
		if streams != nil {
			args["streams"] = streams
		}
		err := w.Call("pipeline", args, &r)
		rep.Eval(1)
		return &r, err
	}
	ref, err := call([][]map[string]interface{}{j.Table}, nil, false)
	if err != nil {
		return die(err)
	}
	if ref.ParseErr != "" {
		rep.Add("chains_not_buildable_without_storage", 1)
		return nil, nil
	}
	want := ref.canon(ordered)
	fs := &Fails{}
	stateful := false
	for _, c := range j.Chain {
		if c06Find(c).Stateful {
			stateful = true
		}
	}
	cls := strings.Join(c06Names(j.Chain), "+")
	if strings.Contains(query, "streamstats window=") {
		cls = "streamstats-window" // one root cause: the window is not carried across batches
	}
	if j.Parallel > 1 {
		// order: defined by the merger when the chain starts with a sort; otherwise the interleaving of the chains'
		// outputs is arbitrary, so only chains of order-insensitive commands are compared (as multisets)
		sorted := c06Find(j.Chain[0]).Order == "sorts"
		if !sorted {
			for _, c := range j.Chain {
				f := strings.Fields(c)[0]
				if f == "head" || f == "tail" || f == "streamstats" || f == "dedup" || f == "sort" || strings.Contains(c, "first(") {
					return nil, nil
				}
			}
			ordered = false
			want = ref.canon(false)
		}
		for mask := 0; mask < 1<<n; mask++ {
			parts := make([][]map[string]interface{}, j.Parallel)
			ok := true
			for i := range j.Table {
				k := 0
				if mask&(1<<i) != 0 {
					k = 1
				}
				if j.Parallel > 2 && i%3 == 2 && mask&(1<<i) != 0 {
					k = 2
				}
				parts[k] = append(parts[k], j.Table[i])
			}
			for variant := 0; variant < 2 && ok; variant++ {
				// variant 0: every chain receives its rows as one batch; 1: one row per batch
				streams := make([][][]map[string]interface{}, j.Parallel)
				for k, rows := range parts {
					if variant == 0 {
						if len(rows) > 0 {
							streams[k] = [][]map[string]interface{}{rows}
						}
					} else {
						for _, r := range rows {
							streams[k] = append(streams[k], []map[string]interface{}{r})
						}
					}
				}
				var got pipeRes
				err := w.Call("pipeline", map[string]interface{}{"query": query, "cols": cols, "streams": streams, "parallel": j.Parallel}, &got)
				rep.Eval(1)
				if err != nil {
					return die(err)
				}
				if got.Chains <= 1 && got.ParseErr == "" && got.RunErr == "" {
					rep.Add("chains_not_parallelised", 1)
					return nil, nil
				}
				if g := got.canon(ordered); g != want {
					pcls := cls
					if len(j.Chain) == 2 && strings.HasPrefix(j.Chain[0], "sort") && (j.Chain[1] == "fillnull" || j.Chain[1] == "bin b") {
						pcls = "sort+two-pass-command" // one root cause: the rewind for the second pass finds the sorters' results consumed
					}
					fp := "C06/parallel/" + pcls
					if cls == "streamstats-window" {
						fp = "C06/batching/streamstats-window" // same root cause as under batching: the window is not carried over
					} else {
						spread := 0
						for _, rows := range parts {
							if len(rows) > 0 {
								spread++
							}
						}
						if spread <= 1 {
							fp += "/all-rows-in-one-chain"
						} else {
							fp += "/rows-in-several-chains"
						}
						fp += []string{"/one-batch-per-chain", "/one-row-per-batch"}[variant]
					}
					fs.Add(fp, fmt.Sprintf("query=%q table=%s\n  one chain, one batch: %s\n  %d chains, rows distributed %v (%s): %s", query, jstr(j.Table), want, j.Parallel, jstr(parts),
						[]string{"one batch per chain", "one row per batch"}[variant], g))
				} else {
					rep.Nontrivial(query + "|" + jstr(j.Table) + fmt.Sprintf("|par%d|%d|%d", j.Parallel, mask, variant))
				}
			}
		}
		return fs.Result(), nil
	}
	if j.NStream <= 1 {
		for _, comp := range compositions(n) {
			for variant := 0; variant < 4; variant++ {
				// variant 0: plain, EOF after data; 1: EOF delivered with the last batch; 2: an empty batch after the first;
				// 3: a column that no row of a batch carries is left out of that batch (a segment without the column)
				sparseCols = variant == 3
				if variant == 3 {
					// only where the aggregation reads the source batches itself: its group-by/measure reads are written
					// for columns that a batch does not have (other commands never meet such a batch from the searcher)
					first := j.Chain[0]
					if len(comp) == 1 || !(strings.HasPrefix(first, "stats ") || strings.HasPrefix(first, "top ") || strings.HasPrefix(first, "rare ")) {
						sparseCols = false
						continue
					}
				}
				var batches [][]map[string]interface{}
				pos := 0
				for bi, sz := range comp {
					batches = append(batches, j.Table[pos:pos+sz])
					pos += sz
					if variant == 2 && bi == 0 {
						batches = append(batches, []map[string]interface{}{})
					}
				}
				if len(comp) == 1 && variant == 0 {
					continue // the reference itself
				}
				got, err := call(batches, nil, variant == 1)
				sparseCols = false
				if err != nil {
					return die(err)
				}
				g := got.canon(ordered)
				if g != want {
					vn := []string{"batches", "eof-with-data", "empty-batch", "column-left-out-of-batches-without-it"}[variant]
					fs.Add("C06/batching/"+cls, fmt.Sprintf("query=%q table=%s\n  one batch:   %s\n  batches %v (%s): %s", query, jstr(j.Table), want, comp, vn, g))
				} else if len(comp) >= 2 && stateful {
					rep.Nontrivial(query + "|" + jstr(j.Table) + "|" + fmt.Sprint(comp, variant))
				}
			}
		}
	} else {
		// two upstream streams: every assignment of rows to streams, order within each stream preserved; rows carry
		// the default merge key (timestamp) = descending input position so the merged order equals the table order
		tab := make([]map[string]interface{}, n)
		for i, r := range j.Table {
			rr := map[string]interface{}{"timestamp": 1000 - i}
			for k, v := range r {
				rr[k] = v
			}
			tab[i] = rr
		}
		cols = append(cols, "timestamp")
		ref2, err := call([][]map[string]interface{}{tab}, nil, false)
		if err != nil {
			return die(err)
		}
		want2 := ref2.canon(ordered)
		for mask := 1; mask < (1<<n)-1; mask++ {
			var s0, s1 []map[string]interface{}
			for i := range tab {
				if mask&(1<<i) != 0 {
					s0 = append(s0, tab[i])
				} else {
					s1 = append(s1, tab[i])
				}
			}
			got, err := call(nil, [][][]map[string]interface{}{{s0}, {s1}}, false)
			if err != nil {
				return die(err)
			}
			if g := got.canon(ordered); g != want2 {
				fs.Add("C06/streams/"+cls, fmt.Sprintf("query=%q table=%s\n  one stream:  %s\n  two streams (mask %b): %s", query, jstr(tab), want2, mask, g))
			} else {
				rep.Nontrivial(query + "|" + jstr(j.Table) + "|streams" + fmt.Sprint(mask))
			}
		}
	}
	return fs.Result(), nil
}

func c06Names(chain []string) []string {
	var out []string
	for _, c := range chain {
		f := strings.Fields(c)
		name := f[0]
		if name == "eval" || name == "stats" || name == "dedup" || name == "streamstats" || name == "fields" {
			name = strings.ReplaceAll(c, " ", "_")
		}
		out = append(out, name)
	}
	return out
}

func C06() int {
	rep := kernel.NewReport("C06", "exploration")
	rep.Rule = "every command alone and every ordered pair of commands (41 instances: where, eval, fields, rename, fillnull×2, rex, regex, dedup×5, " +
		"head×4 (plain, with condition, keeplast), tail×2, sort×3, top, rare, bin×2 (with and without span), streamstats×4, eventstats×2, makemv, mvexpand, stats×5; parsed by the real SPL parser, built by AggsToDataProcessors) " +
		"× tables of ≤ n rows over a 6-row alphabet × every composition of the rows into successive batches, with EOF-with-data and an " +
		"inserted empty batch, output must equal the single-batch output " +
		"(as a sequence unless the chain contains stats/top/rare). Parallel chains: the same commands and pairs with the chains built by the real SetupQueryParallelism for 2 and - for pairs ending in an aggregation, in thorough for all pairs - 3 " +
		"processors, rows distributed over the chains in every way × {one batch per chain, one row per batch}, output must equal the single-chain output. non-trivial = ≥2 batches (or 2 streams) and a command with cross-batch state"
	rep.Assume = []string{"input order = table order; column b is unique and increasing, so sort keys have no ties", "no storage involved: harness Streamer feeds the first processor"}
	pool := logPool()
	pool.RecycleEvery = 5000
	d := &Driver[c06Job]{Rep: rep, Pool: pool,
		Budget: kernel.NewBudget(map[string]time.Duration{"quick": 150 * time.Second, "thorough": 30 * time.Minute}[rep.Tier]),
		Enumerate: func(emit func(c06Job)) {
			maxLen := 3
			pairTables := c06Tables(2)
			if rep.Tier == "thorough" {
				maxLen = 4
				pairTables = c06Tables(3)
			}
			single := c06Tables(maxLen)
			for _, c := range c06Cmds {
				for _, t := range single {
					emit(c06Job{Chain: []string{c.Text}, Table: t, NStream: 1})
				}
			}
			// one long table (10 rows, six of them in a row without the numeric field, the extremes after them) for every
			// command alone: per-batch counters and two-pass commands see long runs of absent values
			long := []map[string]interface{}{{"a": 1, "b": 5, "m": "x,y"}, {"a": 2, "b": 12, "m": "z"}, {"a": 1}, {"a": 2, "m": "x,y"}, {"m": "z"}, {"a": 3, "m": "q"},
				{"a": 1, "m": "z"}, {"a": 2}, {"a": 3, "b": 950, "m": "x,y"}, {"a": 1, "b": 40, "m": "q"}}
			for _, c := range c06Cmds {
				emit(c06Job{Chain: []string{c.Text}, Table: long, NStream: 1})
			}
			// fixed 4-row tables for pairs, plus all short tables
			fixed := [][]map[string]interface{}{
				{{"a": 1, "b": 1, "m": "x,y"}, {"a": 2, "b": 2, "m": "z"}, {"a": 2, "b": 3, "m": "x,y"}, {"b": 4, "m": "z"}},
				{{"a": 2, "b": 1, "m": "z"}, {"b": 2}, {"a": 1, "b": 3, "m": "q"}, {"a": 2, "b": 4, "m": "z"}},
			}
			for _, c1 := range c06Cmds {
				for _, c2 := range c06Cmds {
					if c1.Order == "set" {
						f := strings.Fields(c2.Text)[0]
						if f == "head" || f == "tail" || f == "streamstats" || f == "dedup" {
							continue // group order after stats/top/rare is undefined, so order-sensitive successors have no defined output
						}
					}
					if strings.HasPrefix(c1.Text, "bin ") && strings.HasPrefix(c2.Text, "sort 2") {
						continue // bin makes the sort key tie; which of the tied rows survives a sort limit is not defined
					}
					for _, t := range fixed {
						emit(c06Job{Chain: []string{c1.Text, c2.Text}, Table: t, NStream: 1})
					}
					if rep.Tier == "thorough" {
						for _, t := range pairTables {
							emit(c06Job{Chain: []string{c1.Text, c2.Text}, Table: t, NStream: 1})
						}
					}
				}
			}
			// parallel chains: every single command and every pair, rows distributed over 2 (thorough: also 3) chains
			for _, c := range c06Cmds {
				for _, t := range fixed {
					emit(c06Job{Chain: []string{c.Text}, Table: t, NStream: 1, Parallel: 2})
				}
			}
			for _, c1 := range c06Cmds {
				for _, c2 := range c06Cmds {
					if strings.HasPrefix(c1.Text, "bin ") && strings.HasPrefix(c2.Text, "sort 2") {
						continue
					}
					for _, t := range fixed {
						emit(c06Job{Chain: []string{c1.Text, c2.Text}, Table: t, NStream: 1, Parallel: 2})
						// three chains: in thorough for every pair; in quick for the pairs that end in an aggregation (a chain
						// whose rows are all filtered out, or lack the measured column, then sits between two others)
						if rep.Tier == "thorough" || strings.HasPrefix(c2.Text, "stats ") || strings.HasPrefix(c2.Text, "top ") || strings.HasPrefix(c2.Text, "rare ") {
							emit(c06Job{Chain: []string{c1.Text, c2.Text}, Table: t, NStream: 1, Parallel: 3})
						}
					}
				}
			}
			rep.Bounds["commands"] = len(c06Cmds)
			rep.Bounds["max_table_len_single"] = maxLen
		},
		Run:        c06Run,
		Key:        func(j *c06Job) string { return fmt.Sprint(j.Chain, jstr(j.Table), j.NStream, j.Parallel) },
		Nontrivial: func(j *c06Job) bool { return false },
	}
	d.Drive()
	return rep.Finish()
}

func init() {
	Registry["C06"] = C06
	Replayers["C06"] = MakeReplayer[c06Job]("C06", "exploration", logPool, c06Run)
}
