package props

import (
	"encoding/json"
	"fmt"
	"os"
	"path/filepath"
	"strings"
	"sync"
	"time"

	"verif/harness/kernel"
)

// C07 — flushed log data survives a process crash at any instant. Engine: crashfs (fault enumeration): every prefix
// of the file-system operation log of a write history is materialised and recovered by a fresh process.

type c07Step struct {
	Op    string `json:"op"` // ingest | flush | rotate | query
	Index string `json:"index,omitempty"`
	Event string `json:"event,omitempty"`
	Text  string `json:"text,omitempty"`
}

type c07History struct {
	Name  string    `json:"name"`
	PQS   bool      `json:"pqs"`
	Steps []c07Step `json:"steps"`
}

// c07Idx: index name of a history step; a leading dot stays in front (names like .ds-logs-app are ordinary indexes)
func c07Idx(i string) string {
	if strings.HasPrefix(i, ".") {
		return ".c07" + i[1:]
	}
	return "c07" + i
}

func c07Ev(k int, members string) string { return c01Event(k, T0+int64(k), members) }

func c07Histories(tier string) []c07History {
	ing := func(idx string, k int, m string) c07Step {
		return c07Step{Op: "ingest", Index: idx, Event: c07Ev(k, m)}
	}
	fl, rot := c07Step{Op: "flush"}, c07Step{Op: "rotate"}
	hs := []c07History{
		{"H1 ingest,flush", false, []c07Step{ing("a", 0, `"d":"x","n":1`), fl}},
		{"H2 two flushes", false, []c07Step{ing("a", 0, `"d":"x","n":1`), fl, ing("a", 1, `"d":"y","n":2,"late":true`), fl}},
		{"H3 flush then rotate", false, []c07Step{ing("a", 0, `"d":"x","n":1`), ing("a", 1, `"d":"x","n":2.5`), fl, rot}},
		{"H4 new segment after rotation", false, []c07Step{ing("a", 0, `"d":"x","n":1`), ing("a", 1, `"d":"y","n":2`), fl, rot, ing("a", 2, `"d":"z","n":3,"late":"q"`), fl}},
		{"H5 rotate, flush, rotate", false, []c07Step{ing("a", 0, `"d":"x","n":1`), fl, rot, ing("a", 1, `"d":"y","n":2`), fl, rot}},
		{"H6 two indexes interleaved", false, []c07Step{ing("a", 0, `"d":"x","n":1`), ing(".b", 1, `"d":"y","m":"foo"`), fl, ing("a", 2, `"d":"z","n":2`), fl, rot}}, // the second index has a dot-prefixed name
		{"H7 persistent query registered", true, []c07Step{ing("a", 0, `"d":"x","n":1`), fl, {Op: "query", Index: "a", Text: "d=x"}, {Op: "query", Index: "a", Text: "d=x"},
			{Op: "query", Index: "a", Text: "* | stats count by d"}, ing("a", 1, `"d":"x","n":2`), ing("a", 2, `"d":"y","n":3`), fl, rot}},
	}
	if tier == "thorough" {
		// every history of ≤ 4 operations over {ingest, flush, rotate} on one index (ingest always carries a new event)
		ops := []string{"ingest", "flush", "rotate"}
		var rec func(cur []string)
		rec = func(cur []string) {
			if len(cur) > 0 && cur[len(cur)-1] != "ingest" && cur[0] == "ingest" {
				var steps []c07Step
				k := 0
				for _, o := range cur {
					if o == "ingest" {
						steps = append(steps, ing("a", k, fmt.Sprintf(`"d":"v%d","n":%d`, k%2, k)))
						k++
					} else {
						steps = append(steps, c07Step{Op: o})
					}
				}
				hs = append(hs, c07History{"T " + strings.Join(cur, ","), false, steps})
			}
			if len(cur) == 4 {
				return
			}
			for _, o := range ops {
				rec(append(append([]string{}, cur...), o))
			}
		}
		rec(nil)
	}
	return hs
}

// c07Crash is one crash state of one history.
type c07Crash struct {
	History   c07History `json:"history"`
	Cut       int        `json:"cut"` // number of log operations that took effect
	LastOp    string     `json:"lastOp"`
	Completed []string   `json:"completedEventIds"`
	InFlight  []string   `json:"inFlightEventIds"`
	Inside    bool       `json:"insideFlush"`
	model     map[string]*MEvent
	fs        *kernel.MemFS
}

func fileKind(p string) string {
	b := filepath.Base(p)
	if i := strings.LastIndex(b, "."); i >= 0 {
		if b[i+1:] == "tmp" {
			if k := strings.LastIndex(b[:i], "."); k >= 0 {
				return b[k+1:] // e.g. sfm.tmp, sst.tmp: which file is being replaced matters
			}
		}
		return b[i+1:]
	}
	if strings.Contains(p, "pqmr") {
		return "pqmr"
	}
	return "noext"
}

// c07Record runs the history in a hooked child and returns the operation log and the final directory.
func c07Record(h *c07History, rep *kernel.Report) (ops []*kernel.FsOp, dir string, cleanup func(), err error) {
	w, err := kernel.Spawn(kernel.SpawnOpts{KeepDir: true})
	if err != nil {
		return nil, "", nil, err
	}
	dir = w.Dir
	cleanup = func() { w.Close(); _ = os.RemoveAll(dir) }
	logPath := filepath.Join(dir, "fs.log")
	pqs := h.PQS
	if err := w.Call("boot", map[string]interface{}{"dir": dir, "crashLog": logPath, "pqs": &pqs, "relPaths": true}, nil); err != nil {
		return nil, dir, cleanup, fmt.Errorf("boot of hooked child failed: %v\n%s", err, w.StderrTail())
	}
	nflush := 0
	for _, st := range h.Steps {
		switch st.Op {
		case "ingest":
			if err := ingestStep(w, 0, c07Idx(st.Index), []string{st.Event}); err != nil {
				return nil, dir, cleanup, err
			}
			_ = w.Call("mark", map[string]interface{}{"text": "INGEST_ACK"}, nil)
		case "flush", "rotate":
			nflush++
			_ = w.Call("mark", map[string]interface{}{"text": fmt.Sprintf("FLUSH_BEGIN %d", nflush)}, nil)
			if err := w.Call(st.Op, nil, nil); err != nil {
				return nil, dir, cleanup, err
			}
			_ = w.Call("mark", map[string]interface{}{"text": fmt.Sprintf("FLUSH_DONE %d", nflush)}, nil)
		case "query":
			if _, err := runQuery(w, Q{Index: c07Idx(st.Index), Text: st.Text, Start: T0 - 10, End: T0 + 1000, Size: 100}); err != nil {
				return nil, dir, cleanup, err
			}
		}
		rep.Transition(1)
	}
	w.Kill() // the process dies without any shutdown processing
	ops, err = kernel.ReadFsLog(logPath)
	return ops, dir, cleanup, err
}

func c07SkipState(p string) bool {
	// files that carry no stored data: usage statistics and query bookkeeping written by timers
	return strings.Contains(p, "usage") || strings.HasPrefix(p, "querynodes/") && strings.Contains(p, "usage")
}

// c07Enumerate turns a recorded history into its distinct crash states.
func c07Enumerate(h *c07History, ops []*kernel.FsOp) ([]*c07Crash, error) {
	model := map[string]*MEvent{}
	var order []string // event ids in ingest order
	flushOf := map[string]int{}
	nflush := 0
	var pending []string
	evIdx := 0
	for _, st := range h.Steps {
		switch st.Op {
		case "ingest":
			m, err := Flatten(st.Event, "timestamp")
			if err != nil {
				return nil, err
			}
			id := fmt.Sprintf("e%d", evIdx)
			evIdx++
			model[id] = m
			order = append(order, id)
			pending = append(pending, id)
		case "flush", "rotate":
			nflush++
			for _, id := range pending {
				flushOf[id] = nflush
			}
			pending = nil
		}
	}
	fs := kernel.NewMemFS()
	seen := map[string]bool{}
	var out []*c07Crash
	begun, done := 0, 0
	emit := func(cut int, last string) {
		var comp, infl []string
		for _, id := range order {
			f := flushOf[id]
			switch {
			case f == 0:
			case f <= done:
				comp = append(comp, id)
			case f <= begun:
				infl = append(infl, id)
			}
		}
		key := fs.StateHash(c07SkipState) + "|" + fmt.Sprint(comp, infl)
		if seen[key] {
			return
		}
		seen[key] = true
		snap := kernel.NewMemFS()
		for p, b := range fs.Files {
			snap.Files[p] = b
		}
		for d := range fs.Dirs {
			snap.Dirs[d] = true
		}
		out = append(out, &c07Crash{History: *h, Cut: cut, LastOp: last, Completed: comp, InFlight: infl, Inside: begun > done, model: model, fs: snap})
	}
	emit(0, "start")
	for i, op := range ops {
		if op.Op == "mark" {
			var n int
			if _, err := fmt.Sscanf(op.P, "FLUSH_BEGIN %d", &n); err == nil {
				begun = n
			}
			if _, err := fmt.Sscanf(op.P, "FLUSH_DONE %d", &n); err == nil {
				done = n
			}
			emit(i+1, "mark:"+op.P)
			continue
		}
		if err := fs.Apply(op); err != nil {
			return nil, fmt.Errorf("model fs cannot apply log op %d (%s %s): %v", i, op.Op, op.P, err)
		}
		emit(i+1, op.Op+"@"+fileKind(op.P))
	}
	return out, nil
}

// c07Recover materialises one crash state, boots a fresh process on it and applies the oracle.
func c07Recover(c *c07Crash, rep *kernel.Report) (*Fail, error) {
	dir := kernel.NewScratchDir("c07r")
	defer os.RemoveAll(dir)
	if err := c.fs.Materialize(filepath.Join(dir, "data")); err != nil {
		return nil, err
	}
	cls := c.LastOp
	if strings.HasPrefix(cls, "mark:") {
		cls = "boundary"
	}
	fail := func(clause, what string) *Fail {
		return &Fail{FP: "C07/" + clause + "/" + cls, What: fmt.Sprintf("history %q crash after %d fs operations (last: %s): %s", c.History.Name, c.Cut, c.LastOp, what)}
	}
	w, err := kernel.Spawn(kernel.SpawnOpts{Dir: dir})
	if err != nil {
		return nil, err
	}
	defer w.Close()
	pqs := c.History.PQS
	if err := w.Call("boot", map[string]interface{}{"dir": dir, "recoverBoot": true, "pqs": &pqs, "relPaths": true}, nil); err != nil {
		if d, ok := err.(*kernel.Died); ok {
			return fail("startup-died", d.Exit+" "+d.Frame+"\n"+trunc(d.Stderr, 2000)), nil
		}
		return fail("startup-failed", err.Error()), nil
	}
	rep.Eval(1)
	indexes := map[string]bool{}
	for _, st := range c.History.Steps {
		if st.Op == "ingest" {
			indexes[c07Idx(st.Index)] = true
		}
	}
	allIdx := strings.Join(sortedKeys(indexes), ",")
	visible := func(stage string) (map[string]bool, *Fail, error) {
		rs, err := runQueries(w, []Q{{Index: allIdx, Text: "*", Start: T0 - 10, End: T0 + 100000, Size: 1000},
			{Index: allIdx, Text: "* | stats count", Start: T0 - 10, End: T0 + 100000, Size: 1000},
			{Index: allIdx, Text: "* | stats count(n), sum(n)", Start: T0 - 10, End: T0 + 100000, Size: 1000}})
		if err != nil {
			if d, ok := err.(*kernel.Died); ok {
				return nil, fail("query-died"+stage, d.Exit+" "+d.Frame+"\n"+trunc(d.Stderr, 2000)), nil
			}
			return nil, nil, err
		}
		r := rs[0]
		if r.Err != "" || len(r.Errors) > 0 {
			return nil, fail("query-error"+stage, r.Err+strings.Join(r.Errors, ";")), nil
		}
		got := map[string]bool{}
		for _, rec := range r.Records {
			id, _ := rec["id"].(string)
			m, ok := c.model[id]
			if !ok && id != "enew" {
				return nil, fail("garbage-row"+stage, "row "+jstr(rec)+" is not an ingested event"), nil
			}
			if got[id] {
				return nil, fail("duplicate"+stage, "event "+id+" returned twice"), nil
			}
			got[id] = true
			if ok {
				mc := &MEvent{TS: m.TS, Raw: m.Raw, Cols: map[string][]MVal{}}
				for k, v := range m.Cols {
					mc.Cols[k] = v
				}
				mc.Cols["id"] = []MVal{{Kind: "str", S: "e0"}}
				one := []*MEvent{mc}
				sub := &QRes{Records: []map[string]interface{}{renameID(rec, "e0")}, Total: map[string]interface{}{"value": 1}}
				if clause, what := c01Check(one, sub, nil); clause != "" && !strings.HasPrefix(clause, "total") {
					cl := strings.SplitN(clause, "@", 2)[0]
					for _, f := range c.InFlight {
						if f == id && stage == "" {
							// an event of the flush in progress that is visible, but not with all of its content
							return nil, &Fail{FP: "C07/partial-event-of-flush-in-progress/" + cl, What: fmt.Sprintf("history %q crash after %d fs operations (last: %s): event %s: %s",
								c.History.Name, c.Cut, c.LastOp, id, what)}, nil
						}
					}
					return nil, fail("content-"+cl+stage, "event "+id+": "+what), nil
				}
			}
		}
		if rs[1].Err != "" || len(rs[1].Errors) > 0 {
			return nil, fail("query-error"+stage, "stats count: "+rs[1].Err+strings.Join(rs[1].Errors, ";")), nil
		}
		// every visible event is also found by a search whose time range is just its own timestamp (the recovered
		// segment metadata - time range, block summaries - must cover what the segment holds)
		var wqs []Q
		var wids []string
		for _, id := range sortedKeys(got) {
			if m, ok := c.model[id]; ok {
				wqs = append(wqs, Q{Index: allIdx, Text: "*", Start: m.TS, End: m.TS, Size: 100})
				wids = append(wids, id)
			}
		}
		if len(wqs) > 0 {
			wrs, err := runQueries(w, wqs)
			if err != nil {
				if d, ok := err.(*kernel.Died); ok {
					return nil, fail("query-died"+stage, d.Exit+" "+d.Frame+"\n"+trunc(d.Stderr, 2000)), nil
				}
				return nil, nil, err
			}
			for i, wr := range wrs {
				found := false
				for _, rec := range wr.Records {
					if id, _ := rec["id"].(string); id == wids[i] {
						found = true
					}
				}
				if !found {
					inflight := false
					for _, f := range c.InFlight {
						if f == wids[i] {
							inflight = true
						}
					}
					cls := "completed-flush"
					if inflight {
						cls = "flush-in-progress"
					}
					what := fmt.Sprintf("event %s (timestamp T0%+d) is returned by the search over the whole range but not by the search over [T0%+d,T0%+d] (err=%q %v)", wids[i], c.model[wids[i]].TS-T0, c.model[wids[i]].TS-T0, c.model[wids[i]].TS-T0, wr.Err, wr.Errors)
					if inflight && stage == "" {
						// the known window of a later flush (block summary appended, .sfm not yet replaced): one class
						return nil, &Fail{FP: "C07/flush-in-progress-visible-to-the-whole-range-search-not-to-its-time-window", What: fmt.Sprintf("history %q crash after %d fs operations (last: %s): %s", c.History.Name, c.Cut, c.LastOp, what)}, nil
					}
					return nil, fail("visible-event-not-found-by-its-time-window/"+cls+stage, fmt.Sprintf("event %s (timestamp T0%+d) is returned by the search over the whole range but not by the search over [T0%+d,T0%+d] (err=%q %v)", wids[i], c.model[wids[i]].TS-T0, c.model[wids[i]].TS-T0, c.model[wids[i]].TS-T0, wr.Err, wr.Errors)), nil
				}
			}
		}
		// the pre-computed segment statistics answer without errors and agree with what the search returns
		if rs[2].Err != "" || len(rs[2].Errors) > 0 {
			return nil, fail("stats-error"+stage, "`* | stats count(n), sum(n)` (answered from the segment statistics files): "+rs[2].Err+strings.Join(rs[2].Errors, ";")), nil
		}
		wantN, wantSum := int64(0), 0.0
		for id := range got {
			if m, ok := c.model[id]; ok {
				if vs, has := m.Cols["n"]; has && (vs[0].Kind == "int" || vs[0].Kind == "float") {
					wantN++
					wantSum += vs[0].Float()
				}
			} else if id == "enew" {
				wantN, wantSum = -1, 0 // the extra event of the continuation stage has its own n: not compared
				break
			}
		}
		if wantN >= 0 && len(rs[2].Measure) == 1 {
			gotN, _ := ObsInt(rs[2].Measure[0].M["count(n)"])
			gotSum, _ := ObsFloat(rs[2].Measure[0].M["sum(n)"])
			if gotN != wantN || !approxEq(gotSum, wantSum) {
				// one explanation has its own class: the search already lists the block of the flush in progress while the
				// statistics file is still the one of the last completed flush
				cN, cSum := int64(0), 0.0
				for id := range got {
					inflight := false
					for _, f := range c.InFlight {
						if f == id {
							inflight = true
						}
					}
					if m, ok := c.model[id]; ok && !inflight {
						if vs, has := m.Cols["n"]; has && (vs[0].Kind == "int" || vs[0].Kind == "float") {
							cN++
							cSum += vs[0].Float()
						}
					}
				}
				if stage == "" && gotN == cN && approxEq(gotSum, cSum) {
					return nil, &Fail{FP: "C07/flush-in-progress-visible-to-search-not-to-stats/" + c.LastOp, What: fmt.Sprintf("history %q crash after %d fs operations (last: %s): the search returns events %v, of which %v belong to the flush in progress; `stats count(n), sum(n)` answers %v, i.e. without them",
						c.History.Name, c.Cut, c.LastOp, sortedKeys(got), c.InFlight, jstr(rs[2].Measure))}, nil
				}
				return nil, fail("stats-disagree-with-search"+stage, fmt.Sprintf("the search returns events %v (count(n)=%d, sum(n)=%v) but `stats count(n), sum(n)` answers %v", sortedKeys(got), wantN, wantSum, jstr(rs[2].Measure))), nil
			}
		}
		return got, nil, nil
	}
	got, f, err := visible("")
	if f != nil || err != nil {
		return f, err
	}
	for _, id := range c.Completed {
		if !got[id] {
			return fail("completed-flush-lost", fmt.Sprintf("event %s belongs to a flush that had completed before the crash but is not returned; visible: %v", id, sortedKeys(got))), nil
		}
	}
	// all-or-nothing is judged per buffer, i.e. per index: one flush call flushes the buffers of all indexes one after another
	byIdx := map[string][]string{}
	{
		k := 0
		for _, st := range c.History.Steps {
			if st.Op == "ingest" {
				id := fmt.Sprintf("e%d", k)
				k++
				for _, f := range c.InFlight {
					if f == id {
						byIdx[st.Index] = append(byIdx[st.Index], id)
					}
				}
			}
		}
	}
	for idx, ids := range byIdx {
		nIn := 0
		for _, id := range ids {
			if got[id] {
				nIn++
			}
		}
		if nIn != 0 && nIn != len(ids) {
			return fail("partial-flush-visible", fmt.Sprintf("%d of %d events of the in-progress flush of index %s are visible: %v", nIn, len(ids), idx, sortedKeys(got))), nil
		}
	}
	allowed := map[string]bool{}
	for _, id := range append(append([]string{}, c.Completed...), c.InFlight...) {
		allowed[id] = true
	}
	for id := range got {
		if !allowed[id] {
			return fail("unflushed-visible", fmt.Sprintf("event %s was never part of a started flush but is visible", id)), nil
		}
	}
	// later ingestion must not overwrite recovered data
	for idx := range indexes {
		if err := ingestStep(w, 0, idx, []string{fmt.Sprintf(`{"timestamp":%d,"id":"enew","d":"new","n":99}`, T0+5000)}); err != nil {
			if d, ok := err.(*kernel.Died); ok {
				return fail("ingest-after-recovery-died", d.Exit+" "+d.Frame+"\n"+trunc(d.Stderr, 1500)), nil
			}
			return nil, err
		}
		break
	}
	if err := w.Call("rotate", nil, nil); err != nil {
		if d, ok := err.(*kernel.Died); ok {
			return fail("rotate-after-recovery-died", d.Exit+" "+d.Frame+"\n"+trunc(d.Stderr, 1500)), nil
		}
		return nil, err
	}
	got2, f, err := visible("-after-new-ingest")
	if f != nil || err != nil {
		return f, err
	}
	for id := range got {
		if !got2[id] {
			return fail("overwritten-by-later-ingest", fmt.Sprintf("event %s was visible after recovery but is gone after ingesting and rotating one new event; now: %v", id, sortedKeys(got2))), nil
		}
	}
	if !got2["enew"] {
		return fail("new-event-lost", "the event ingested after recovery is not returned"), nil
	}
	return nil, nil
}

func renameID(rec map[string]interface{}, id string) map[string]interface{} {
	out := map[string]interface{}{}
	for k, v := range rec {
		out[k] = v
	}
	out["id"] = id
	return out
}

func C07() int {
	rep := kernel.NewReport("C07", "fault_enumeration")
	rep.Rule = "each write history runs in a child whose package os reports every mutating operation on the data directory; every distinct prefix of that " +
		"log (the process-crash model: completed system calls persist) is materialised by a model file system — bound to the real code by a byte-for-byte " +
		"conformance check of the full log against the real directory — and recovered by a fresh process: start-up succeeds, events of completed flushes " +
		"are returned exactly once with their content, the flush in progress is all-or-nothing, no garbage rows or errors, and one more ingest+rotation " +
		"loses nothing. non-trivial = crash state strictly inside a flush/rotation (between its begin and done markers)"
	rep.Assume = []string{"process-crash model: a completed write/rename/unlink persists, the operating system survives; torn single writes are not modelled",
		"concurrent per-column writers are explored in the order they were observed (one linearisation) — cuts mixing their progress differently are not yet enumerated"}
	budget := kernel.NewBudget(map[string]time.Duration{"quick": 170 * time.Second, "thorough": 40 * time.Minute}[rep.Tier])
	hs := c07Histories(rep.Tier)
	rep.Bounds["histories"] = len(hs)
	type item struct{ c *c07Crash }
	jobs := make(chan *c07Crash, 1024)
	var wg sync.WaitGroup
	var mu sync.Mutex
	total := 0
	// recover workers
	nw := kernel.NumWorkers()
	for i := 0; i < nw; i++ {
		wg.Add(1)
		go func() {
			defer wg.Done()
			for c := range jobs {
				if budget.Exceeded() {
					continue
				}
				f, err := c07Recover(c, rep)
				if err != nil {
					rep.HarnessError(err.Error())
					continue
				}
				rep.Trace(1)
				key := fmt.Sprintf("%s|%d", c.History.Name, c.Cut)
				rep.State(key)
				if c.Inside {
					rep.Nontrivial(key)
				}
				if f == nil {
					rep.Outcome("ok")
					continue
				}
				rep.Outcome(f.FP)
				if rep.SeenViolation(f.FP) {
					continue
				}
				ok := true
				for k := 0; k < 2; k++ {
					f2, err := c07Recover(c, rep)
					if err != nil || f2 == nil || f2.FP != f.FP {
						ok = false
					}
				}
				if !ok {
					rep.Unreproduced(f.FP + ": " + trunc(f.What, 300))
					continue
				}
				rep.Violation(f.FP, f.What, map[string]interface{}{"history": c.History, "cut": c.Cut, "lastOp": c.LastOp, "completed": c.Completed, "inFlight": c.InFlight})
			}
		}()
	}
	for hi := range hs {
		h := &hs[hi]
		if budget.Exceeded() {
			rep.Cap("time budget: history not run: " + h.Name)
			continue
		}
		ops, dir, cleanup, err := c07Record(h, rep)
		if err != nil {
			if cleanup != nil {
				cleanup()
			}
			rep.HarnessError("recording " + h.Name + ": " + err.Error())
			continue
		}
		// conformance of the log: model fs after the whole log == real directory
		full := kernel.NewMemFS()
		bad := false
		for i, op := range ops {
			if err := full.Apply(op); err != nil {
				rep.HarnessError(fmt.Sprintf("history %s: log op %d: %v", h.Name, i, err))
				bad = true
				break
			}
		}
		if !bad {
			if diffs := full.Conform(filepath.Join(dir, "data"), nil); len(diffs) > 0 {
				rep.HarnessError(fmt.Sprintf("history %s: model fs differs from the real directory: %v", h.Name, diffs[:minInt(len(diffs), 6)]))
				bad = true
			}
		}
		cleanup()
		if bad {
			continue
		}
		rep.Add("fs_operations_logged", int64(len(ops)))
		rep.Add("histories_conformant", 1)
		crashes, err := c07Enumerate(h, ops)
		if err != nil {
			rep.HarnessError(err.Error())
			continue
		}
		mu.Lock()
		total += len(crashes)
		mu.Unlock()
		if hi == 0 && len(crashes) > 3 {
			c := crashes[len(crashes)/2]
			rep.Sample(map[string]interface{}{"history": c.History.Name, "cut": c.Cut, "lastOp": c.LastOp, "completed": c.Completed, "inFlight": c.InFlight})
		}
		for _, c := range crashes {
			jobs <- c
		}
	}
	close(jobs)
	wg.Wait()
	rep.Bounds["crash_states"] = total
	if budget.Hit() {
		rep.Cap("time budget hit")
	}
	return rep.Finish()
}

func minInt(a, b int) int {
	if a < b {
		return a
	}
	return b
}

func init() {
	Registry["C07"] = C07
}

// Replay: record the history again, enumerate its crash states and recover the one that matches the stored cut
// (same last operation and same completed / in-flight sets; the numeric cut is used when the log is identical).
func init() {
	Replayers["C07"] = func(doc json.RawMessage) int {
		var d struct {
			History   c07History `json:"history"`
			Cut       int        `json:"cut"`
			LastOp    string     `json:"lastOp"`
			Completed []string   `json:"completed"`
			InFlight  []string   `json:"inFlight"`
		}
		if err := json.Unmarshal(doc, &d); err != nil {
			fmt.Println("HARNESS-ERROR", err)
			return 2
		}
		rep := kernel.NewReport("C07", "fault_enumeration")
		ops, _, cleanup, err := c07Record(&d.History, rep)
		if cleanup != nil {
			defer cleanup()
		}
		if err != nil {
			fmt.Println("HARNESS-ERROR", err)
			return 2
		}
		crashes, err := c07Enumerate(&d.History, ops)
		if err != nil {
			fmt.Println("HARNESS-ERROR", err)
			return 2
		}
		rc := 0
		tried := 0
		for _, c := range crashes {
			if c.LastOp != d.LastOp || fmt.Sprint(c.Completed) != fmt.Sprint(d.Completed) || fmt.Sprint(c.InFlight) != fmt.Sprint(d.InFlight) {
				continue
			}
			tried++
			f, err := c07Recover(c, rep)
			if err != nil {
				fmt.Println("HARNESS-ERROR", err)
				return 2
			}
			if f != nil {
				fmt.Printf("replay (cut %d): %s\n  %s\n", c.Cut, f.FP, f.What)
				rc = 1
			}
		}
		if rc == 0 {
			fmt.Printf("replay: property held on %d matching crash states\n", tried)
		}
		return rc
	}
}
