package props

import (
	"bytes"
	"encoding/json"
	"fmt"
	"math"
	"os"
	"runtime"
	"sync"
	"time"

	"github.com/siglens/siglens/pkg/segment/writer/metrics/compress"

	"verif/harness/kernel"
)

// C08 — metric datapoints are stored bit-exactly per series.
// Part A (codec): every sequence of ≤ n (timestamp-delta, value) pairs over boundary alphabets through the real
// Compressor / DecompressIterator. Part B (end to end) lives in c08e2e.go.

func c08Values() []float64 {
	one := 1.0
	vs := []float64{0, math.Copysign(0, -1), 1, math.Nextafter(one, 2), math.Nextafter(one, 0), 2, 3, 1e-310, math.MaxFloat64,
		-math.MaxFloat64, math.SmallestNonzeroFloat64, math.Inf(1), 100.5, 100.5000000001}
	// pairs engineered so that XOR with 1.0 has 11, 12, 31, 32, 52 leading zeros
	b := math.Float64bits(1.0)
	for _, lz := range []uint{11, 12, 31, 32, 52} {
		vs = append(vs, math.Float64frombits(b^(uint64(1)<<(63-lz))))
	}
	// XOR with 1 trailing-zero edge cases: only the top bit differs (63 trailing zeros) / all bits differ
	vs = append(vs, math.Float64frombits(b^(uint64(1)<<63)))
	return vs
}

var c08Deltas = []uint32{0, 1, 60, 63, 64, 65, 255, 256, 2047, 2048, 2049, 86400, 1<<31 - 1}

type c08Point struct {
	Delta uint32 `json:"delta"`
	Bits  uint64 `json:"bits"`
	Value string `json:"value"`
}

type c08Seq struct {
	Base   uint32     `json:"base"`
	Points []c08Point `json:"points"`
}

// c08Codec runs one sequence through the real codec; returns a failure description or "".
func c08Codec(base uint32, deltas []uint32, vals []float64) (clause, class, what string) {
	defer func() {
		if r := recover(); r != nil {
			clause, class, what = "panic", "codec", fmt.Sprint(r)
		}
	}()
	var buf bytes.Buffer
	t := base
	c, finish, err := compress.NewCompressor(&buf, t+deltas[0])
	if err != nil {
		return "compress-error", "new", err.Error()
	}
	ts := make([]uint32, len(deltas))
	for i := range deltas {
		t += deltas[i]
		ts[i] = t
		if _, err := c.Compress(t, vals[i]); err != nil {
			return "compress-error", "compress", err.Error()
		}
	}
	if err := finish(); err != nil {
		return "compress-error", "finish", err.Error()
	}
	it, err := compress.NewDecompressIterator(bytes.NewReader(buf.Bytes()))
	if err != nil {
		return "decompress-error", "new", err.Error()
	}
	i := 0
	for it.Next() {
		gt, gv := it.At()
		if i >= len(ts) {
			return "extra-point", "count", fmt.Sprintf("decoded more than %d points: extra (%d,%v)", len(ts), gt, gv)
		}
		if gt != ts[i] {
			dod := int64(0)
			if i >= 1 {
				prev := int64(0)
				if i >= 2 {
					prev = int64(deltas[i-1])
				}
				dod = int64(deltas[i]) - prev
			}
			return "timestamp", c08DodClass(i, dod), fmt.Sprintf("point %d: timestamp %d decoded as %d (delta %d)", i, ts[i], gt, deltas[i])
		}
		if math.Float64bits(gv) != math.Float64bits(vals[i]) {
			lz := 64
			if i > 0 {
				x := math.Float64bits(vals[i]) ^ math.Float64bits(vals[i-1])
				lz = 0
				for m := uint64(1) << 63; m != 0 && x&m == 0; m >>= 1 {
					lz++
				}
			}
			cls := "xor-leading-zeros<32"
			if lz >= 32 {
				cls = "xor-leading-zeros>=32"
			}
			return "value", cls, fmt.Sprintf("point %d: value %v (bits %016x) decoded as %v (bits %016x); previous value %v, XOR has %d leading zeros",
				i, vals[i], math.Float64bits(vals[i]), gv, math.Float64bits(gv), prevVal(vals, i), lz)
		}
		i++
	}
	if err := it.Err(); err != nil {
		return "decompress-error", "iter", err.Error()
	}
	if i != len(ts) {
		return "missing-point", "count", fmt.Sprintf("decoded %d of %d points", i, len(ts))
	}
	return "", "", ""
}

func prevVal(v []float64, i int) interface{} {
	if i == 0 {
		return "none"
	}
	return v[i-1]
}

func c08DodClass(i int, dod int64) string {
	if i == 0 {
		return "first"
	}
	a := dod
	if a < 0 {
		a = -a
	}
	switch {
	case a <= 64:
		return "dod<=64"
	case a <= 256:
		return "dod<=256"
	case a <= 2048:
		return "dod<=2048"
	default:
		return "dod>2048"
	}
}

func C08() int {
	rep := kernel.NewReport("C08", "exploration")
	tier := rep.Tier
	vals := c08Values()
	deltas := c08Deltas
	maxLen := 3
	if tier == "thorough" {
		maxLen = 4
	}
	rep.Rule = "codec: every sequence of ≤ n (delta, value) pairs over a boundary alphabet (−0, ±ulp neighbours, subnormal, extremes, +Inf, XOR leading-zero " +
		"counts 11/12/31/32/52/63, trailing-zero extremes; deltas 0,1,60,63,64,65,255,256,2047,2048,2049,86400,2^31−1 so that delta-of-delta crosses every " +
		"field boundary) through the real Compressor/DecompressIterator, decoded (timestamp, bits) must be identical. block reader: every sequence of ≤3 (4) distinct look-ups of present and absent series " +
		"through the real per-block series reader (cursor kept between look-ups) on real blocks of 1, 2, 4 series: found iff stored, points as stored. end-to-end: series sets × " +
		"ingest/rotate histories through the real ingest and query path (see coverage.e2e). non-trivial = codec sequence of length ≥2 with a non-zero XOR or non-zero delta-of-delta; e2e case with ≥2 series"
	rep.Assume = []string{"NaN is rejected by ingest and excluded", "deltas are non-negative (the ingest path orders by arrival); first timestamp = block header"}
	budget := kernel.NewBudget(map[string]time.Duration{"quick": 100 * time.Second, "thorough": 25 * time.Minute}[tier])
	// thorough length 4 runs over a reduced core to stay within budget
	type task struct {
		n      int
		prefix []int // first index pair fixed (sharding)
	}
	nv, nd := len(vals), len(deltas)
	pairs := nv * nd
	var mu sync.Mutex
	var evals, nontriv int64
	fails := map[string]*Fail{}
	samples := 0
	work := make(chan task, 1024)
	var wg sync.WaitGroup
	run := func(n int, first int, vs []float64, ds []uint32) {
		np := len(vs) * len(ds)
		idx := make([]int, n)
		idx[0] = first
		dl := make([]uint32, n)
		vl := make([]float64, n)
		var le, ln int64
		for {
			for i, k := range idx {
				dl[i] = ds[k%len(ds)]
				vl[i] = vs[k/len(ds)]
			}
			clause, class, what := c08Codec(1_700_000_000, dl, vl)
			le++
			if n >= 2 {
				nt := false
				for i := 1; i < n; i++ {
					if math.Float64bits(vl[i]) != math.Float64bits(vl[i-1]) || (i >= 2 && dl[i] != dl[i-1]) {
						nt = true
					}
				}
				if nt {
					ln++
				}
			}
			if clause != "" {
				fp := "C08/codec-" + clause + "/" + class
				mu.Lock()
				if _, ok := fails[fp]; !ok {
					seq := c08Seq{Base: 1_700_000_000}
					for i := range dl {
						seq.Points = append(seq.Points, c08Point{dl[i], math.Float64bits(vl[i]), fmt.Sprint(vl[i])})
					}
					b, _ := json.Marshal(seq)
					fails[fp] = &Fail{FP: fp, What: what + " seq=" + string(b)}
					rep.Violation(fp, what, map[string]interface{}{"kind": "codec", "seq": seq})
				}
				mu.Unlock()
				rep.Outcome(fp)
			}
			k := n - 1
			for k >= 1 {
				idx[k]++
				if idx[k] < np {
					break
				}
				idx[k] = 0
				k--
			}
			if k < 1 {
				break
			}
		}
		mu.Lock()
		evals += le
		nontriv += ln
		if samples < 3 {
			samples++
			seq := c08Seq{Base: 1_700_000_000}
			for i := range dl {
				seq.Points = append(seq.Points, c08Point{dl[i], math.Float64bits(vl[i]), fmt.Sprint(vl[i])})
			}
			rep.Sample(map[string]interface{}{"kind": "codec", "seq": seq})
		}
		mu.Unlock()
	}
	coreV, coreD := vals, deltas
	if tier == "thorough" {
		coreV = append(append([]float64{}, vals[:6]...), vals[14:]...) // 12 values
		coreD = []uint32{0, 1, 63, 64, 65, 256, 2049, 86400}
	}
	for w := 0; w < runtime.NumCPU(); w++ {
		wg.Add(1)
		go func() {
			defer wg.Done()
			for t := range work {
				if budget.Exceeded() {
					continue
				}
				if t.n == 4 {
					run(4, t.prefix[0], coreV, coreD)
				} else {
					run(t.n, t.prefix[0], vals, deltas)
				}
			}
		}()
	}
	for n := 1; n <= maxLen && n <= 3; n++ {
		for f := 0; f < pairs; f++ {
			work <- task{n, []int{f}}
		}
	}
	if maxLen == 4 {
		for f := 0; f < len(coreV)*len(coreD); f++ {
			work <- task{4, []int{f}}
		}
	}
	close(work)
	wg.Wait()
	rep.Eval(evals)
	rep.NontrivialBulk(nontriv)
	rep.Set("codec_sequences", evals)
	rep.Set("codec_nontrivial_sequences", nontriv)
	rep.Bounds["codec_values"] = nv
	rep.Bounds["codec_deltas"] = nd
	rep.Bounds["codec_max_len"] = maxLen
	if budget.Hit() {
		rep.Cap("time budget hit during codec enumeration")
	}
	if os.Getenv("VERIF_C08_CODEC_ONLY") != "1" {
		c08Reader(rep, kernel.NewBudget(map[string]time.Duration{"quick": 40 * time.Second, "thorough": 10 * time.Minute}[tier]))
		c08TwoIngests(rep, kernel.NewBudget(map[string]time.Duration{"quick": 40 * time.Second, "thorough": 10 * time.Minute}[tier]))
		c08E2E(rep)
	}
	return rep.Finish()
}

func init() {
	Registry["C08"] = C08
	Replayers["C08"] = func(doc json.RawMessage) int {
		var d struct {
			Kind string          `json:"kind"`
			Seq  c08Seq          `json:"seq"`
			Job  json.RawMessage `json:"job"`
		}
		if err := json.Unmarshal(doc, &d); err != nil {
			fmt.Println("HARNESS-ERROR", err)
			return 2
		}
		var probe struct {
			Order []string `json:"order"`
		}
		_ = json.Unmarshal(doc, &probe)
		var probe3 struct {
			NewSeries *bool `json:"newSeries"`
		}
		_ = json.Unmarshal(doc, &probe3)
		if probe3.NewSeries != nil {
			return MakeReplayer[c08VJob]("C08", "exploration", logPool, c08VRun)(doc)
		}
		if len(probe.Order) > 0 {
			return MakeReplayer[c08ReaderJob]("C08", "exploration", logPool, c08ReaderRun)(doc)
		}
		if d.Kind == "codec" {
			var dl []uint32
			var vl []float64
			for _, p := range d.Seq.Points {
				dl = append(dl, p.Delta)
				vl = append(vl, math.Float64frombits(p.Bits))
			}
			clause, class, what := c08Codec(d.Seq.Base, dl, vl)
			if clause == "" {
				fmt.Println("replay: property held")
				return 0
			}
			fmt.Printf("replay: C08/codec-%s/%s\n  %s\n", clause, class, what)
			return 1
		}
		return c08ReplayE2E(doc)
	}
}
