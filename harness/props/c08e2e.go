package props

import (
	"encoding/json"
	"fmt"
	"math"
	"strings"
	"sync/atomic"
	"time"

	"verif/harness/kernel"
)

// C08 part B — end to end: series sets × put/rotate/restart histories through the real ingest and query endpoints.

type c08Step struct {
	Op     string `json:"op"` // put | puts (Count datapoints one second apart, values Count.. ) | block | segment | restart
	Count  int    `json:"count,omitempty"`
	Series int    `json:"series,omitempty"`
	Bits   uint64 `json:"bits,omitempty"`
	Value  string `json:"value,omitempty"`
}

type c08Job struct {
	Series []MSeries `json:"series"`
	Steps  []c08Step `json:"steps"`
}

func c08SeriesAlphabet() []MSeries {
	return []MSeries{
		{"m", map[string]string{"a": "b"}},
		{"m", map[string]string{"a": "b", "c": "d"}},
		{"m", map[string]string{"a": "b__c"}},
		{"m", map[string]string{"a__b": "c"}},
		{"m", map[string]string{"ab": "c"}},
		{"m", map[string]string{"a": "bc"}},
		{"n", map[string]string{"a": "b"}},
	}
}

func c08E2EValues() []float64 {
	return []float64{1.5, math.Nextafter(1.5, 2), math.Copysign(0, -1), 0, 1e308, 5e-324, -100.25}
}

var c08RunSeq int64

// restartWorker shuts the server of w down gracefully and boots a new process on the same directory.
func restartWorker(w *kernel.Worker) (*kernel.Worker, error) { return restartWorkerHow(w, true) }

// crashRestartWorker kills the server process of w (no shutdown sequence) and boots a new process on the same directory.
func crashRestartWorker(w *kernel.Worker) (*kernel.Worker, error) { return restartWorkerHow(w, false) }

func restartWorkerHow(w *kernel.Worker, graceful bool) (*kernel.Worker, error) {
	if graceful {
		_ = w.Call("shutdown", nil, nil)
	}
	w.Kill()
	var last error
	for attempt := 0; attempt < 3; attempt++ { // a boot can lose a port race: retry
		nw, err := kernel.Spawn(kernel.SpawnOpts{Dir: w.Dir})
		if err != nil {
			return nil, err
		}
		if err := nw.Call("boot", map[string]interface{}{"server": true, "dir": w.Dir}, nil); err != nil {
			st := nw.StderrTail()
			nw.Close()
			last = fmt.Errorf("reboot failed: %v\n%s", err, st)
			if strings.Contains(st, "address already in use") || strings.Contains(st, "not listening") {
				continue
			}
			return nil, last
		}
		return nw, nil
	}
	return nil, last
}

func c08RunE2E(w0 *kernel.Worker, j *c08Job, rep *kernel.Report) (*Fail, error) {
	w := w0
	defer func() {
		if w != w0 {
			w.Close()
		}
		// A size-triggered segment rotation changes the process for good (known finding: series first seen after it are
		// not searchable), so a worker that performed one is not reused: later histories must start from a fresh instance.
		for _, st := range j.Steps {
			if st.Op == "segment" {
				w0.Kill()
			}
		}
	}()
	die := func(err error) (*Fail, error) {
		fp, what, herr := diedResult("C08", err)
		if herr != nil {
			return nil, herr
		}
		return &Fail{FP: fp, What: what}, nil
	}
	suffix := fmt.Sprintf("_%d_%d", time.Now().UnixNano()%1_000_000_000, atomic.AddInt64(&c08RunSeq, 1))
	series := make([]MSeries, len(j.Series))
	for i, s := range j.Series {
		series[i] = MSeries{Name: s.Name + suffix, Tags: s.Tags}
	}
	model := map[string]map[uint32]uint64{} // series key -> ts -> bits
	ts := MT0
	layout := ""
	for si, st := range j.Steps {
		switch st.Op {
		case "put":
			ts++
			if si%2 == 1 {
				ts += 58 // irregular steps
			}
			s := series[st.Series]
			ok, raw, err := mPut(w, s, ts, math.Float64frombits(st.Bits))
			if err != nil {
				return die(err)
			}
			rep.Transition(1)
			if ok {
				if model[s.Key()] == nil {
					model[s.Key()] = map[uint32]uint64{}
				}
				model[s.Key()][ts] = st.Bits
			} else if raw == "" {
				return &Fail{FP: "C08/e2e-put-no-answer", What: "empty response to put"}, nil
			}
		case "puts":
			s := series[st.Series]
			for n := 0; n < st.Count; n++ {
				ts++
				v := float64(n) + 0.25
				ok, raw, err := mPut(w, s, ts, v)
				if err != nil {
					return die(err)
				}
				rep.Transition(1)
				if ok {
					if model[s.Key()] == nil {
						model[s.Key()] = map[uint32]uint64{}
					}
					model[s.Key()][ts] = math.Float64bits(v)
				} else if raw == "" {
					return &Fail{FP: "C08/e2e-put-no-answer", What: "empty response to put"}, nil
				}
			}
		case "block", "segment":
			var r map[string]interface{}
			if err := w.Call("mrotate", map[string]interface{}{"kind": st.Op}, &r); err != nil {
				return die(err)
			}
			rep.Transition(1)
			if r != nil && r["error"] != nil {
				return &Fail{FP: "C08/e2e-rotate-error/" + st.Op, What: fmt.Sprint(r["error"])}, nil
			}
			layout += st.Op[:1]
		case "restart":
			nw, err := restartWorker(w)
			if err != nil {
				return &Fail{FP: "C08/e2e-restart-failed", What: err.Error()}, nil
			}
			if w != w0 {
				w.Close()
			}
			w = nw
			rep.Transition(1)
			layout += "R"
		}
	}
	if layout == "" {
		layout = "open"
	}
	// root-cause classes that do not depend on the layout
	collide := false
	for _, a := range series {
		for _, b := range series {
			if a.Key() != b.Key() && tsidString(a) == tsidString(b) {
				collide = true
			}
		}
	}
	fs := &Fails{}
	names := map[string]bool{}
	for _, s := range series {
		names[s.Name] = true
	}
	ctx := fmt.Sprintf("steps=%s series=%s", jstr(j.Steps), jstr(j.Series))
	// (1) per-series selector: exactly that series, bit-exact points
	for _, s := range series {
		pts, has := model[s.Key()]
		if !has {
			continue
		}
		res, status, raw, err := mQueryRange(w, s.Selector(), MT0-10, MT0+340)
		if err != nil {
			return die(err)
		}
		rep.Eval(1)
		if status != "ok" {
			fs.Add("C08/e2e-query-error/"+layout, ctx+": selector "+s.Selector()+": "+status+" "+trunc(raw, 300))
			continue
		}
		var match *MResultSeries
		for i := range res {
			if labelsKey(res[i].Labels) == s.Key() {
				match = &res[i]
			} else if sameTagSet(res[i].Labels, s) {
				match = &res[i]
			} else if !labelsSatisfy(res[i].Labels, s) {
				// a selector legitimately returns every series carrying these labels (possibly with more labels)
				fs.Add("C08/e2e-foreign-series", ctx+fmt.Sprintf(": selector %s returned series %s which does not carry the selected labels", s.Selector(), labelsKey(res[i].Labels)))
			}
		}
		if match == nil {
			fs.Add("C08/e2e-series-missing/"+layout, ctx+fmt.Sprintf(": selector %s returned %d series, none with these labels: %s", s.Selector(), len(res), trunc(raw, 300)))
			continue
		}
		if len(match.Points) != len(pts) {
			fs.Add("C08/e2e-point-count/"+layout, ctx+fmt.Sprintf(": series %s has %d points, %d were accepted: %v", s.Key(), len(match.Points), len(pts), match.Raw))
			continue
		}
		for _, p := range match.Points {
			want, ok := pts[p.TS]
			if !ok {
				fs.Add("C08/e2e-timestamp/"+layout, ctx+fmt.Sprintf(": series %s returned timestamp %d which was never sent (sent %v)", s.Key(), p.TS, tsList(pts)))
				continue
			}
			if want != p.Bits {
				cls := "value"
				if want == math.Float64bits(math.Copysign(0, -1)) && p.Bits == 0 {
					cls = "negative-zero"
				}
				fs.Add(c08ValFP(cls, layout), ctx+fmt.Sprintf(": series %s at %d: sent %v (bits %016x), got %v (bits %016x); raw %v", s.Key(), p.TS,
					math.Float64frombits(want), want, math.Float64frombits(p.Bits), p.Bits, match.Raw))
			}
		}
	}
	// (2) by metric name: the set of series equals the model's (never merged, none invented)
	for name := range names {
		res, status, raw, err := mQueryRange(w, name, MT0-10, MT0+340)
		if err != nil {
			return die(err)
		}
		rep.Eval(1)
		if status != "ok" {
			fs.Add("C08/e2e-query-error/"+layout, ctx+": query "+name+": "+status+" "+trunc(raw, 300))
			continue
		}
		want := map[string]bool{}
		for _, s := range series {
			if s.Name == name && model[s.Key()] != nil {
				want[s.Key()] = true
			}
		}
		got := map[string]bool{}
		for _, r := range res {
			got[labelsKey(r.Labels)] = true
		}
		if !setEq(got, want) {
			fs.Add("C08/e2e-series-set/"+layout, ctx+fmt.Sprintf(": metric %s: series %s, ingested %s", name, setStr(got), setStr(want)))
		}
	}
	if collide {
		// two tag sets whose "key__value" concatenations are equal: every consequence is one class
		out := &Fails{}
		for _, f := range fs.list {
			if f.FP == "C08/e2e-negative-zero" {
				out.Add(f.FP, f.What)
			} else {
				out.Add("C08/e2e-tsid-collision", f.What)
			}
		}
		return out.Result(), nil
	}
	return fs.Result(), nil
}

// tsidString mimics how a series identity string is built from its tag set (sorted key__value pairs after the name);
// used only to *classify* failures, never to decide them.
func c08ValFP(cls, layout string) string {
	if cls == "negative-zero" {
		return "C08/e2e-negative-zero"
	}
	return "C08/e2e-" + cls + "/" + layout
}

func tsidString(s MSeries) string {
	out := s.Name
	for _, k := range sortedKeys(s.Tags) {
		out += "__" + k + "__" + s.Tags[k]
	}
	return out
}

func labelsSatisfy(labels map[string]string, s MSeries) bool {
	if labels["__name__"] != s.Name {
		return false
	}
	for k, v := range s.Tags {
		if labels[k] != v {
			return false
		}
	}
	return true
}

func sameTagSet(labels map[string]string, s MSeries) bool {
	if labels["__name__"] != s.Name || len(labels) != len(s.Tags)+1 {
		return false
	}
	for k, v := range s.Tags {
		if labels[k] != v {
			return false
		}
	}
	return true
}

func tsList(m map[uint32]uint64) []uint32 {
	var out []uint32
	for t := range m {
		out = append(out, t)
	}
	return out
}

func c08EnumerateE2E(tier string, emit func(c08Job)) {
	alpha := c08SeriesAlphabet()
	vals := c08E2EValues()
	put := func(s int, v float64) c08Step {
		return c08Step{Op: "put", Series: s, Bits: math.Float64bits(v), Value: fmt.Sprint(v)}
	}
	mids := []string{"", "block", "segment"}
	// (a) one series, every ordered pair of values, every rotation between and after
	for i := range vals {
		for k := range vals {
			for _, mid := range mids {
				for _, end := range []string{"", "segment", "restart"} {
					steps := []c08Step{put(0, vals[i])}
					if mid != "" {
						steps = append(steps, c08Step{Op: mid})
					}
					steps = append(steps, put(0, vals[k]))
					if end == "restart" && tier != "thorough" && (i+k)%3 != 0 {
						continue // restarts cost ~0.5 s: quick keeps a third of them
					}
					if end != "" {
						steps = append(steps, c08Step{Op: end})
					}
					emit(c08Job{Series: alpha[:1], Steps: steps})
				}
			}
		}
	}
	// (b) every ordered pair of distinct series (collision-prone tag sets), values 1 and 2, rotations between
	for a := range alpha {
		for b := range alpha {
			if a == b {
				continue
			}
			for _, mid := range mids {
				for _, end := range []string{"", "segment"} {
					steps := []c08Step{put(0, 1), put(1, 2)}
					if mid != "" {
						steps = []c08Step{put(0, 1), {Op: mid}, put(1, 2)}
					}
					steps = append(steps, put(0, 3))
					if end != "" {
						steps = append(steps, c08Step{Op: end})
					}
					emit(c08Job{Series: []MSeries{alpha[a], alpha[b]}, Steps: steps})
				}
			}
		}
	}
	// (d) one series with n1 datapoints in one block and n2 in the next (read back as two partial series that have to be
	// joined): every n1, n2 ≤ 12 and a few larger pairs, the second block left open or rotated too
	type pair struct{ a, b int }
	var pairs []pair
	maxn := 6
	if tier == "thorough" {
		maxn = 12
	}
	for a := 1; a <= maxn; a++ {
		for b := 1; b <= maxn; b++ {
			pairs = append(pairs, pair{a, b})
		}
	}
	pairs = append(pairs, pair{8, 5}, pair{9, 3}, pair{30, 15}, pair{60, 50}, pair{100, 12}, pair{12, 100})
	for _, pr := range pairs {
		for _, end := range []string{"", "block", "segment"} {
			steps := []c08Step{{Op: "puts", Count: pr.a}, {Op: "block"}, {Op: "puts", Count: pr.b}}
			if end != "" {
				steps = append(steps, c08Step{Op: end})
			}
			emit(c08Job{Series: alpha[:1], Steps: steps})
		}
	}
	if tier == "thorough" {
		// (c) three puts on one series over the value alphabet with all rotation placements
		for i := range vals {
			for k := range vals {
				for l := range vals {
					for _, m1 := range mids {
						for _, m2 := range mids {
							steps := []c08Step{put(0, vals[i])}
							if m1 != "" {
								steps = append(steps, c08Step{Op: m1})
							}
							steps = append(steps, put(0, vals[k]))
							if m2 != "" {
								steps = append(steps, c08Step{Op: m2})
							}
							steps = append(steps, put(0, vals[l]), c08Step{Op: "segment"})
							emit(c08Job{Series: alpha[:1], Steps: steps})
						}
					}
				}
			}
		}
	}
}

func c08E2E(rep *kernel.Report) {
	d := &Driver[c08Job]{Rep: rep, Pool: serverPool(),
		Budget:    kernel.NewBudget(map[string]time.Duration{"quick": 150 * time.Second, "thorough": 30 * time.Minute}[rep.Tier]),
		Enumerate: func(emit func(c08Job)) { c08EnumerateE2E(rep.Tier, emit) },
		Run:       c08RunE2E,
		Key:       func(j *c08Job) string { return jstr(j) },
		Nontrivial: func(j *c08Job) bool {
			return len(j.Series) >= 2 || len(j.Steps) >= 3
		},
	}
	d.Drive()
	rep.Bounds["e2e_series_alphabet"] = len(c08SeriesAlphabet())
	rep.Bounds["e2e_values"] = len(c08E2EValues())
}

func c08ReplayE2E(doc json.RawMessage) int {
	return MakeReplayer[c08Job]("C08", "exploration", serverPool, c08RunE2E)(doc)
}
