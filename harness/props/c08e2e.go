package props

import (
	"encoding/json"

	"verif/harness/kernel"
)

func c08E2E(rep *kernel.Report)               {}
func c08ReplayE2E(doc json.RawMessage) int { return 2 }
