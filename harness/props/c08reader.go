package props

import (
	"fmt"
	"sort"
	"strconv"
	"strings"
	"sync"

	"verif/harness/kernel"
)

// C08 part R — the per-block series reader keeps a cursor between look-ups (the next look-up searches only one side
// of the previous position). Every sequence of distinct look-ups, present and absent series mixed, on a real block
// written by the real writer must return exactly the stored points of each present series and "not found" for the
// others, whatever was looked up before. (In a query the order of look-ups is the iteration order of a Go map.)

type c08ReaderJob struct {
	Series int      `json:"series"` // series in the block
	Order  []string `json:"order"`  // logical look-up order: p0..p{n-1} present (ascending tsid), a0 below all, a1 between p0 and p1, a2 above all
}

type c08Block struct {
	Tsg   string
	Tsids []uint64
	Truth map[uint64][][2]uint64
}

func c08BuildBlock(w *kernel.Worker, n int, tag string) (*c08Block, error) {
	name := "c08rd" + tag
	base := uint32(1_700_000_000)
	for i := 0; i < n; i++ {
		for t := 0; t < 2; t++ {
			ok, raw, err := mPutLight(w, name, map[string]string{"s": fmt.Sprintf("v%d", i)}, base+uint32(t), float64(10*i+t)+0.5)
			if err != nil {
				return nil, err
			}
			if !ok {
				return nil, fmt.Errorf("datapoint rejected: %s", raw)
			}
		}
	}
	if err := w.Call("mrotate", map[string]interface{}{"kind": "block"}, nil); err != nil {
		return nil, err
	}
	var dump map[string][]struct {
		Tsid   uint64      `json:"tsid"`
		Points [][2]uint64 `json:"points"`
		Err    string      `json:"err"`
	}
	if err := w.Call("mdumpfiles", nil, &dump); err != nil {
		return nil, err
	}
	for p, list := range dump {
		if len(list) == n {
			b := &c08Block{Tsg: p, Truth: map[uint64][][2]uint64{}}
			for _, s := range list {
				if s.Err != "" {
					return nil, fmt.Errorf("block file %s: %s", p, s.Err)
				}
				b.Tsids = append(b.Tsids, s.Tsid)
				b.Truth[s.Tsid] = s.Points
			}
			sort.Slice(b.Tsids, func(i, j int) bool { return b.Tsids[i] < b.Tsids[j] })
			return b, nil
		}
	}
	return nil, fmt.Errorf("no block file with %d series found: %v", n, sortedKeys(dump))
}

func mPutLight(w *kernel.Worker, metric string, tags map[string]string, ts uint32, v float64) (bool, string, error) {
	var ts2 []string
	for _, k := range sortedKeys(tags) {
		ts2 = append(ts2, fmt.Sprintf("%q:%q", k, tags[k]))
	}
	js := fmt.Sprintf(`{"metric":%q,"tags":{%s},"timestamp":%d,"value":%s}`, metric, strings.Join(ts2, ","), ts, fmtFloatJSON(v))
	var r struct {
		Accepted bool   `json:"accepted"`
		Err      string `json:"err"`
	}
	if err := w.Call("mputl", map[string]interface{}{"json": js, "org": 0}, &r); err != nil {
		return false, "", err
	}
	return r.Accepted, r.Err, nil
}

// per worker: one block per series count
var c08Blocks = map[string]*c08Block{}
var c08BlocksMu sync.Mutex

func c08ReaderRun(w *kernel.Worker, j *c08ReaderJob, rep *kernel.Report) (*Fail, error) {
	die := func(err error) (*Fail, error) {
		fp, what, herr := diedResult("C08", err)
		if herr != nil {
			return nil, herr
		}
		return &Fail{FP: fp + "/block-reader", What: fmt.Sprintf("look-up order %v: %s", j.Order, what)}, nil
	}
	key := fmt.Sprintf("%s|%d", w.Dir, j.Series)
	c08BlocksMu.Lock()
	b := c08Blocks[key]
	c08BlocksMu.Unlock()
	if b == nil {
		var err error
		b, err = c08BuildBlock(w, j.Series, fmt.Sprintf("%d", j.Series))
		if err != nil {
			if _, ok := err.(*kernel.Died); ok {
				return die(err)
			}
			return nil, err
		}
		c08BlocksMu.Lock()
		c08Blocks[key] = b
		c08BlocksMu.Unlock()
	}
	resolve := func(l string) uint64 {
		k, _ := strconv.Atoi(l[1:])
		if l[0] == 'p' {
			return b.Tsids[k]
		}
		switch k {
		case 0:
			return b.Tsids[0] - 1
		case 1:
			return b.Tsids[0] + 1 // between the first two (tsids are 64-bit hashes: neighbours are free)
		}
		return b.Tsids[len(b.Tsids)-1] + 1
	}
	var order []string
	for _, l := range j.Order {
		order = append(order, strconv.FormatUint(resolve(l), 10))
	}
	var r struct {
		InitErr string `json:"initErr"`
		Lookups []struct {
			Tsid   string      `json:"tsid"`
			Found  bool        `json:"found"`
			Err    string      `json:"err"`
			Points [][2]uint64 `json:"points"`
		} `json:"lookups"`
	}
	if err := w.Call("mseriesread", map[string]interface{}{"tsg": b.Tsg, "order": order}, &r); err != nil {
		return die(err)
	}
	rep.Eval(1)
	rep.Transition(int64(len(order)))
	if r.InitErr != "" || len(r.Lookups) != len(order) {
		return &Fail{FP: "C08/block-reader/init", What: fmt.Sprintf("block %s: %s %v", b.Tsg, r.InitErr, r.Lookups)}, nil
	}
	for i, l := range r.Lookups {
		id := resolve(j.Order[i])
		want, present := b.Truth[id]
		ctx := fmt.Sprintf("block with %d series, look-ups in the order %v: look-up %d (%s)", j.Series, j.Order, i+1, j.Order[i])
		switch {
		case present && !l.Found:
			return &Fail{FP: "C08/block-reader/present-series-not-found", What: ctx + ": the series is stored in the block but the reader reports it as not found"}, nil
		case !present && l.Found:
			return &Fail{FP: "C08/block-reader/absent-series-found", What: ctx + fmt.Sprintf(": no such series in the block, the reader returned points %v", l.Points)}, nil
		case present && (l.Err != "" || fmt.Sprint(l.Points) != fmt.Sprint(want)):
			return &Fail{FP: "C08/block-reader/wrong-points", What: ctx + fmt.Sprintf(": returned %v %s, stored %v", l.Points, l.Err, want)}, nil
		}
	}
	return nil, nil
}

func c08Reader(rep *kernel.Report, budget *kernel.Budget) {
	depth := 3
	if rep.Tier == "thorough" {
		depth = 4
	}
	var jobs []c08ReaderJob
	for _, n := range []int{1, 2, 4} {
		var u []string
		for i := 0; i < n; i++ {
			u = append(u, fmt.Sprintf("p%d", i))
		}
		u = append(u, "a0", "a1", "a2")
		var rec func(cur []string)
		rec = func(cur []string) {
			if len(cur) > 0 {
				jobs = append(jobs, c08ReaderJob{Series: n, Order: append([]string{}, cur...)})
			}
			if len(cur) == depth {
				return
			}
			for _, x := range u {
				dup := false
				for _, c := range cur {
					if c == x {
						dup = true
					}
				}
				if !dup {
					rec(append(cur, x))
				}
			}
		}
		rec(nil)
	}
	pool := logPool()
	pool.RecycleEvery = 0
	d := &Driver[c08ReaderJob]{Rep: rep, Pool: pool, Budget: budget,
		Enumerate: func(emit func(c08ReaderJob)) {
			for _, j := range jobs {
				emit(j)
			}
		},
		Run: c08ReaderRun,
		Key: func(j *c08ReaderJob) string { return fmt.Sprintf("reader|%d|%v", j.Series, j.Order) },
		Nontrivial: func(j *c08ReaderJob) bool {
			abs, pres := false, false
			for _, l := range j.Order {
				if l[0] == 'a' {
					abs = true
				} else {
					pres = true
				}
			}
			return abs && pres && len(j.Order) >= 2
		},
	}
	d.Drive()
	rep.Set("reader_lookup_sequences", len(jobs))
}
