package props

import (
	"encoding/json"
	"fmt"
	"math"
	"sort"
	"strconv"
	"strings"
	"sync"
	"sync/atomic"
	"time"

	"verif/harness/kernel"
)

// C08 part R — the per-block series reader keeps a cursor between look-ups (the next look-up searches only one side
// of the previous position). Every sequence of distinct look-ups, present and absent series mixed, on a real block
// written by the real writer must return exactly the stored points of each present series and "not found" for the
// others, whatever was looked up before. (In a query the order of look-ups is the iteration order of a Go map.)

type c08ReaderJob struct {
	Series int      `json:"series"` // series in the block
	Order  []string `json:"order"`  // logical look-up order: p0..p{n-1} present (ascending tsid), a0 below all, a1 between p0 and p1, a2 above all
}

type c08Block struct {
	Tsg   string
	Tsids []uint64
	Truth map[uint64][][2]uint64
}

func c08BuildBlock(w *kernel.Worker, n int, tag string) (*c08Block, error) {
	name := "c08rd" + tag
	base := uint32(1_700_000_000)
	for i := 0; i < n; i++ {
		for t := 0; t < 2; t++ {
			ok, raw, err := mPutLight(w, name, map[string]string{"s": fmt.Sprintf("v%d", i)}, base+uint32(t), float64(10*i+t)+0.5)
			if err != nil {
				return nil, err
			}
			if !ok {
				return nil, fmt.Errorf("datapoint rejected: %s", raw)
			}
		}
	}
	if err := w.Call("mrotate", map[string]interface{}{"kind": "block"}, nil); err != nil {
		return nil, err
	}
	var dump map[string][]struct {
		Tsid   uint64      `json:"tsid"`
		Points [][2]uint64 `json:"points"`
		Err    string      `json:"err"`
	}
	if err := w.Call("mdumpfiles", nil, &dump); err != nil {
		return nil, err
	}
	for p, list := range dump {
		if len(list) == n {
			b := &c08Block{Tsg: p, Truth: map[uint64][][2]uint64{}}
			for _, s := range list {
				if s.Err != "" {
					return nil, fmt.Errorf("block file %s: %s", p, s.Err)
				}
				b.Tsids = append(b.Tsids, s.Tsid)
				b.Truth[s.Tsid] = s.Points
			}
			sort.Slice(b.Tsids, func(i, j int) bool { return b.Tsids[i] < b.Tsids[j] })
			return b, nil
		}
	}
	return nil, fmt.Errorf("no block file with %d series found: %v", n, sortedKeys(dump))
}

func mPutLight(w *kernel.Worker, metric string, tags map[string]string, ts uint32, v float64) (bool, string, error) {
	var ts2 []string
	for _, k := range sortedKeys(tags) {
		ts2 = append(ts2, fmt.Sprintf("%q:%q", k, tags[k]))
	}
	js := fmt.Sprintf(`{"metric":%q,"tags":{%s},"timestamp":%d,"value":%s}`, metric, strings.Join(ts2, ","), ts, fmtFloatJSON(v))
	var r struct {
		Accepted bool   `json:"accepted"`
		Err      string `json:"err"`
	}
	if err := w.Call("mputl", map[string]interface{}{"json": js, "org": 0}, &r); err != nil {
		return false, "", err
	}
	return r.Accepted, r.Err, nil
}

// per worker: one block per series count
var c08Blocks = map[string]*c08Block{}
var c08BlocksMu sync.Mutex

func c08ReaderRun(w *kernel.Worker, j *c08ReaderJob, rep *kernel.Report) (*Fail, error) {
	die := func(err error) (*Fail, error) {
		fp, what, herr := diedResult("C08", err)
		if herr != nil {
			return nil, herr
		}
		return &Fail{FP: fp + "/block-reader", What: fmt.Sprintf("look-up order %v: %s", j.Order, what)}, nil
	}
	key := fmt.Sprintf("%s|%d", w.Dir, j.Series)
	c08BlocksMu.Lock()
	b := c08Blocks[key]
	c08BlocksMu.Unlock()
	if b == nil {
		var err error
		b, err = c08BuildBlock(w, j.Series, fmt.Sprintf("%d", j.Series))
		if err != nil {
			if _, ok := err.(*kernel.Died); ok {
				return die(err)
			}
			return nil, err
		}
		c08BlocksMu.Lock()
		c08Blocks[key] = b
		c08BlocksMu.Unlock()
	}
	resolve := func(l string) uint64 {
		k, _ := strconv.Atoi(l[1:])
		if l[0] == 'p' {
			return b.Tsids[k]
		}
		switch k {
		case 0:
			return b.Tsids[0] - 1
		case 1:
			return b.Tsids[0] + 1 // between the first two (tsids are 64-bit hashes: neighbours are free)
		}
		return b.Tsids[len(b.Tsids)-1] + 1
	}
	var order []string
	for _, l := range j.Order {
		order = append(order, strconv.FormatUint(resolve(l), 10))
	}
	var r struct {
		InitErr string `json:"initErr"`
		Lookups []struct {
			Tsid   string      `json:"tsid"`
			Found  bool        `json:"found"`
			Err    string      `json:"err"`
			Points [][2]uint64 `json:"points"`
		} `json:"lookups"`
	}
	if err := w.Call("mseriesread", map[string]interface{}{"tsg": b.Tsg, "order": order}, &r); err != nil {
		return die(err)
	}
	rep.Eval(1)
	rep.Transition(int64(len(order)))
	if r.InitErr != "" || len(r.Lookups) != len(order) {
		return &Fail{FP: "C08/block-reader/init", What: fmt.Sprintf("block %s: %s %v", b.Tsg, r.InitErr, r.Lookups)}, nil
	}
	for i, l := range r.Lookups {
		id := resolve(j.Order[i])
		want, present := b.Truth[id]
		ctx := fmt.Sprintf("block with %d series, look-ups in the order %v: look-up %d (%s)", j.Series, j.Order, i+1, j.Order[i])
		switch {
		case present && !l.Found:
			return &Fail{FP: "C08/block-reader/present-series-not-found", What: ctx + ": the series is stored in the block but the reader reports it as not found"}, nil
		case !present && l.Found:
			return &Fail{FP: "C08/block-reader/absent-series-found", What: ctx + fmt.Sprintf(": no such series in the block, the reader returned points %v", l.Points)}, nil
		case present && (l.Err != "" || fmt.Sprint(l.Points) != fmt.Sprint(want)):
			return &Fail{FP: "C08/block-reader/wrong-points", What: ctx + fmt.Sprintf(": returned %v %s, stored %v", l.Points, l.Err, want)}, nil
		}
	}
	return nil, nil
}

func c08Reader(rep *kernel.Report, budget *kernel.Budget) {
	depth := 3
	if rep.Tier == "thorough" {
		depth = 4
	}
	var jobs []c08ReaderJob
	for _, n := range []int{1, 2, 4} {
		var u []string
		for i := 0; i < n; i++ {
			u = append(u, fmt.Sprintf("p%d", i))
		}
		u = append(u, "a0", "a1", "a2")
		var rec func(cur []string)
		rec = func(cur []string) {
			if len(cur) > 0 {
				jobs = append(jobs, c08ReaderJob{Series: n, Order: append([]string{}, cur...)})
			}
			if len(cur) == depth {
				return
			}
			for _, x := range u {
				dup := false
				for _, c := range cur {
					if c == x {
						dup = true
					}
				}
				if !dup {
					rec(append(cur, x))
				}
			}
		}
		rec(nil)
	}
	pool := logPool()
	pool.RecycleEvery = 0
	d := &Driver[c08ReaderJob]{Rep: rep, Pool: pool, Budget: budget,
		Enumerate: func(emit func(c08ReaderJob)) {
			for _, j := range jobs {
				emit(j)
			}
		},
		Run: c08ReaderRun,
		Key: func(j *c08ReaderJob) string { return fmt.Sprintf("reader|%d|%v", j.Series, j.Order) },
		Nontrivial: func(j *c08ReaderJob) bool {
			abs, pres := false, false
			for _, l := range j.Order {
				if l[0] == 'a' {
					abs = true
				} else {
					pres = true
				}
			}
			return abs && pres && len(j.Order) >= 2
		},
	}
	d.Drive()
	rep.Set("reader_lookup_sequences", len(jobs))
}

// C08 part V — two ingest calls for one series at once. The first datapoint of a series creates the series in the open
// block; a second ingest of the same series that runs while the first is held at any of its lock operations must not
// lose either datapoint (vsched: hold at every lock operation, the other call runs to completion).

type c08VJob struct {
	NewSeries bool  `json:"newSeries"` // the series does not exist in the block yet (else it already holds one datapoint)
	PauseAt   int64 `json:"pauseAt"`
}

var c08VSeq int64

func c08VRun(w *kernel.Worker, j *c08VJob, rep *kernel.Report) (*Fail, error) {
	die := func(err error) (*Fail, error) {
		if d, ok := err.(*kernel.Died); ok {
			clause := "crash"
			if d.Timeout {
				clause = "deadlock-or-hang"
			}
			return &Fail{FP: "C08/" + clause + "/two-ingests/" + d.Frame, What: fmt.Sprintf("schedule %s: %s\n%s", jstr(j), d.Exit, trunc(d.Stderr, 2000))}, nil
		}
		return nil, err
	}
	name := fmt.Sprintf("c08v%d", atomic.AddInt64(&c08VSeq, 1))
	dp := func(t int, v float64) string {
		return fmt.Sprintf(`{"metric":%q,"tags":{"s":"x"},"timestamp":%d,"value":%s}`, name, MT0+uint32(t), fmtFloatJSON(v))
	}
	want := map[uint32]uint64{MT0 + 1: math.Float64bits(1.5), MT0 + 2: math.Float64bits(2.5)}
	if !j.NewSeries {
		if ok, raw, err := mPutLight(w, name, map[string]string{"s": "x"}, MT0, 0.5); err != nil || !ok {
			if err != nil {
				return die(err)
			}
			return &Fail{FP: "C08/harness-put", What: raw}, nil
		}
		want[MT0] = math.Float64bits(0.5)
	}
	var r schedRes
	if err := w.CallT("schedrun", map[string]interface{}{"x": []schedStep{{Op: "mput", Event: dp(1, 1.5)}}, "y": []schedStep{{Op: "mput", Event: dp(2, 2.5)}}, "pauseAt": j.PauseAt}, &r, 90*time.Second); err != nil {
		return die(err)
	}
	rep.Eval(1)
	rep.Transition(2)
	where := "—"
	if r.Paused {
		where = r.PausedAt
		rep.Nontrivial(jstr(j))
	}
	for _, sr := range append(append([]schedStepRes{}, r.X...), r.Y...) {
		if sr.Err != "" {
			return &Fail{FP: "C08/two-ingests/rejected", What: fmt.Sprintf("schedule %s (held at %s): %s", jstr(j), where, sr.Err)}, nil
		}
	}
	if err := w.Call("mrotate", map[string]interface{}{"kind": "block"}, nil); err != nil {
		return die(err)
	}
	var dump map[string][]struct {
		Tsid   uint64      `json:"tsid"`
		Points [][2]uint64 `json:"points"`
		Err    string      `json:"err"`
	}
	if err := w.Call("mdumpfiles", nil, &dump); err != nil {
		return die(err)
	}
	// the series of this job: the one whose points are a subset of what was sent and that holds the value 1.5 or 2.5 at +1/+2
	got := map[uint32]int{}
	for _, list := range dump {
		for _, sr := range list {
			mine := len(sr.Points) > 0
			for _, p := range sr.Points {
				if b, ok := want[uint32(p[0])]; !ok || b != p[1] {
					mine = false
				}
			}
			_ = mine
		}
	}
	// identify by a range query instead (series identity is the metric name, unique per job)
	var qr httpRes
	if err := w.Call("mqueryl", map[string]interface{}{"q": name, "start": MT0 - 5, "end": MT0 + 10, "org": 0}, &qr); err != nil {
		return die(err)
	}
	var pr struct {
		Data struct {
			Result []struct {
				Values [][]interface{} `json:"values"`
			} `json:"result"`
		} `json:"data"`
	}
	_ = json.Unmarshal([]byte(qr.Body), &pr)
	for _, sr := range pr.Data.Result {
		for _, v := range sr.Values {
			if len(v) == 2 {
				if f, ok := v[0].(float64); ok {
					got[uint32(f)]++
				}
			}
		}
	}
	site := where
	if i := strings.LastIndex(site, ":"); i > 0 {
		site = site[:i]
	}
	fs := &Fails{}
	ctx := fmt.Sprintf("series %s, first ingest held at its lock operation %d (%s) while a second ingest for the same series ran; after a block rotation", map[bool]string{true: "new in the block", false: "already in the block"}[j.NewSeries], j.PauseAt, where)
	for ts := range want {
		switch got[ts] {
		case 1:
		case 0:
			fs.Add("C08/two-ingests/accepted-datapoint-lost/"+site, ctx+fmt.Sprintf(": the accepted datapoint at +%d is not returned (returned timestamps %v)", ts-MT0, got))
		default:
			fs.Add("C08/two-ingests/datapoint-duplicated/"+site, ctx+fmt.Sprintf(": the datapoint at +%d is returned %d times", ts-MT0, got[ts]))
		}
	}
	return fs.Result(), nil
}

func c08TwoIngests(rep *kernel.Report, budget *kernel.Budget) {
	pool := logPool()
	pool.RecycleEvery = 100
	points := map[bool]int64{}
	dw, err := pool.BootWorker()
	if err != nil {
		rep.HarnessError(err.Error())
		return
	}
	for _, nw := range []bool{true, false} {
		name := fmt.Sprintf("c08vd%d", atomic.AddInt64(&c08VSeq, 1))
		if !nw {
			_, _, _ = mPutLight(dw, name, map[string]string{"s": "x"}, MT0, 0.5)
		}
		var r schedRes
		js := fmt.Sprintf(`{"metric":%q,"tags":{"s":"x"},"timestamp":%d,"value":1.5}`, name, MT0+1)
		if err := dw.Call("schedrun", map[string]interface{}{"x": []schedStep{{Op: "mput", Event: js}}, "y": []schedStep{}, "pauseAt": 0}, &r); err != nil {
			rep.HarnessError("C08 two-ingests dry run: " + err.Error())
			dw.Close()
			return
		}
		points[nw] = r.Points
		if nw {
			rep.Sample(map[string]interface{}{"lock_operations_of_a_first_datapoint": r.Labels})
		}
	}
	dw.Close()
	d := &Driver[c08VJob]{Rep: rep, Pool: pool, Budget: budget,
		Enumerate: func(emit func(c08VJob)) {
			for _, nw := range []bool{true, false} {
				for k := int64(1); k <= points[nw]+1; k++ {
					emit(c08VJob{NewSeries: nw, PauseAt: k})
				}
			}
		},
		Run:        c08VRun,
		Key:        func(j *c08VJob) string { return "two-ingests|" + jstr(j) },
		Nontrivial: func(j *c08VJob) bool { return false },
	}
	d.Drive()
	rep.Set("v_lock_operations_of_a_datapoint", map[string]int64{"new series": points[true], "existing series": points[false]})
}
