package props

import (
	"fmt"
	"math"
	"regexp"
	"sort"
	"strings"
	"sync/atomic"
	"time"

	"verif/harness/kernel"
)

// C09 — metric queries compute PromQL-consistent answers. seqx: every non-empty subset of a 2×2 label universe ×
// layouts × (all matcher sets ≤ 2, all aggregation/grouping clauses, vector arithmetic), reference promqlmodel.

type c09Job struct {
	Mask   int    `json:"mask"`   // which of the 4 series of metric m exist (bit i)
	Layout string `json:"layout"` // open | block | segment | restart
}

var c09Labels = []map[string]string{
	// the second value of each label extends the first, so that a pattern alternative can match a proper prefix or suffix
	{"job": "a", "inst": "1"}, {"job": "a", "inst": "12"}, {"job": "ab", "inst": "1"}, {"job": "ab", "inst": "12"},
}

const c09Steps = 3

func c09Value(metric string, i int, t int) float64 {
	base := float64(i+1) + 10*float64(t)
	if metric == "n" {
		return base*2 + 1
	}
	return base
}

type c09Matcher struct{ Label, Op, Val string }

func (m c09Matcher) String() string { return fmt.Sprintf(`%s%s%q`, m.Label, m.Op, m.Val) }

func (m c09Matcher) match(labels map[string]string) bool {
	v := labels[m.Label] // absent label = ""
	switch m.Op {
	case "=":
		return v == m.Val
	case "!=":
		return v != m.Val
	case "=~", "!~":
		re, err := regexp.Compile("^(?:" + m.Val + ")$")
		if err != nil {
			return false
		}
		ok := re.MatchString(v)
		if m.Op == "=~" {
			return ok
		}
		return !ok
	}
	return false
}

func c09Matchers() [][]c09Matcher {
	vals := map[string][]string{"job": {"a", "ab", "a|b", ".*", ".+", ""}, "inst": {"1", "12", "1|2", ".*", ".+", ""},
		"zz": {"x", ".*", ""}} // zz: a label no series carries (absent = empty)
	ops := []string{"=", "!=", "=~", "!~"}
	var single [][]c09Matcher
	byLabel := map[string][]c09Matcher{}
	for _, l := range []string{"job", "inst", "zz"} {
		for _, op := range ops {
			for _, v := range vals[l] {
				m := c09Matcher{l, op, v}
				single = append(single, []c09Matcher{m})
				byLabel[l] = append(byLabel[l], m)
			}
		}
	}
	out := single
	for _, a := range byLabel["job"] {
		for _, b := range byLabel["inst"] {
			out = append(out, []c09Matcher{a, b})
		}
		for _, b := range byLabel["zz"] {
			out = append(out, []c09Matcher{a, b})
		}
	}
	return out
}

type c09Vec map[string]map[uint32]float64 // label-set key -> ts -> value

func lkey(l map[string]string) string {
	var parts []string
	for _, k := range sortedKeys(l) {
		if k == "__name__" {
			continue
		}
		parts = append(parts, k+"="+l[k])
	}
	return "{" + strings.Join(parts, ",") + "}"
}

var c09RunSeq int64

func c09Run(w0 *kernel.Worker, j *c09Job, rep *kernel.Report) (*Fail, error) {
	w := w0
	defer func() {
		if w != w0 {
			w.Close()
		}
		if j.Layout == "segment" {
			w0.Kill()
		}
	}()
	die := func(err error) (*Fail, error) {
		fp, what, herr := diedResult("C09", err)
		if herr != nil {
			return nil, herr
		}
		return &Fail{FP: fp, What: what}, nil
	}
	suffix := fmt.Sprintf("_%d_%d", time.Now().UnixNano()%1_000_000_000, atomic.AddInt64(&c09RunSeq, 1))
	mName, nName := "m"+suffix, "n"+suffix
	var present []int
	for i := 0; i < 4; i++ {
		if j.Mask&(1<<i) != 0 {
			present = append(present, i)
		}
	}
	// metric n exists on the series with even index that are present in m plus series 3 (so label sets differ between m and n)
	nPresent := map[int]bool{}
	for _, i := range present {
		if i%2 == 0 {
			nPresent[i] = true
		}
	}
	nPresent[3] = true
	for t := 0; t < c09Steps; t++ {
		ts := MT0 + 1 + uint32(t)
		for _, i := range present {
			ok, raw, err := mPut(w, MSeries{mName, c09Labels[i]}, ts, c09Value("m", i, t))
			if err != nil {
				return die(err)
			}
			if !ok {
				return &Fail{FP: "C09/put-rejected", What: raw}, nil
			}
		}
		for i := range nPresent {
			ok, raw, err := mPut(w, MSeries{nName, c09Labels[i]}, ts, c09Value("n", i, t))
			if err != nil {
				return die(err)
			}
			if !ok {
				return &Fail{FP: "C09/put-rejected", What: raw}, nil
			}
		}
		rep.Transition(int64(len(present) + len(nPresent)))
		if t == 0 && (j.Layout == "block" || j.Layout == "segment") {
			var r map[string]interface{}
			if err := w.Call("mrotate", map[string]interface{}{"kind": j.Layout}, &r); err != nil {
				return die(err)
			}
			if r != nil && r["error"] != nil {
				return &Fail{FP: "C09/rotate-error/" + j.Layout, What: fmt.Sprint(r["error"])}, nil
			}
		}
	}
	if j.Layout == "restart" {
		nw, err := restartWorker(w)
		if err != nil {
			return &Fail{FP: "C09/restart-failed", What: err.Error()}, nil
		}
		w = nw
	}
	// model vectors
	mVec, nVec := c09Vec{}, c09Vec{}
	mLabels, nLabels := map[string]map[string]string{}, map[string]map[string]string{}
	for _, i := range present {
		k := lkey(c09Labels[i])
		mVec[k] = map[uint32]float64{}
		mLabels[k] = c09Labels[i]
		for t := 0; t < c09Steps; t++ {
			mVec[k][MT0+1+uint32(t)] = c09Value("m", i, t)
		}
	}
	for i := range nPresent {
		k := lkey(c09Labels[i])
		nVec[k] = map[uint32]float64{}
		nLabels[k] = c09Labels[i]
		for t := 0; t < c09Steps; t++ {
			nVec[k][MT0+1+uint32(t)] = c09Value("n", i, t)
		}
	}
	fs := &Fails{}
	ctx := fmt.Sprintf("series mask=%04b layout=%s", j.Mask, j.Layout)
	check := func(class, q string, want c09Vec) error {
		res, status, raw, err := mQueryRange(w, q, MT0-10, MT0+100)
		if err != nil {
			return err
		}
		rep.Eval(1)
		show := strings.ReplaceAll(strings.ReplaceAll(q, mName, "m"), nName, "n")
		if status != "ok" {
			fs.Add("C09/query-error/"+class, ctx+" query="+show+": "+status+" "+trunc(raw, 200))
			return nil
		}
		got := c09Vec{}
		for _, r := range res {
			k := lkey(r.Labels)
			if _, dup := got[k]; dup {
				fs.Add("C09/duplicate-series/"+class, ctx+" query="+show+": label set "+k+" returned twice")
			}
			got[k] = map[uint32]float64{}
			for _, p := range r.Points {
				got[k][p.TS] = math.Float64frombits(p.Bits)
			}
		}
		for k, pts := range want {
			g, ok := got[k]
			if !ok {
				fs.Add("C09/missing/"+class, ctx+" query="+show+fmt.Sprintf(": expected series %s missing; got %v", k, sortedKeys(got)))
				continue
			}
			for ts, v := range pts {
				gv, ok := g[ts]
				if !ok {
					fs.Add("C09/missing-point/"+class, ctx+" query="+show+fmt.Sprintf(": series %s has no value at %d", k, ts))
				} else if !approxEq(gv, v) {
					fs.Add("C09/value/"+class, ctx+" query="+show+fmt.Sprintf(": series %s at t+%d = %v, want %v", k, ts-MT0, gv, v))
				}
			}
			for ts, gv := range g {
				if _, ok := pts[ts]; !ok {
					fs.Add("C09/extra-point/"+class, ctx+" query="+show+fmt.Sprintf(": series %s has a value %v at %d where no member series has a sample", k, gv, ts))
				}
			}
		}
		for k := range got {
			if _, ok := want[k]; !ok {
				fs.Add("C09/extra-series/"+class, ctx+" query="+show+fmt.Sprintf(": unexpected series %s (want %v)", k, sortedKeys(want)))
			}
		}
		if len(want) > 0 && len(want) < len(mVec) || strings.Contains(class, "agg") || strings.Contains(class, "binary") {
			rep.Nontrivial(fmt.Sprintf("%04b|%s|%s", j.Mask, j.Layout, show))
		}
		return nil
	}
	// (1) selectors
	for _, ms := range c09Matchers() {
		var parts []string
		for _, m := range ms {
			parts = append(parts, m.String())
		}
		q := mName + "{" + strings.Join(parts, ",") + "}"
		want := c09Vec{}
		for k, l := range mLabels {
			ok := true
			for _, m := range ms {
				if !m.match(l) {
					ok = false
				}
			}
			if ok {
				want[k] = mVec[k]
			}
		}
		opClass := ""
		for _, m := range ms {
			opClass += m.Op
		}
		cls := "selector" + opClass
		for _, m := range ms {
			if m.Label == "zz" {
				cls = "selector-on-a-label-no-series-carries" // one root cause, whatever the operators
			}
		}
		if err := check(cls, q, want); err != nil {
			return die(err)
		}
	}
	// (2) aggregations
	groupings := []struct {
		clause string
		keep   func(l map[string]string) map[string]string
	}{
		{"", func(l map[string]string) map[string]string { return map[string]string{} }},
		{" by (job)", func(l map[string]string) map[string]string { return map[string]string{"job": l["job"]} }},
		{" by (inst)", func(l map[string]string) map[string]string { return map[string]string{"inst": l["inst"]} }},
		{" by (job, inst)", func(l map[string]string) map[string]string {
			return map[string]string{"job": l["job"], "inst": l["inst"]}
		}},
		{" without (inst)", func(l map[string]string) map[string]string { return map[string]string{"job": l["job"]} }},
		{" without (job, inst)", func(l map[string]string) map[string]string { return map[string]string{} }},
	}
	// the aggregated vector is the metric itself or a selection of it by matchers on a label that is not (only) the grouping key
	selections := [][]c09Matcher{nil, {{"inst", "=~", ".+"}}, {{"inst", "!=", "zz"}}, {{"job", "=~", "a.*"}}, {{"inst", "!=", "1"}}, {{"job", "!~", "ab"}, {"inst", "=~", "1|12"}}}
	for _, agg := range []string{"sum", "min", "max", "avg", "count"} {
		for _, g := range groupings {
			for si, sel := range selections {
				want := c09Vec{}
				members := map[string][]string{}
				for k, l := range mLabels {
					ok := true
					for _, mt := range sel {
						if !mt.match(l) {
							ok = false
						}
					}
					if !ok {
						continue
					}
					gk := lkey(g.keep(l))
					members[gk] = append(members[gk], k)
				}
				for gk, ks := range members {
					want[gk] = map[uint32]float64{}
					for t := 0; t < c09Steps; t++ {
						ts := MT0 + 1 + uint32(t)
						var vs []float64
						for _, k := range ks {
							vs = append(vs, mVec[k][ts])
						}
						sort.Float64s(vs)
						s := 0.0
						for _, v := range vs {
							s += v
						}
						switch agg {
						case "sum":
							want[gk][ts] = s
						case "min":
							want[gk][ts] = vs[0]
						case "max":
							want[gk][ts] = vs[len(vs)-1]
						case "avg":
							want[gk][ts] = s / float64(len(vs))
						case "count":
							want[gk][ts] = float64(len(vs))
						}
					}
				}
				arg := mName
				if len(sel) > 0 {
					var ms []string
					for _, mt := range sel {
						ms = append(ms, mt.String())
					}
					arg = mName + "{" + strings.Join(ms, ",") + "}"
				}
				q := agg + g.clause + " (" + arg + ")"
				if g.clause == "" {
					q = agg + "(" + arg + ")"
				}
				cls := "agg-" + agg
				if si > 0 {
					cls = "agg-over-selection-" + agg
					if len(members) == 0 {
						cls = "agg-over-empty-selection-" + agg
					}
				}
				if g.clause == " without (job, inst)" {
					cls = "agg-without-all-labels"
				} else if strings.Contains(g.clause, "without") {
					cls += "-without"
				} else if g.clause != "" {
					cls += "-by"
				}
				if err := check(cls, q, want); err != nil {
					return die(err)
				}
			}
		}
	}
	// (3) vector arithmetic: label sets must match; scalar on the right
	for _, op := range []string{"+", "-", "*", "/"} {
		ap := func(a, b float64) float64 {
			switch op {
			case "+":
				return a + b
			case "-":
				return a - b
			case "*":
				return a * b
			}
			return a / b
		}
		want := c09Vec{}
		for k, pts := range mVec {
			if npts, ok := nVec[k]; ok {
				want[k] = map[uint32]float64{}
				for ts, v := range pts {
					want[k][ts] = ap(v, npts[ts])
				}
			}
		}
		if err := check("binary-vector", mName+" "+op+" "+nName, want); err != nil {
			return die(err)
		}
		wantS := c09Vec{}
		for k, pts := range mVec {
			wantS[k] = map[uint32]float64{}
			for ts, v := range pts {
				wantS[k][ts] = ap(v, 2)
			}
		}
		if err := check("binary-scalar", mName+" "+op+" 2", wantS); err != nil {
			return die(err)
		}
	}
	return fs.Result(), nil
}

func C09() int {
	rep := kernel.NewReport("C09", "exploration")
	rep.Rule = "metric m on every non-empty subset of the 4 series job∈{a,b}×inst∈{1,2} (second metric n on a different subset), 3 common timestamps, × layouts " +
		"{open, block rotation, size-triggered segment rotation, graceful restart}; all 624 matcher sets of ≤2 matchers (=,!=,=~,!~ × a, b, a|b, .*, .+, empty), " +
		"sum/min/max/avg/count × {none, by(job), by(inst), by(job,inst), without(inst), without(job,inst)}, m⊕n and m⊕2 for + − * /; compared per label set and " +
		"timestamp with a Go PromQL model. non-trivial = selector returning a proper non-empty subset, or any aggregation/binary query"
	rep.Assume = []string{"all series share the sample timestamps and windows are ≤ 360 s (1 s step), so no look-back/staleness rule is needed", "__name__ is ignored when comparing label sets"}
	d := &Driver[c09Job]{Rep: rep, Pool: serverPool(),
		Budget: kernel.NewBudget(map[string]time.Duration{"quick": 150 * time.Second, "thorough": 30 * time.Minute}[rep.Tier]),
		Enumerate: func(emit func(c09Job)) {
			lays := []string{"open", "block", "segment"}
			if rep.Tier == "thorough" {
				lays = append(lays, "restart")
			}
			for mask := 1; mask < 16; mask++ {
				for _, l := range lays {
					emit(c09Job{Mask: mask, Layout: l})
				}
			}
			if rep.Tier != "thorough" {
				emit(c09Job{Mask: 15, Layout: "restart"})
				emit(c09Job{Mask: 6, Layout: "restart"})
			}
		},
		Run:        c09Run,
		Key:        func(j *c09Job) string { return fmt.Sprintf("%d|%s", j.Mask, j.Layout) },
		Nontrivial: func(j *c09Job) bool { return false },
	}
	d.Drive()
	return rep.Finish()
}

func init() {
	Registry["C09"] = C09
	Replayers["C09"] = MakeReplayer[c09Job]("C09", "exploration", serverPool, c09Run)
}
