package props

import (
	"encoding/base64"
	"encoding/json"
	"fmt"
	"math"
	"sync"
	"time"

	"verif/harness/kernel"
)

// C10 — the metrics WAL replays a faithful prefix. Part M (mutfs): every truncation length and every single-byte
// modification of WAL files of three kinds through the real iterators. Part R (crashfs): see c10r.go.

type walDP struct {
	TS   uint32 `json:"ts"`
	Bits uint64 `json:"bits"`
	Tsid uint64 `json:"tsid"`
}

type c10MutJob struct {
	Kind   string `json:"kind"` // dp | mname | mmeta
	Mode   string `json:"mode"` // truncate | mutate
	Pos    int    `json:"pos"`
	Value  int    `json:"value"` // new byte value for mutate
	Write  bool   `json:"write,omitempty"`
	fileB  []byte
	wantDP []walDP
	wantS  []string
}

type walIterRes struct {
	OpenErr string   `json:"openErr"`
	Err     string   `json:"err"`
	DPs     []walDP  `json:"dps"`
	Names   []string `json:"names"`
}

func c10Frames() ([][]walDP, [][]string, [][]string) {
	f := func(v float64) uint64 { return math.Float64bits(v) }
	dps := [][]walDP{
		{{MT0 + 1, f(1.5), 11}, {MT0 + 1, f(-2), 12}},
		{{MT0 + 2, f(1e300), 11}, {MT0 + 3, f(0), 12}},
		{{MT0 + 4, f(math.Nextafter(1.5, 2)), 11}},
	}
	names := [][]string{{"cpu", "mem.used"}, {"disk"}, {"a-very-long-metric-name-0123456789", "x"}}
	metas := [][]string{{"ts/0/0/"}, {"ts/0/0/", "ts/1/0/"}, {"ts/2/1/"}}
	return dps, names, metas
}

func c10BuildFile(w *kernel.Worker, kind string, write bool) ([]byte, error) {
	dps, names, metas := c10Frames()
	args := map[string]interface{}{"kind": kind, "write": write}
	switch kind {
	case "dp":
		args["frames"] = dps
	case "mname":
		args["names"] = names
	case "mmeta":
		args["metas"] = metas
	}
	var r struct {
		File string `json:"file_b64"`
	}
	if err := w.Call("walbuild", args, &r); err != nil {
		return nil, err
	}
	return base64.StdEncoding.DecodeString(r.File)
}

func isPrefixDP(got, want []walDP) bool {
	if len(got) > len(want) {
		return false
	}
	for i := range got {
		if got[i] != want[i] {
			return false
		}
	}
	return true
}

func isPrefixS(got, want []string) bool {
	if len(got) > len(want) {
		return false
	}
	for i := range got {
		if got[i] != want[i] {
			return false
		}
	}
	return true
}

func c10Region(kind string, pos int, file []byte) string {
	// which part of the frame format the position falls into (version byte, length, checksum, payload)
	if pos == 0 {
		return "version"
	}
	off := 1
	for off < len(file) {
		if off+4 > len(file) {
			return "length"
		}
		l := int(uint32(file[off]) | uint32(file[off+1])<<8 | uint32(file[off+2])<<16 | uint32(file[off+3])<<24)
		switch {
		case pos < off+4:
			return "length"
		case pos < off+8:
			return "checksum"
		case pos < off+4+l:
			return "payload"
		}
		off += 4 + l
	}
	return "tail"
}

func c10RunMut(w *kernel.Worker, j *c10MutJob, rep *kernel.Report) (*Fail, error) {
	b := append([]byte{}, j.fileB...)
	region := c10Region(j.Kind, j.Pos, j.fileB)
	if j.Mode == "truncate" {
		b = b[:j.Pos]
	} else {
		b[j.Pos] = byte(j.Value)
	}
	var r walIterRes
	err := w.CallT("waliter", map[string]interface{}{"kind": j.Kind, "file_b64": base64.StdEncoding.EncodeToString(b)}, &r, 60*time.Second)
	rep.Eval(1)
	cls := j.Kind + "/" + j.Mode + "@" + region
	if err != nil {
		if d, ok := err.(*kernel.Died); ok {
			what := "no answer within 60 s"
			clause := "iterator-hang"
			if !d.Timeout {
				clause = "iterator-crash"
				what = d.Exit + " " + d.Frame + "\n" + trunc(d.Stderr, 1500)
			}
			return &Fail{FP: "C10/" + clause + "/" + cls, What: fmt.Sprintf("%s of byte %d (%s): %s", j.Mode, j.Pos, region, what)}, nil
		}
		return nil, err
	}
	ctx := fmt.Sprintf("%s wal, %s at byte %d (%s region)", j.Kind, j.Mode, j.Pos, region)
	if j.Mode == "mutate" {
		ctx += fmt.Sprintf(" %#02x→%#02x", j.fileB[j.Pos], j.Value)
	}
	if j.Kind == "dp" {
		if !isPrefixDP(r.DPs, j.wantDP) {
			return &Fail{FP: "C10/not-a-prefix/" + cls, What: ctx + fmt.Sprintf(": iterator yielded %v (err=%q); appended %v", r.DPs, r.Err, j.wantDP)}, nil
		}
		if j.Mode == "mutate" && len(r.DPs) == len(j.wantDP) && r.Err == "" && r.OpenErr == "" && region != "tail" {
			// the whole content came back unchanged although a byte differs: only acceptable if the byte is not covered by anything
			return &Fail{FP: "C10/damage-undetected/" + cls, What: ctx + ": all datapoints were returned without any error although the file differs from what was written"}, nil
		}
	} else {
		if !isPrefixS(r.Names, j.wantS) {
			return &Fail{FP: "C10/not-a-prefix/" + cls, What: ctx + fmt.Sprintf(": iterator yielded %q (err=%q); appended %q", r.Names, r.Err, j.wantS)}, nil
		}
		if j.Mode == "mutate" && len(r.Names) == len(j.wantS) && r.Err == "" && r.OpenErr == "" {
			return &Fail{FP: "C10/damage-undetected/" + cls, What: ctx + ": all entries were returned without any error although the file differs from what was written"}, nil
		}
	}
	return nil, nil
}

func C10() int {
	rep := kernel.NewReport("C10", "fault_enumeration")
	rep.Rule = "part M: WAL files of the three kinds (datapoints, metric names, segment meta entries) with 3 frames each are written by the real encoders; every truncation " +
		"length 0..len−1 and every single-byte modification (quick: b^1, b^0x80, b^0xff, 0; thorough: all 255 other values) is fed to the real iterator: the yielded sequence " +
		"must be a prefix of what was appended or an error — never an entry that was not written, never a crash or hang (workers run under a 2 GB address-space limit so that " +
		"a corrupt length turning into a multi-GB allocation is observable). part R: see coverage.crash_states. non-trivial = a cut or modification inside a frame (not at a frame boundary / version byte)"
	rep.Assume = []string{"process-crash model for part R; part M treats arbitrary single-byte damage"}
	budget := kernel.NewBudget(map[string]time.Duration{"quick": 150 * time.Second, "thorough": 30 * time.Minute}[rep.Tier])
	pool := &kernel.Pool{Boot: map[string]interface{}{}, RecycleEvery: 20000, MemKB: 2 << 20}
	// build the three files once
	bw, err := pool.BootWorker()
	if err != nil {
		rep.HarnessError(err.Error())
		return rep.Finish()
	}
	dps, names, metas := c10Frames()
	var flatDP []walDP
	for _, f := range dps {
		flatDP = append(flatDP, f...)
	}
	flat := func(x [][]string) []string {
		var o []string
		for _, f := range x {
			o = append(o, f...)
		}
		return o
	}
	type built struct {
		kind  string
		file  []byte
		wDP   []walDP
		wS    []string
		write bool
	}
	var files []built
	for _, k := range []string{"dp", "mname", "mmeta"} {
		b, err := c10BuildFile(bw, k, false)
		if err != nil {
			rep.HarnessError("walbuild " + k + ": " + err.Error())
			bw.Close()
			return rep.Finish()
		}
		bt := built{kind: k, file: b}
		switch k {
		case "dp":
			bt.wDP = flatDP
		case "mname":
			bt.wS = flat(names)
		case "mmeta":
			bt.wS = flat(metas)
		}
		files = append(files, bt)
		rep.Bounds["file_len_"+k] = len(b)
	}
	// the meta-entry WAL is used with Write (truncate + rewrite): the file then holds only the last frame
	if b, err := c10BuildFile(bw, "mmeta", true); err == nil {
		files = append(files, built{kind: "mmeta", file: b, wS: metas[len(metas)-1], write: true})
	}
	bw.Close()
	d := &Driver[c10MutJob]{Rep: rep, Pool: pool, Budget: budget,
		Enumerate: func(emit func(c10MutJob)) {
			for _, f := range files {
				for l := 0; l < len(f.file); l++ {
					emit(c10MutJob{Kind: f.kind, Mode: "truncate", Pos: l, Write: f.write, fileB: f.file, wantDP: f.wDP, wantS: f.wS})
				}
				for p := 0; p < len(f.file); p++ {
					orig := int(f.file[p])
					var vals []int
					if rep.Tier == "thorough" {
						for v := 0; v < 256; v++ {
							if v != orig {
								vals = append(vals, v)
							}
						}
					} else {
						seen := map[int]bool{orig: true}
						for _, v := range []int{orig ^ 1, orig ^ 0x80, orig ^ 0xff, 0} {
							if !seen[v] {
								seen[v] = true
								vals = append(vals, v)
							}
						}
					}
					for _, v := range vals {
						emit(c10MutJob{Kind: f.kind, Mode: "mutate", Pos: p, Value: v, Write: f.write, fileB: f.file, wantDP: f.wDP, wantS: f.wS})
					}
				}
			}
		},
		Run: c10RunMut,
		Key: func(j *c10MutJob) string {
			return fmt.Sprintf("%s|%v|%s|%d|%d", j.Kind, j.Write, j.Mode, j.Pos, j.Value)
		},
		Nontrivial: func(j *c10MutJob) bool {
			r := c10Region(j.Kind, j.Pos, j.fileB)
			return r == "payload" || r == "checksum" || r == "length"
		},
	}
	d.Drive()
	c10Recovery(rep, budget)
	c10CrashRestartQuery(rep, budget)
	return rep.Finish()
}

var c10mu sync.Mutex

func init() {
	Registry["C10"] = C10
	Replayers["C10"] = func(doc json.RawMessage) int {
		var probe struct {
			Kind   string `json:"kind"`
			Mode   string `json:"mode"`
			Points int    `json:"points"`
		}
		_ = json.Unmarshal(doc, &probe)
		if probe.Points > 0 {
			return MakeReplayer[c10QJob]("C10", "fault_enumeration", serverPool, c10QRun)(doc)
		}
		if probe.Mode == "" {
			return c10ReplayRecovery(doc)
		}
		var j c10MutJob
		if err := json.Unmarshal(doc, &j); err != nil {
			fmt.Println("HARNESS-ERROR", err)
			return 2
		}
		pool := &kernel.Pool{Boot: map[string]interface{}{}, MemKB: 2 << 20}
		w, err := pool.BootWorker()
		if err != nil {
			fmt.Println("HARNESS-ERROR", err)
			return 2
		}
		defer w.Close()
		b, err := c10BuildFile(w, j.Kind, j.Write)
		if err != nil {
			fmt.Println("HARNESS-ERROR", err)
			return 2
		}
		dps, names, metas := c10Frames()
		j.fileB = b
		for _, f := range dps {
			j.wantDP = append(j.wantDP, f...)
		}
		src := names
		if j.Kind == "mmeta" {
			src = metas
			if j.Write {
				src = metas[len(metas)-1:]
			}
		}
		for _, f := range src {
			j.wantS = append(j.wantS, f...)
		}
		res, err := c10RunMut(w, &j, kernel.NewReport("C10", "fault_enumeration"))
		if err != nil {
			fmt.Println("HARNESS-ERROR", err)
			return 2
		}
		if res == nil {
			fmt.Println("replay: property held")
			return 0
		}
		fmt.Printf("replay: %s\n  %s\n", res.FP, res.What)
		return 1
	}
}
