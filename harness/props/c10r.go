package props

import (
	"encoding/binary"
	"encoding/json"
	"fmt"
	"hash/crc32"
	"math"
	"os"
	"path/filepath"
	"sort"
	"strconv"
	"strings"
	"sync"
	"time"

	"github.com/klauspost/compress/zstd"

	"verif/harness/kernel"
)

// C10 part R — crashfs over metrics WAL histories. The set A of datapoints "whose log append had completed" is computed
// from the crash state itself by an independent reader of the documented frame format; after recovery every element
// of A must be in the recovered block files, nothing that was never sent may appear, nothing twice, order preserved.

type c10Step struct {
	Op     string `json:"op"` // put | wait | block
	Series int    `json:"series,omitempty"`
}

type c10History struct {
	Name  string             `json:"name"`
	Tun   map[string]float64 `json:"tun"`
	Steps []c10Step          `json:"steps"`
}

func c10Histories(tier string) []c10History {
	put := func(s int) c10Step { return c10Step{Op: "put", Series: s} }
	wait := c10Step{Op: "wait"}
	rep := func(n int, s int) []c10Step {
		var o []c10Step
		for i := 0; i < n; i++ {
			o = append(o, put(s))
		}
		return o
	}
	cat := func(xs ...[]c10Step) []c10Step {
		var o []c10Step
		for _, x := range xs {
			o = append(o, x...)
		}
		return o
	}
	small := map[string]float64{"walBlockFlushSize": 2}
	tiny := map[string]float64{"walBlockFlushSize": 2, "maxWalFileSize": 1}
	hs := []c10History{
		{"R1 five puts, timer flush", small, cat(rep(5, 0), []c10Step{wait})},
		{"R2 wal file per append", tiny, cat(rep(7, 0), []c10Step{wait})},
		{"R3 block rotation in the middle", small, cat(rep(3, 0), []c10Step{wait, {Op: "block"}}, rep(3, 0), []c10Step{wait})},
		{"R4 two series", small, cat([]c10Step{put(0), put(1), put(0), put(1), put(0)}, []c10Step{wait})},
	}
	if tier == "thorough" {
		hs = append(hs, c10History{"R5 twelve wal files", tiny, cat(rep(25, 0), []c10Step{wait})})
		hs = append(hs, c10History{"R6 rotation with several wal files", tiny, cat(rep(5, 0), []c10Step{wait, {Op: "block"}}, rep(5, 0), []c10Step{wait, {Op: "block"}})})
	}
	return hs
}

type dpKey struct {
	Tsid uint64
	TS   uint32
	Bits uint64
}

var zdec, _ = zstd.NewReader(nil)

// parseDPWal: independent reader of the documented datapoint WAL format; returns the datapoints of all frames that
// are completely present (length, CRC and payload) from the start of the file.
func parseDPWal(b []byte) []dpKey {
	var out []dpKey
	if len(b) < 1 {
		return nil
	}
	off := 1
	for off+8 <= len(b) {
		l := int(binary.LittleEndian.Uint32(b[off:]))
		if l < 4 || off+4+l > len(b) {
			break
		}
		sum := binary.LittleEndian.Uint32(b[off+4:])
		payload := b[off+8 : off+4+l]
		if crc32.ChecksumIEEE(payload) != sum {
			break
		}
		raw, err := zdec.DecodeAll(payload, nil)
		if err != nil || len(raw) < 4 {
			break
		}
		n := int(binary.LittleEndian.Uint32(raw))
		if len(raw) < 4+n*20 {
			break
		}
		for i := 0; i < n; i++ {
			ts := binary.LittleEndian.Uint32(raw[4+4*i:])
			bits := binary.LittleEndian.Uint64(raw[4+4*n+8*i:])
			tsid := binary.LittleEndian.Uint64(raw[4+12*n+8*i:])
			out = append(out, dpKey{tsid, ts, bits})
		}
		off += 4 + l
	}
	return out
}

type c10Crash struct {
	History  c10History `json:"history"`
	Cut      int        `json:"cut"`
	LastOp   string     `json:"lastOp"`
	Appended []dpKey    `json:"appendedDatapoints"` // A: datapoints of every WAL frame that was ever completely written
	Sent     map[uint64]bool
	Inside   bool
	fs       *kernel.MemFS
}

func c10Record(h *c10History, rep *kernel.Report) (ops []*kernel.FsOp, sent []uint64, dir string, cleanup func(), err error) {
	w, err := kernel.Spawn(kernel.SpawnOpts{KeepDir: true})
	if err != nil {
		return nil, nil, "", nil, err
	}
	dir = w.Dir
	cleanup = func() { w.Close(); _ = os.RemoveAll(dir) }
	logPath := filepath.Join(dir, "fs.log")
	if err := w.Call("boot", map[string]interface{}{"dir": dir, "crashLog": logPath, "relPaths": true, "tun": h.Tun}, nil); err != nil {
		return nil, nil, dir, cleanup, fmt.Errorf("boot of hooked child failed: %v\n%s", err, w.StderrTail())
	}
	n := 0
	for _, st := range h.Steps {
		switch st.Op {
		case "put":
			n++
			v := float64(n) + 0.5
			ts := MT0 + uint32(n)
			js := fmt.Sprintf(`{"metric":"c10m","tags":{"s":"%d"},"timestamp":%d,"value":%v}`, st.Series, ts, v)
			_ = w.Call("mark", map[string]interface{}{"text": fmt.Sprintf("PUT_BEGIN %d", n)}, nil)
			var r map[string]interface{}
			if err := w.Call("mputl", map[string]interface{}{"json": js, "org": 0}, &r); err != nil {
				return nil, nil, dir, cleanup, err
			}
			_ = w.Call("mark", map[string]interface{}{"text": fmt.Sprintf("PUT_RET %d", n)}, nil)
			sent = append(sent, math.Float64bits(v))
		case "wait":
			if err := w.Call("sleep", map[string]interface{}{"ms": 1300}, nil); err != nil {
				return nil, nil, dir, cleanup, err
			}
		case "block":
			_ = w.Call("mark", map[string]interface{}{"text": "ROTATE_BEGIN"}, nil)
			if err := w.Call("mrotate", map[string]interface{}{"kind": "block"}, nil); err != nil {
				return nil, nil, dir, cleanup, err
			}
			_ = w.Call("mark", map[string]interface{}{"text": "ROTATE_DONE"}, nil)
		}
		rep.Transition(1)
	}
	w.Kill()
	ops, err = kernel.ReadFsLog(logPath)
	return ops, sent, dir, cleanup, err
}

func isDPWal(p string) bool {
	return strings.Contains(p, "/wal-ts/") && strings.HasSuffix(p, ".wal") && strings.Contains(filepath.Base(p), "blockID")
}

func c10Enumerate(h *c10History, ops []*kernel.FsOp, sent []uint64) ([]*c10Crash, error) {
	fs := kernel.NewMemFS()
	seen := map[string]bool{}
	appended := map[dpKey]bool{}
	var order []dpKey
	var out []*c10Crash
	sentSet := map[uint64]bool{}
	for _, b := range sent {
		sentSet[b] = true
	}
	inside := false
	emit := func(cut int, last string) {
		key := fs.StateHash(c07SkipState)
		if seen[key] {
			return
		}
		seen[key] = true
		snap := kernel.NewMemFS()
		for p, b := range fs.Files {
			snap.Files[p] = b
		}
		for d := range fs.Dirs {
			snap.Dirs[d] = true
		}
		out = append(out, &c10Crash{History: *h, Cut: cut, LastOp: last, Appended: append([]dpKey{}, order...), Sent: sentSet, Inside: inside, fs: snap})
	}
	emit(0, "start")
	for i, op := range ops {
		if op.Op == "mark" {
			inside = strings.HasSuffix(op.P, "_BEGIN") || strings.HasPrefix(op.P, "PUT_BEGIN")
			if strings.HasPrefix(op.P, "PUT_RET") || op.P == "ROTATE_DONE" {
				inside = false
			}
			continue
		}
		if err := fs.Apply(op); err != nil {
			return nil, fmt.Errorf("model fs cannot apply log op %d (%s %s): %v", i, op.Op, op.P, err)
		}
		if op.Op == "write" && isDPWal(op.P) {
			inside = true // a write into a WAL file: the cut may lie inside a frame
			for _, k := range parseDPWal(fs.Files[strings.TrimSuffix(op.P, "/")]) {
				if !appended[k] {
					appended[k] = true
					order = append(order, k)
				}
			}
		}
		emit(i+1, op.Op+"@"+fileKind(op.P))
	}
	return out, nil
}

type dumpSer struct {
	Tsid   uint64      `json:"tsid"`
	Points [][2]uint64 `json:"points"`
	Err    string      `json:"err"`
}

func c10Recover(c *c10Crash, rep *kernel.Report) (*Fail, error) {
	dir := kernel.NewScratchDir("c10r")
	defer os.RemoveAll(dir)
	if err := c.fs.Materialize(filepath.Join(dir, "data")); err != nil {
		return nil, err
	}
	fail := func(clause, what string) *Fail {
		return &Fail{FP: "C10/recovery-" + clause + "/" + c.LastOp, What: fmt.Sprintf("history %q crash after %d fs operations (last: %s): %s", c.History.Name, c.Cut, c.LastOp, what)}
	}
	w, err := kernel.Spawn(kernel.SpawnOpts{Dir: dir, MemKB: 4 << 20})
	if err != nil {
		return nil, err
	}
	defer w.Close()
	if err := w.Call("boot", map[string]interface{}{"dir": dir, "recoverBoot": true, "relPaths": true, "tun": c.History.Tun}, nil); err != nil {
		if d, ok := err.(*kernel.Died); ok {
			return fail("startup-died", d.Exit+" "+d.Frame+"\n"+trunc(d.Stderr, 2000)), nil
		}
		return fail("startup-failed", err.Error()), nil
	}
	rep.Eval(1)
	var dump map[string][]dumpSer
	if err := w.Call("mdumpfiles", nil, &dump); err != nil {
		if d, ok := err.(*kernel.Died); ok {
			return fail("dump-died", d.Exit+" "+d.Frame), nil
		}
		return nil, err
	}
	got := map[dpKey]int{}
	perTsid := map[uint64][]uint32{}
	for _, f := range sortedKeys(dump) {
		for _, s := range dump[f] {
			if s.Err != "" {
				return fail("unreadable-block", fmt.Sprintf("block file %s series %d: %s", f, s.Tsid, s.Err)), nil
			}
			for _, p := range s.Points {
				k := dpKey{s.Tsid, uint32(p[0]), p[1]}
				got[k]++
				perTsid[s.Tsid] = append(perTsid[s.Tsid], uint32(p[0]))
				if !c.Sent[p[1]] {
					return fail("invented-datapoint", fmt.Sprintf("block file %s holds (tsid %d, ts %d, value %v) which was never sent", f, s.Tsid, p[0], math.Float64frombits(p[1]))), nil
				}
			}
		}
	}
	for k, n := range got {
		if n > 1 {
			return fail("duplicate-datapoint", fmt.Sprintf("datapoint (tsid %d, ts %d) is stored %d times after recovery", k.Tsid, k.TS, n)), nil
		}
	}
	var missing []string
	for _, k := range c.Appended {
		if got[k] == 0 {
			missing = append(missing, fmt.Sprintf("(ts +%d, %v)", k.TS-MT0, math.Float64frombits(k.Bits)))
		}
	}
	if len(missing) > 0 {
		return fail("appended-datapoint-lost", fmt.Sprintf("%d datapoints whose WAL frame had been written completely are not in any block file after restart: %v (recovered %d datapoints)", len(missing), missing, len(got))), nil
	}
	// the summary of every block file covers the datapoints the block holds (a query decides by the summary's time range
	// whether it looks into a block at all)
	var sums map[string][][3]uint64
	if err := w.Call("mdumpsummaries", nil, &sums); err != nil {
		if d, ok := err.(*kernel.Died); ok {
			return fail("dump-died", d.Exit+" "+d.Frame), nil
		}
		return nil, err
	}
	for _, f := range sortedKeys(dump) {
		// <dir>/<suffix>_<blk>.tsg belongs to <dir>/<suffix>.mbsu, entry <blk>
		base := strings.TrimSuffix(f, ".tsg")
		us := strings.LastIndex(base, "_")
		if us < 0 {
			continue
		}
		blk, perr := strconv.ParseUint(base[us+1:], 10, 16)
		if perr != nil {
			continue
		}
		lo, hi, n := uint64(math.MaxUint64), uint64(0), 0
		for _, sr := range dump[f] {
			for _, p := range sr.Points {
				n++
				if p[0] < lo {
					lo = p[0]
				}
				if p[0] > hi {
					hi = p[0]
				}
			}
		}
		if n == 0 {
			continue
		}
		found := false
		for _, e := range sums[base[:us]+".mbsu"] {
			if e[0] == blk {
				found = true
				if e[2] > lo || e[1] < hi {
					return fail("block-summary-does-not-cover-its-datapoints", fmt.Sprintf("block file %s holds datapoints with timestamps +%d..+%d, its summary says +%d..+%d: a query over the uncovered part skips the block", f, int64(lo)-int64(MT0), int64(hi)-int64(MT0), int64(e[2])-int64(MT0), int64(e[1])-int64(MT0))), nil
				}
			}
		}
		if !found {
			return fail("block-without-summary", fmt.Sprintf("block file %s (%d datapoints) has no entry in %s.mbsu", f, n, base[:us])), nil
		}
	}
	return nil, nil
}

func c10Recovery(rep *kernel.Report, budget *kernel.Budget) {
	hs := c10Histories(rep.Tier)
	rep.Bounds["wal_histories"] = len(hs)
	jobs := make(chan *c10Crash, 1024)
	var wg sync.WaitGroup
	total := 0
	for i := 0; i < kernel.NumWorkers(); i++ {
		wg.Add(1)
		go func() {
			defer wg.Done()
			for c := range jobs {
				if budget.Exceeded() {
					continue
				}
				f, err := c10Recover(c, rep)
				if err != nil {
					rep.HarnessError(err.Error())
					continue
				}
				rep.Trace(1)
				key := fmt.Sprintf("R|%s|%d", c.History.Name, c.Cut)
				rep.State(key)
				if c.Inside {
					rep.Nontrivial(key)
				}
				if f == nil {
					rep.Outcome("ok")
					continue
				}
				rep.Outcome(f.FP)
				if rep.SeenViolation(f.FP) {
					continue
				}
				ok := true
				for k := 0; k < 2; k++ {
					f2, err := c10Recover(c, rep)
					if err != nil || f2 == nil || f2.FP != f.FP {
						ok = false
					}
				}
				if !ok {
					rep.Unreproduced(f.FP + ": " + trunc(f.What, 300))
					continue
				}
				rep.Violation(f.FP, f.What, map[string]interface{}{"history": c.History, "cut": c.Cut, "lastOp": c.LastOp})
			}
		}()
	}
	for hi := range hs {
		h := &hs[hi]
		if budget.Exceeded() {
			rep.Cap("time budget: WAL history not run: " + h.Name)
			continue
		}
		ops, sent, dir, cleanup, err := c10Record(h, rep)
		if err != nil {
			if cleanup != nil {
				cleanup()
			}
			rep.HarnessError("recording " + h.Name + ": " + err.Error())
			continue
		}
		full := kernel.NewMemFS()
		bad := false
		for i, op := range ops {
			if err := full.Apply(op); err != nil {
				rep.HarnessError(fmt.Sprintf("history %s: log op %d: %v", h.Name, i, err))
				bad = true
				break
			}
		}
		if !bad {
			if diffs := full.Conform(filepath.Join(dir, "data"), nil); len(diffs) > 0 {
				rep.HarnessError(fmt.Sprintf("history %s: model fs differs from the real directory: %v", h.Name, diffs[:minInt(len(diffs), 6)]))
				bad = true
			}
		}
		cleanup()
		if bad {
			continue
		}
		rep.Add("wal_fs_operations_logged", int64(len(ops)))
		crashes, err := c10Enumerate(h, ops, sent)
		if err != nil {
			rep.HarnessError(err.Error())
			continue
		}
		total += len(crashes)
		if len(crashes) > 2 {
			c := crashes[len(crashes)/2]
			rep.Sample(map[string]interface{}{"history": c.History.Name, "cut": c.Cut, "lastOp": c.LastOp, "appended": len(c.Appended)})
		}
		for _, c := range crashes {
			if len(c.Appended) > 0 {
				rep.Add("crash_states_with_completed_wal_frames", 1)
			}
			jobs <- c
		}
	}
	close(jobs)
	wg.Wait()
	rep.Set("crash_states", total)
}

func c10ReplayRecovery(doc json.RawMessage) int {
	var d struct {
		History c10History `json:"history"`
		Cut     int        `json:"cut"`
		LastOp  string     `json:"lastOp"`
	}
	if err := json.Unmarshal(doc, &d); err != nil {
		fmt.Println("HARNESS-ERROR", err)
		return 2
	}
	rep := kernel.NewReport("C10", "fault_enumeration")
	ops, sent, _, cleanup, err := c10Record(&d.History, rep)
	if cleanup != nil {
		defer cleanup()
	}
	if err != nil {
		fmt.Println("HARNESS-ERROR", err)
		return 2
	}
	crashes, err := c10Enumerate(&d.History, ops, sent)
	if err != nil {
		fmt.Println("HARNESS-ERROR", err)
		return 2
	}
	rc, tried := 0, 0
	for _, c := range crashes {
		if c.LastOp != d.LastOp {
			continue
		}
		tried++
		f, err := c10Recover(c, rep)
		if err != nil {
			fmt.Println("HARNESS-ERROR", err)
			return 2
		}
		if f != nil {
			fmt.Printf("replay (cut %d): %s\n  %s\n", c.Cut, f.FP, f.What)
			rc = 1
			break
		}
	}
	if rc == 0 {
		fmt.Printf("replay: property held on %d crash states with last operation %s\n", tried, d.LastOp)
	}
	return rc
}

var _ = sort.Strings

// c10CrashRestartQuery — the end of the story for a datapoint that went through the WAL: the whole server is killed after
// the WAL timer flush, started again (production start-up, which replays the WAL), and asked for the series.
type c10QJob struct {
	Points int `json:"points"`
}

func c10QRun(w0 *kernel.Worker, j *c10QJob, rep *kernel.Report) (*Fail, error) {
	name := fmt.Sprintf("c10q%d", time.Now().UnixNano()%1_000_000)
	s := MSeries{Name: name, Tags: map[string]string{"k": "v"}}
	for i := 0; i < j.Points; i++ {
		ok, raw, err := mPut(w0, s, MT0+uint32(i), 1.5+float64(i))
		if err != nil || !ok {
			return &Fail{FP: "C10/harness-put", What: fmt.Sprintf("%v %s", err, raw)}, nil
		}
	}
	_ = w0.Call("sleep", map[string]interface{}{"ms": 1700}, nil) // the WAL buffer is written by a 1 s timer
	w, err := crashRestartWorker(w0)
	if err != nil {
		return &Fail{FP: "C10/restart-after-kill-failed", What: err.Error()}, nil
	}
	defer w.Close()
	rep.Transition(int64(j.Points) + 1)
	var res []MResultSeries
	status, raw := "", ""
	for attempt := 0; attempt < 7; attempt++ { // the metrics metadata is re-read every 5 s
		res, status, raw, err = mQueryRange(w, name, MT0-5, MT0+uint32(j.Points)+5)
		if err != nil {
			return &Fail{FP: "C10/query-after-crash-died", What: err.Error()}, nil
		}
		if len(res) > 0 {
			break
		}
		_ = w.Call("sleep", map[string]interface{}{"ms": 1000}, nil)
	}
	rep.Eval(1)
	n := 0
	for _, r := range res {
		n += len(r.Points)
	}
	if n != j.Points {
		return &Fail{FP: "C10/datapoints-replayed-from-the-wal-are-not-returned-by-queries", What: fmt.Sprintf("%d datapoints of series %s were accepted and written to the WAL (timer flush awaited); the server was killed and started again: "+
			"the replay wrote them into block files, but a range query over the whole period returns %d of them within 7 s (status %s, %s)", j.Points, name, n, status, trunc(raw, 200))}, nil
	}
	return nil, nil
}

func c10CrashRestartQuery(rep *kernel.Report, budget *kernel.Budget) {
	pool := serverPool()
	pool.RecycleEvery = 1
	pool.N = 2
	d := &Driver[c10QJob]{Rep: rep, Pool: pool, Budget: budget,
		Enumerate: func(emit func(c10QJob)) {
			emit(c10QJob{Points: 3})
			if rep.Tier == "thorough" {
				emit(c10QJob{Points: 1})
			}
		},
		Run:        c10QRun,
		Key:        func(j *c10QJob) string { return fmt.Sprintf("crash-restart-query|%d", j.Points) },
		Nontrivial: func(j *c10QJob) bool { return true },
	}
	d.Drive()
}
