package props

import (
	"encoding/json"

	"verif/harness/kernel"
)

func c10Recovery(rep *kernel.Report, budget *kernel.Budget) {}
func c10ReplayRecovery(doc json.RawMessage) int            { return 2 }
