package props

import (
	"encoding/json"
	"fmt"
	"strings"
	"sync/atomic"
	"time"

	"verif/harness/kernel"
)

// C11 — concurrent ingest, flush, rotation and search stay consistent. Engine vsched (level B): the real code runs
// with every "sync" import redirected to a shim; one party (writer operations, or a query) is held at its k-th lock
// operation — for every k — while the other party runs completely; then it is released. Every such one-preemption
// interleaving of the two real operations is executed and checked.

type c11Job struct {
	Dir     string `json:"dir"`    // writer-paused | query-paused
	Writer  string `json:"writer"` // W1..W5
	Query   string `json:"query"`
	PauseAt int64  `json:"pauseAt"`
}

type schedStep struct {
	Op    string `json:"op"`
	Index string `json:"index,omitempty"`
	Event string `json:"event,omitempty"`
	Query *Q     `json:"query,omitempty"`
	Ms    int    `json:"ms,omitempty"`
}

type schedStepRes struct {
	Op      string   `json:"op"`
	Query   *QRes    `json:"query"`
	Err     string   `json:"err"`
	Running []uint64 `json:"running"`
	Waiting []uint64 `json:"waiting"`
	Ms      int64    `json:"ms"`
}

type schedRes struct {
	Points       int64    `json:"points"`
	Paused       bool     `json:"paused"`
	PausedAt     string   `json:"pausedAt"`
	YBlocked     bool     `json:"yBlocked"`
	YStalled     bool     `json:"yStalled"`
	Labels       []string `json:"labels"`
	LabelsBefore []string `json:"labelsBefore"` // lock operations the held party had performed before its hold point
	// lock operations the held goroutine itself performed after its release (the other goroutines of its party are not held)
	LabelsOfHeldAfter []string       `json:"labelsOfHeldAfter"`
	X                 []schedStepRes `json:"x"`
	Y                 []schedStepRes `json:"y"`
	Pre               []schedStepRes `json:"pre"`
	Post              []schedStepRes `json:"post"`
	// second hold (see sim.SchedArgs)
	AuxPaused   bool     `json:"auxPaused"`
	AuxPausedAt string   `json:"auxPausedAt"`
	AuxPoints   int64    `json:"auxPoints"`
	AuxLabels   []string `json:"auxLabels"`
	XHung       bool     `json:"xHung"`
	YHung       bool     `json:"yHung"`
}

var c11Writers = []string{"W1 ingest,flush", "W2 ingest,flush,rotate", "W3 ingest,size-rotation", "W4 rotate", "W5 other-index ingest,flush,rotate"}
var c11Queries = []string{"*", "* | stats count", "a=1", "* | stats count by a", "* | sort a"}

func c11WriterSteps(wr, idx string) ([]schedStep, bool) {
	e2 := fmt.Sprintf(`{"timestamp":%d,"id":"e2","a":2}`, T0+1)
	ing := schedStep{Op: "ingest", Index: idx, Event: e2}
	switch strings.Fields(wr)[0] {
	case "W1":
		return []schedStep{ing, {Op: "flush"}}, true
	case "W2":
		return []schedStep{ing, {Op: "flush"}, {Op: "rotate"}}, true
	case "W3":
		return []schedStep{ing, {Op: "sizerotate"}}, true
	case "W4":
		return []schedStep{{Op: "rotate"}}, false
	case "W5":
		return []schedStep{{Op: "ingest", Index: idx + "b", Event: e2}, {Op: "flush"}, {Op: "rotate"}}, false
	}
	return nil, false
}

var c11Seq int64

// c11Check judges one query answer: e1's flush completed before everything; e2 (if the writer ingests it into this
// index) may or may not be visible, but never twice.
func c11Check(text string, r *QRes, hasE2 bool) string {
	if r == nil {
		return "no answer"
	}
	if r.Err != "" || len(r.Errors) > 0 {
		return "error: " + r.Err + strings.Join(r.Errors, ";")
	}
	if strings.Contains(text, "stats count by a") {
		n1, n2 := int64(0), int64(0)
		for _, b := range r.Measure {
			c, _ := ObsInt(b.M["count(*)"])
			switch strings.Join(b.G, "") {
			case "1":
				n1 += c
			case "2":
				n2 += c
			default:
				return fmt.Sprintf("group %v does not exist", b.G)
			}
		}
		if n1 != 1 {
			return fmt.Sprintf("group a=1 counts %d events (event e1 was flushed before the search began)", n1)
		}
		if n2 > 1 || (!hasE2 && n2 != 0) {
			return fmt.Sprintf("group a=2 counts %d events", n2)
		}
		return ""
	}
	if strings.Contains(text, "stats count") {
		if len(r.Measure) != 1 {
			return fmt.Sprintf("%d buckets", len(r.Measure))
		}
		c, _ := ObsInt(r.Measure[0].M["count(*)"])
		if c < 1 || c > 2 || (!hasE2 && c != 1) {
			return fmt.Sprintf("count = %d (one event was flushed before the search began, at most one more is being written)", c)
		}
		return ""
	}
	n := map[string]int{}
	for _, rec := range r.Records {
		id, _ := rec["id"].(string)
		n[id]++
	}
	if n["e1"] != 1 {
		return fmt.Sprintf("event e1 (flushed before the search began) returned %d times: %s", n["e1"], jstr(r.Records))
	}
	if text == "a=1" {
		if n["e2"] != 0 {
			return "a=1 returned e2"
		}
	} else if n["e2"] > 1 || (!hasE2 && n["e2"] != 0) {
		return fmt.Sprintf("event e2 returned %d times", n["e2"])
	}
	if len(n) > 2 || (len(n) == 2 && n["e2"] == 0) {
		return "unknown events: " + jstr(r.Records)
	}
	return ""
}

func c11Run(w *kernel.Worker, j *c11Job, rep *kernel.Report) (*Fail, error) {
	idx := fmt.Sprintf("c11x%d", atomic.AddInt64(&c11Seq, 1))
	die := func(err error) (*Fail, error) {
		if d, ok := err.(*kernel.Died); ok {
			clause := "crash"
			if d.Timeout {
				clause = "deadlock-or-hang"
			}
			return &Fail{FP: "C11/" + clause + "/" + j.Dir + "/" + d.Frame, What: fmt.Sprintf("schedule %s: %s\n%s", jstr(j), d.Exit, trunc(d.Stderr, 2000))}, nil
		}
		return nil, err
	}
	if err := ingestStep(w, 0, idx, []string{fmt.Sprintf(`{"timestamp":%d,"id":"e1","a":1}`, T0)}); err != nil {
		return die(err)
	}
	if err := w.Call("flush", nil, nil); err != nil {
		return die(err)
	}
	ws, hasE2 := c11WriterSteps(j.Writer, idx)
	q := Q{Index: idx, Text: j.Query, Start: T0 - 10, End: T0 + 1000, Size: 100}
	qs := []schedStep{{Op: "query", Query: &q}}
	x, y := ws, qs
	if j.Dir == "query-paused" {
		x, y = qs, ws
	}
	var r schedRes
	if err := w.CallT("schedrun", map[string]interface{}{"x": x, "y": y, "pauseAt": j.PauseAt}, &r, 90*time.Second); err != nil {
		return die(err)
	}
	rep.Eval(1)
	rep.Transition(int64(len(x) + len(y)))
	rep.Add("lock_points_seen", r.Points)
	if r.YStalled {
		rep.Add("schedules_with_stalled_party", 1)
	}
	if r.YBlocked {
		rep.Add("schedules_where_other_party_had_to_wait", 1)
	}
	if r.Paused {
		rep.Nontrivial(jstr(j))
		rep.Outcome("paused@" + r.PausedAt)
	}
	fs := &Fails{}
	where := "—"
	if r.Paused {
		where = r.PausedAt
	}
	var qr *QRes
	if j.Dir == "query-paused" {
		if len(r.X) == 1 {
			qr = r.X[0].Query
		}
	} else if len(r.Y) == 1 {
		qr = r.Y[0].Query
	}
	if what := c11Check(j.Query, qr, hasE2); what != "" {
		site := where
		if i := strings.LastIndex(site, ":"); i > 0 {
			site = site[:i] // function, not line
		}
		fp := "C11/search-inconsistent/" + j.Dir + "/" + strings.Fields(j.Writer)[0] + "/" + site
		if j.Dir == "query-paused" && strings.Fields(j.Writer)[0] != "W1" && (strings.Contains(what, "returned 0 times") || strings.Contains(what, "counts 0 events") || strings.Contains(what, "count = 0")) {
			// one root cause with its own classes: the search listed the segment as unrotated, the segment was rotated
			// while the search was held, and the look-up of the unrotated data then finds nothing. For record searches the
			// code re-checks the segment type right before it extracts the blocks; a hold point before that check must
			// therefore still see the event.
			qclass := "records"
			if strings.Contains(j.Query, "stats count by") {
				qclass = "stats-by"
			} else if strings.Contains(j.Query, "stats") {
				qclass = "stats"
			}
			when := ""
			if qclass == "records" {
				// Only the goroutine that reached the hold point is held; the other goroutines of the query run on. "Held
				// before the check" is therefore only claimed when the held goroutine itself goes on into the block
				// extraction after its release; if some goroutine of the query has performed it already the hold came after it; in the
				// remaining case the searching goroutine was never held and met the rotation on its own (same root cause,
				// timing not owned by this schedule).
				when = "/searching-goroutine-not-held"
				for _, l := range r.LabelsOfHeldAfter {
					// the held goroutine goes on into the block extraction (writer/metadata/reader packages): it is the
					// searching goroutine (the request goroutine only touches the query tables afterwards)
					for _, pk := range []string{"@writer.", "@metadata.", "@segread.", "@segreader.", "@search.", "@pqs."} {
						if strings.Contains(l, pk) {
							when = "/held-before-the-segment-type-check"
						}
					}
				}
				for _, l := range r.LabelsBefore {
					if strings.Contains(l, "writer.IsSegKeyUnrotated") {
						when = "/held-after-the-segment-type-check"
					}
				}
			}
			fp = "C11/search-misses-flushed-event/segment-rotated-during-the-search/" + qclass + when
		}
		if j.Dir == "query-paused" && strings.Fields(j.Writer)[0] != "W1" && strings.HasPrefix(what, "error:") {
			fp = "C11/search-fails/segment-rotated-during-the-search" // same root cause, surfacing as a query error
		}
		fs.Add(fp, fmt.Sprintf("%s held at lock operation %d (%s) while the other party ran; writer %q, query %q: %s (lock operations of the held goroutine after its release: %v)",
			map[string]string{"writer-paused": "writer", "query-paused": "query"}[j.Dir], j.PauseAt, where, j.Writer, j.Query, what, r.LabelsOfHeldAfter))
	}
	// quiescence: the stored contents equal what a sequential execution gives
	fin, err := runQueries(w, []Q{{Index: idx, Text: "*", Start: T0 - 10, End: T0 + 1000, Size: 100}, {Index: idx, Text: "* | stats count", Start: T0 - 10, End: T0 + 1000, Size: 100}})
	if err != nil {
		return die(err)
	}
	for i, t := range []string{"*", "* | stats count"} {
		what := c11Check(t, fin[i], hasE2)
		if what == "" && hasE2 {
			// after quiescence e2 must be there
			if t == "*" {
				ids, _ := IDSet(fin[i])
				if !ids["e2"] {
					what = "e2 missing after both parties finished"
				}
			} else if c, _ := ObsInt(fin[i].Measure[0].M["count(*)"]); c != 2 {
				what = fmt.Sprintf("count=%d after both parties finished", c)
			}
		}
		if what != "" {
			fs.Add("C11/final-state/"+j.Dir+"/"+strings.Fields(j.Writer)[0], fmt.Sprintf("schedule %s (held at %s): after quiescence query %q: %s", jstr(j), where, t, what))
		}
	}
	_ = delIndex(w, 0, idx)
	_ = delIndex(w, 0, idx+"b")
	return fs.Result(), nil
}

func C11() int {
	rep := kernel.NewReport("C11", "model_checking")
	rep.Rule = "two real operations on one index that already holds a flushed event e1: a writer sequence W ∈ {ingest e2+flush; +forced rotation; size-triggered rotation; rotation only; the same on a second index} " +
		"and a query Q ∈ {*, stats count, a=1, stats count by a, sort a}. With every sync import of /repo/pkg redirected to a shim, one party's goroutine tree is held at its k-th lock operation for every k " +
		"(k = 1..number of lock operations observed in an unpaused run) while the other party runs to completion (if it has to wait for a lock the held goroutine owns, the held one is released first), in both " +
		"directions. Checked per schedule: no crash, no deadlock; the query returns e1 exactly once and e2 at most once (counts 1..2, never doubled or lost); after both finished the contents equal the sequential " +
		"result. two writers: an ingest (e1) into a new index / an index holding a flushed e0 held at every lock operation while a second writer runs {ingest e2; +flush; flush; rotate; ingest+flush+rotate} " +
		"on the same index: after a final flush every acknowledged event is searchable exactly once. non-trivial = schedules in which the pause point was reached"
	rep.Assume = []string{"preemption bound 1 at lock-operation granularity with an atomic other party (level B of the design); operations ordered only by sync/atomic or channels are not scheduling points",
		"unsynchronised accesses are invisible to this engine (a free-running -race pass over the same bodies is the separate check for data races)"}
	budget := kernel.NewBudget(map[string]time.Duration{"quick": 170 * time.Second, "thorough": 40 * time.Minute}[rep.Tier])
	pool := logPool()
	pool.RecycleEvery = 200
	// dry runs: number of lock operations per (direction, writer, query)
	type key struct{ dir, wr, q string }
	points := map[key]int64{}
	dw, err := pool.BootWorker()
	if err != nil {
		rep.HarnessError(err.Error())
		return rep.Finish()
	}
	for _, wr := range c11Writers {
		for _, q := range c11Queries {
			for _, dir := range []string{"writer-paused", "query-paused"} {
				idx := fmt.Sprintf("c11d%d", atomic.AddInt64(&c11Seq, 1))
				_ = ingestStep(dw, 0, idx, []string{fmt.Sprintf(`{"timestamp":%d,"id":"e1","a":1}`, T0)})
				_ = dw.Call("flush", nil, nil)
				ws, _ := c11WriterSteps(wr, idx)
				qq := Q{Index: idx, Text: q, Start: T0 - 10, End: T0 + 1000, Size: 100}
				x, y := ws, []schedStep{{Op: "query", Query: &qq}}
				if dir == "query-paused" {
					x, y = y, x
				}
				var r schedRes
				if err := dw.Call("schedrun", map[string]interface{}{"x": x, "y": y, "pauseAt": 0}, &r); err != nil {
					rep.HarnessError("dry run: " + err.Error())
					dw.Close()
					return rep.Finish()
				}
				points[key{dir, wr, q}] = r.Points
				if wr == c11Writers[1] && q == c11Queries[1] {
					rep.Sample(map[string]interface{}{"direction": dir, "writer": wr, "query": q, "lock_operations": r.Labels})
				}

			}
		}
	}
	dw.Close()
	d := &Driver[c11Job]{Rep: rep, Pool: pool, Budget: budget,
		Enumerate: func(emit func(c11Job)) {
			for _, wr := range c11Writers {
				for _, q := range c11Queries {
					n := points[key{"writer-paused", wr, c11Queries[0]}]
					for k := int64(1); k <= n+1; k++ {
						emit(c11Job{Dir: "writer-paused", Writer: wr, Query: q, PauseAt: k})
					}
					n = points[key{"query-paused", wr, q}]
					for k := int64(1); k <= n+1; k++ {
						emit(c11Job{Dir: "query-paused", Writer: wr, Query: q, PauseAt: k})
					}
				}
			}
		},
		Run:        c11Run,
		Key:        func(j *c11Job) string { return jstr(j) },
		Nontrivial: func(j *c11Job) bool { return false },
	}
	d.Drive()
	c11TwoWriters(rep, pool, budget)
	return rep.Finish()
}

func init() {
	Registry["C11"] = C11
	Replayers["C11"] = func(doc json.RawMessage) int {
		var probe struct {
			Other string `json:"other"`
		}
		_ = json.Unmarshal(doc, &probe)
		if probe.Other != "" {
			return MakeReplayer[c11WWJob]("C11", "model_checking", logPool, c11WWRun)(doc)
		}
		return MakeReplayer[c11Job]("C11", "model_checking", logPool, c11Run)(doc)
	}
}
