package props

import (
	"fmt"
	"strings"
	"sync/atomic"
	"time"

	"verif/harness/kernel"
)

// C11 part W — two writers. An ingest call (event e1) is held at its k-th lock operation, for every k, while a second
// writer acts on the same index: another ingest, ingest+flush, a flush, a rotation, ingest+flush+rotation. The index is
// either new (both ingests are the first for it) or already holds a flushed event e0. Afterwards everything is
// flushed: every acknowledged event must be searchable exactly once.

type c11WWJob struct {
	Fresh   bool   `json:"freshIndex"`
	Other   string `json:"other"` // Y1..Y5
	PauseAt int64  `json:"pauseAt"`
	Prop    string `json:"prop,omitempty"` // property the schedule is run for (C11; C15: two bulk requests, acknowledged iff stored)
}

var c11Others = []string{"Y1 ingest", "Y2 ingest,flush", "Y3 flush", "Y4 rotate", "Y5 ingest,flush,rotate"}

func c11OtherSteps(o, idx string) ([]schedStep, bool) {
	ing := schedStep{Op: "ingest", Index: idx, Event: fmt.Sprintf(`{"timestamp":%d,"id":"e2","a":2}`, T0+2)}
	switch strings.Fields(o)[0] {
	case "Y1":
		return []schedStep{ing}, true
	case "Y2":
		return []schedStep{ing, {Op: "flush"}}, true
	case "Y3":
		return []schedStep{{Op: "flush"}}, false
	case "Y4":
		return []schedStep{{Op: "rotate"}}, false
	case "Y5":
		return []schedStep{ing, {Op: "flush"}, {Op: "rotate"}}, true
	}
	return nil, false
}

var c11WWSeq int64

func c11WWRun(w *kernel.Worker, j *c11WWJob, rep *kernel.Report) (*Fail, error) {
	prop := j.Prop
	if prop == "" {
		prop = "C11"
	}
	idx := fmt.Sprintf("c11w%d", atomic.AddInt64(&c11WWSeq, 1))
	die := func(err error) (*Fail, error) {
		if d, ok := err.(*kernel.Died); ok {
			clause := "crash"
			if d.Timeout {
				clause = "deadlock-or-hang"
			}
			return &Fail{FP: prop + "/" + clause + "/two-writers/" + d.Frame, What: fmt.Sprintf("schedule %s: %s\n%s", jstr(j), d.Exit, trunc(d.Stderr, 2000))}, nil
		}
		return nil, err
	}
	want := map[string]bool{"e1": true}
	if !j.Fresh {
		if err := ingestStep(w, 0, idx, []string{fmt.Sprintf(`{"timestamp":%d,"id":"e0","a":0}`, T0)}); err != nil {
			return die(err)
		}
		if err := w.Call("flush", nil, nil); err != nil {
			return die(err)
		}
		want["e0"] = true
	}
	ys, hasE2 := c11OtherSteps(j.Other, idx)
	if hasE2 {
		want["e2"] = true
	}
	x := []schedStep{{Op: "ingest", Index: idx, Event: fmt.Sprintf(`{"timestamp":%d,"id":"e1","a":1}`, T0+1)}}
	var r schedRes
	if err := w.CallT("schedrun", map[string]interface{}{"x": x, "y": ys, "pauseAt": j.PauseAt}, &r, 90*time.Second); err != nil {
		return die(err)
	}
	rep.Eval(1)
	rep.Transition(int64(len(x) + len(ys)))
	rep.Add("ww_lock_points_seen", r.Points)
	where := "—"
	if r.Paused {
		where = r.PausedAt
		rep.Nontrivial(jstr(j))
		rep.Outcome("ww-paused@" + r.PausedAt)
	}
	for _, s := range append(append([]schedStepRes{}, r.X...), r.Y...) {
		if s.Err != "" {
			return &Fail{FP: prop + "/two-writers/operation-failed/" + s.Op, What: fmt.Sprintf("schedule %s (held at %s): %s failed: %s", jstr(j), where, s.Op, s.Err)}, nil
		}
	}
	if err := w.Call("flush", nil, nil); err != nil {
		return die(err)
	}
	fin, err := runQueries(w, []Q{{Index: idx, Text: "*", Start: T0 - 10, End: T0 + 1000, Size: 100}, {Index: idx, Text: "* | stats count", Start: T0 - 10, End: T0 + 1000, Size: 100}})
	if err != nil {
		return die(err)
	}
	site := where
	if i := strings.LastIndex(site, ":"); i > 0 {
		site = site[:i]
	}
	fs := &Fails{}
	got := map[string]int{}
	for _, rec := range fin[0].Records {
		id, _ := rec["id"].(string)
		got[id]++
	}
	ctx := fmt.Sprintf("index %s, first writer (ingest e1) held at its lock operation %d (%s) while the second writer ran %q; after a final flush", map[bool]string{true: "new", false: "holding a flushed e0"}[j.Fresh], j.PauseAt, where, j.Other)
	for id := range want {
		switch got[id] {
		case 1:
		case 0:
			fs.Add(prop+"/two-writers/acknowledged-event-lost/"+site, ctx+fmt.Sprintf(": event %s was acknowledged but is not searchable (returned: %v)", id, got))
		default:
			fs.Add(prop+"/two-writers/event-duplicated/"+site, ctx+fmt.Sprintf(": event %s is returned %d times", id, got[id]))
		}
	}
	for id := range got {
		if !want[id] {
			fs.Add(prop+"/two-writers/unknown-event", ctx+": returned "+id)
		}
	}
	if len(fin[1].Measure) == 1 {
		if c, _ := ObsInt(fin[1].Measure[0].M["count(*)"]); c != int64(len(want)) {
			fs.Add(prop+"/two-writers/count/"+site, ctx+fmt.Sprintf(": stats count = %d, %d events were acknowledged", c, len(want)))
		}
	}
	_ = delIndex(w, 0, idx)
	return fs.Result(), nil
}

func c11TwoWriters(rep *kernel.Report, pool *kernel.Pool, budget *kernel.Budget) {
	c11TwoWritersFor("C11", rep, pool, budget)
}

func c11TwoWritersFor(prop string, rep *kernel.Report, pool *kernel.Pool, budget *kernel.Budget) {
	// dry run: lock operations of an ingest into a new / an existing index
	points := map[bool]int64{}
	dw, err := pool.BootWorker()
	if err != nil {
		rep.HarnessError(err.Error())
		return
	}
	for _, fresh := range []bool{true, false} {
		idx := fmt.Sprintf("c11wd%d", atomic.AddInt64(&c11WWSeq, 1))
		if !fresh {
			_ = ingestStep(dw, 0, idx, []string{fmt.Sprintf(`{"timestamp":%d,"id":"e0","a":0}`, T0)})
			_ = dw.Call("flush", nil, nil)
		}
		var r schedRes
		x := []schedStep{{Op: "ingest", Index: idx, Event: fmt.Sprintf(`{"timestamp":%d,"id":"e1","a":1}`, T0+1)}}
		if err := dw.Call("schedrun", map[string]interface{}{"x": x, "y": []schedStep{}, "pauseAt": 0}, &r); err != nil {
			rep.HarnessError("C11 two-writers dry run: " + err.Error())
			dw.Close()
			return
		}
		points[fresh] = r.Points
		if fresh {
			rep.Sample(map[string]interface{}{"lock_operations_of_a_first_ingest": r.Labels})
		}
	}
	dw.Close()
	d := &Driver[c11WWJob]{Rep: rep, Pool: pool, Budget: budget,
		Enumerate: func(emit func(c11WWJob)) {
			for _, fresh := range []bool{true, false} {
				for _, o := range c11Others {
					for k := int64(1); k <= points[fresh]+1; k++ {
						emit(c11WWJob{Fresh: fresh, Other: o, PauseAt: k, Prop: prop})
					}
				}
			}
		},
		Run:        c11WWRun,
		Key:        func(j *c11WWJob) string { return "ww|" + jstr(j) },
		Nontrivial: func(j *c11WWJob) bool { return false },
	}
	d.Drive()
	rep.Set("ww_lock_operations_of_an_ingest", map[string]int64{"new index": points[true], "existing index": points[false]})
}
