package props

import (
	"encoding/hex"
	"encoding/json"
	"fmt"
	"math"
	"sort"
	"strings"
	"time"

	coltracepb "go.opentelemetry.io/proto/otlp/collector/trace/v1"
	commonpb "go.opentelemetry.io/proto/otlp/common/v1"
	respb "go.opentelemetry.io/proto/otlp/resource/v1"
	tracepb "go.opentelemetry.io/proto/otlp/trace/v1"
	"google.golang.org/protobuf/proto"

	"verif/harness/kernel"
)

// C12 — trace views agree with the ingested spans. seqx: every parent function on ≤ n spans (trees, several roots,
// missing parents, cycles, self-parents) × service and status patterns × ingest orders, plus a second well-formed
// trace that shares span ids with the first; three views of a freshly booted server are compared with a tracemodel.

type c12Job struct {
	Parents  []int  `json:"parents"` // parent of span i: -1 root, 0..n-1 span index (i itself = self-parent), n = a span id that does not exist
	Services string `json:"services"`
	Status   string `json:"status"`
	Order    string `json:"order"` // asc | desc
	Flush    bool   `json:"flushBetween"`
}

func c12SpanID(trace, i int) []byte {
	b, _ := hex.DecodeString(fmt.Sprintf("%02x000000000000%02x", 0xb0, i+1))
	return b
}

func c12TraceID(k int) []byte {
	b, _ := hex.DecodeString(fmt.Sprintf("c12c12c12c12c12c12c12c12c12c12%02x", k))
	return b
}

func (j *c12Job) wellFormed() bool {
	n := len(j.Parents)
	roots := 0
	for i, p := range j.Parents {
		if p == -1 {
			roots++
		} else if p == i || p >= n {
			return false
		}
	}
	if roots != 1 {
		return false
	}
	// acyclic: every span reaches the root
	for i := range j.Parents {
		seen := map[int]bool{}
		for c := i; c != -1; c = j.Parents[c] {
			if seen[c] {
				return false
			}
			seen[c] = true
		}
	}
	return true
}

// c12DurMs: span durations, distinct within and across the two traces (latency percentiles of the RED view)
func c12DurMs(trace, i int) uint64 { return uint64(trace-1)*60 + uint64(i+1)*10 }

// c12Percentile is the plain definition used by the RED view: linear interpolation between the order statistics at
// p·(n−1)/100.
func c12Percentile(ds []float64, p int) float64 {
	s := append([]float64{}, ds...)
	sort.Float64s(s)
	k := float64(p*(len(s)-1)) / 100
	lo, hi := int(math.Floor(k)), int(math.Ceil(k))
	return s[lo] + (s[hi]-s[lo])*(k-float64(lo))
}

func c12Run(w *kernel.Worker, j *c12Job, rep *kernel.Report) (*Fail, error) {
	die := func(stage string, err error) (*Fail, error) {
		d, ok := err.(*kernel.Died)
		if !ok {
			return nil, err
		}
		clause := "server-died"
		if d.Timeout {
			clause = "view-hang"
		}
		return &Fail{FP: "C12/" + clause + "/" + stage + "/" + d.Frame, What: fmt.Sprintf("forest %s, %s: %s\n%s", jstr(j), stage, d.Exit, trunc(d.Stderr, 1500))}, nil
	}
	n := len(j.Parents)
	now := time.Now()
	base := uint64(now.Add(-3 * time.Second).UnixNano())
	svcOf := func(i int) string {
		switch j.Services {
		case "alt":
			return []string{"svcA", "svcB"}[i%2]
		case "root-vs-rest":
			if i == 0 {
				return "svcA"
			}
			return "svcB"
		case "odd-unnamed":
			// every second span comes in a resource without a service.name: it has no service, whatever resource
			// precedes it in the same request
			if i%2 == 1 {
				return ""
			}
			return "svcA"
		}
		return "svcA"
	}
	errOf := func(i int) bool {
		switch j.Status {
		case "one-error":
			return i == 1
		case "all-error":
			return true
		}
		return false
	}
	mkSpan := func(trace, i int, parent []byte, name string, isErr bool) *tracepb.Span {
		st := &tracepb.Status{Code: tracepb.Status_STATUS_CODE_OK}
		if isErr {
			st = &tracepb.Status{Code: tracepb.Status_STATUS_CODE_ERROR}
		}
		return &tracepb.Span{TraceId: c12TraceID(trace), SpanId: c12SpanID(trace, i), ParentSpanId: parent, Name: name, Kind: tracepb.Span_SPAN_KIND_SERVER,
			StartTimeUnixNano: base + uint64(i)*1_000_000, EndTimeUnixNano: base + uint64(i)*1_000_000 + c12DurMs(trace, i)*1_000_000, Status: st}
	}
	type rs struct {
		svc  string
		span *tracepb.Span
	}
	var spans []rs
	for i, p := range j.Parents {
		var parent []byte
		switch {
		case p == -1:
		case p >= n:
			parent, _ = hex.DecodeString("dead00000000beef")
		default:
			parent = c12SpanID(1, p)
		}
		spans = append(spans, rs{svcOf(i), mkSpan(1, i, parent, fmt.Sprintf("op%d", i), errOf(i))})
	}
	// second, well-formed trace C→D whose span ids equal those of the first trace
	spans = append(spans, rs{"svcC", mkSpan(2, 0, nil, "other-root", false)})
	spans = append(spans, rs{"svcD", mkSpan(2, 1, c12SpanID(2, 0), "other-child", false)})
	order := make([]int, len(spans))
	for i := range order {
		order[i] = i
	}
	if j.Order == "desc" {
		sort.Sort(sort.Reverse(sort.IntSlice(order)))
	}
	send := func(idx []int) (*Fail, error) {
		var rsp []*tracepb.ResourceSpans
		for _, i := range idx {
			res := &respb.Resource{Attributes: []*commonpb.KeyValue{{Key: "service.name", Value: anyValue(spans[i].svc)}}}
			if spans[i].svc == "" {
				res = &respb.Resource{Attributes: []*commonpb.KeyValue{{Key: "host.name", Value: anyValue("h")}}}
			}
			rsp = append(rsp, &tracepb.ResourceSpans{Resource: res, ScopeSpans: []*tracepb.ScopeSpans{{Spans: []*tracepb.Span{spans[i].span}}}})
		}
		pb, err := proto.Marshal(&coltracepb.ExportTraceServiceRequest{ResourceSpans: rsp})
		if err != nil {
			return nil, err
		}
		var r httpRes
		if err := w.Call("http", map[string]interface{}{"server": "ingest", "method": "POST", "path": "/otlp/v1/traces", "body_b64": b64(pb),
			"headers": map[string]string{"Content-Type": "application/x-protobuf"}}, &r); err != nil {
			return die("ingest", err)
		}
		if r.Status != 200 {
			return &Fail{FP: "C12/ingest-rejected", What: fmt.Sprintf("forest %s: http %d %s", jstr(j), r.Status, trunc(r.Body, 200))}, nil
		}
		return nil, nil
	}
	if j.Flush {
		h := len(order) / 2
		if f, err := send(order[:h]); f != nil || err != nil {
			return f, err
		}
		if err := w.Call("flush", nil, nil); err != nil {
			return die("flush", err)
		}
		if f, err := send(order[h:]); f != nil || err != nil {
			return f, err
		}
	} else if f, err := send(order); f != nil || err != nil {
		return f, err
	}
	if err := w.Call("flush", nil, nil); err != nil {
		return die("flush", err)
	}
	rep.Transition(int64(len(spans)))
	js := map[string]string{"Content-Type": "application/json"}
	startMs, endMs := now.Add(-5*time.Minute).UnixMilli(), now.Add(2*time.Minute).UnixMilli()
	post := func(stage, path, body string) (*httpRes, *Fail, error) {
		var r httpRes
		err := w.CallT("http", map[string]interface{}{"server": "query", "method": "POST", "path": path, "body": body, "headers": js}, &r, 90*time.Second)
		if err != nil {
			f, e := die(stage, err)
			return nil, f, e
		}
		rep.Eval(1)
		return &r, nil, nil
	}
	fs := &Fails{}
	wf := j.wellFormed()
	shape := "malformed"
	if wf {
		shape = "well-formed"
	}
	ctx := "forest " + jstr(j) + " (" + shape + ")"
	tid1, tid2 := hex.EncodeToString(c12TraceID(1)), hex.EncodeToString(c12TraceID(2))
	// ---- view 1: trace search ----
	r, f, err := post("search", "/api/traces/search", fmt.Sprintf(`{"searchText":"*","startEpoch":"%d","endEpoch":"%d","queryLanguage":"Splunk QL","page":1}`, startMs, endMs))
	if f != nil || err != nil {
		return f, err
	}
	var sr struct {
		Traces []struct {
			TraceID   string `json:"trace_id"`
			Service   string `json:"service_name"`
			Operation string `json:"operation_name"`
			Spans     int    `json:"span_count"`
			Errors    int    `json:"span_errors_count"`
		} `json:"traces"`
	}
	if jerr := json.Unmarshal([]byte(r.Body), &sr); jerr != nil || r.Status != 200 {
		if wf {
			fs.Add("C12/search-failed/well-formed", ctx+fmt.Sprintf(": trace search answered http %d %s", r.Status, trunc(r.Body, 200)))
		}
	} else {
		cnt := map[string]int{}
		for _, t := range sr.Traces {
			cnt[t.TraceID]++
			switch t.TraceID {
			case tid2:
				if t.Service != "svcC" || t.Operation != "other-root" || t.Spans != 2 || t.Errors != 0 {
					fs.Add("C12/search-other-trace-disturbed/"+shape, ctx+fmt.Sprintf(": the independent trace is listed as %+v (want svcC/other-root, 2 spans, 0 errors)", t))
				}
			case tid1:
				if wf {
					wantErr := 0
					for i := 0; i < n; i++ {
						if errOf(i) {
							wantErr++
						}
					}
					root := 0
					for i, p := range j.Parents {
						if p == -1 {
							root = i
						}
					}
					if t.Service != svcOf(root) || t.Operation != fmt.Sprintf("op%d", root) || t.Spans != n || t.Errors != wantErr {
						fs.Add("C12/search-trace-summary/"+shape, ctx+fmt.Sprintf(": listed as %+v, want root %s/op%d, %d spans, %d errors", t, svcOf(root), root, n, wantErr))
					}
				} else if t.Spans > n {
					fs.Add("C12/search-foreign-spans/"+shape, ctx+fmt.Sprintf(": span count %d exceeds the %d spans of the trace", t.Spans, n))
				}
			default:
				fs.Add("C12/search-invented-trace", ctx+": trace "+t.TraceID+" was never ingested")
			}
		}
		for id, c := range cnt {
			if c > 1 {
				fs.Add("C12/search-trace-twice/"+shape, ctx+fmt.Sprintf(": trace %s listed %d times", id, c))
			}
		}
		if cnt[tid2] != 1 {
			fs.Add("C12/search-other-trace-missing/"+shape, ctx+": the independent well-formed trace is not listed exactly once: "+trunc(r.Body, 300))
		}
		if wf && cnt[tid1] != 1 {
			fs.Add("C12/search-trace-missing/well-formed", ctx+": the trace is not listed: "+trunc(r.Body, 300))
		}
	}
	// ---- view 2: span tree ----
	for _, tv := range []struct {
		tid   string
		trace int
		wf    bool
	}{{tid1, 1, wf}, {tid2, 2, true}} {
		r, f, err := post("gantt", "/api/traces/ganttChart", fmt.Sprintf(`{"searchText":"trace_id=%s","startEpoch":"%d","endEpoch":"%d"}`, tv.tid, startMs, endMs))
		if f != nil || err != nil {
			return f, err
		}
		var tree map[string]interface{}
		if jerr := json.Unmarshal([]byte(r.Body), &tree); jerr != nil || r.Status != 200 {
			if tv.wf {
				fs.Add("C12/tree-failed/well-formed", ctx+fmt.Sprintf(": span tree of trace %d answered http %d %s", tv.trace, r.Status, trunc(r.Body, 200)))
			}
			continue
		}
		seen := map[string]int{}
		parentOf := map[string]string{}
		var walk func(node map[string]interface{}, parent string, depth int)
		walk = func(node map[string]interface{}, parent string, depth int) {
			id, _ := node["span_id"].(string)
			if id == "" || depth > 50 {
				return
			}
			seen[id]++
			parentOf[id] = parent
			kids, _ := node["children"].([]interface{})
			for _, k := range kids {
				if km, ok := k.(map[string]interface{}); ok {
					walk(km, id, depth+1)
				}
			}
		}
		walk(tree, "", 0)
		nn := n
		if tv.trace == 2 {
			nn = 2
		}
		if tv.wf {
			for i := 0; i < nn; i++ {
				id := hex.EncodeToString(c12SpanID(tv.trace, i))
				if seen[id] != 1 {
					fs.Add("C12/tree-span-count/well-formed", ctx+fmt.Sprintf(": span %d of trace %d appears %d times in the tree: %s", i, tv.trace, seen[id], trunc(r.Body, 300)))
					continue
				}
				wantParent := ""
				if tv.trace == 1 && j.Parents[i] >= 0 {
					wantParent = hex.EncodeToString(c12SpanID(1, j.Parents[i]))
				}
				if tv.trace == 2 && i == 1 {
					wantParent = hex.EncodeToString(c12SpanID(2, 0))
				}
				if parentOf[id] != wantParent {
					fs.Add("C12/tree-wrong-parent/well-formed", ctx+fmt.Sprintf(": span %d of trace %d hangs under %q, want %q", i, tv.trace, parentOf[id], wantParent))
				}
			}
		}
		for id, c := range seen {
			if c > 1 {
				fs.Add("C12/tree-span-twice/"+shape, ctx+fmt.Sprintf(": span %s appears %d times in the tree of trace %d", id, c, tv.trace))
			}
		}
		if len(seen) > nn {
			fs.Add("C12/tree-foreign-spans/"+shape, ctx+fmt.Sprintf(": the tree of trace %d holds %d spans, the trace has %d", tv.trace, len(seen), nn))
		}
	}
	// ---- view 3: dependency graph ----
	r, f, err = post("depgraph", "/api/traces/generate-dep-graph", fmt.Sprintf(`{"startEpoch":"%d","endEpoch":"%d"}`, startMs, endMs))
	if f != nil || err != nil {
		return f, err
	}
	var dep map[string]map[string]int
	if jerr := json.Unmarshal([]byte(r.Body), &dep); jerr == nil && r.Status == 200 {
		want := map[string]map[string]int{"svcC": {"svcD": 1}}
		for i, p := range j.Parents {
			if p >= 0 && p < n && svcOf(p) != svcOf(i) {
				if want[svcOf(p)] == nil {
					want[svcOf(p)] = map[string]int{}
				}
				want[svcOf(p)][svcOf(i)]++
			}
		}
		if jstr(dep) != jstr(want) {
			fs.Add("C12/dependency-graph/"+shape, ctx+fmt.Sprintf(": dependency graph %s, parent→child pairs crossing services are %s", jstr(dep), jstr(want)))
		}
	} else if wf {
		fs.Add("C12/depgraph-failed/well-formed", ctx+fmt.Sprintf(": http %d %s", r.Status, trunc(r.Body, 200)))
	}
	// ---- view 4: RED metrics (one pass of the periodic computation over the spans of the last five minutes) ----
	if wf {
		if err := w.CallT("redtraces", nil, nil, 90*time.Second); err != nil {
			return die("red-metrics", err)
		}
		rr, err := runQuery(w, Q{Index: "red-traces", Text: "*", Start: now.Add(-10 * time.Minute).UnixMilli(), End: now.Add(10 * time.Minute).UnixMilli(), Size: 100})
		if err != nil {
			return die("red-metrics", err)
		}
		rep.Eval(1)
		// entry span: no parent, or the parent (of the same trace) belongs to another service
		wantEntry, wantErr := map[string]int{"svcC": 1, "svcD": 1}, map[string]int{}
		wantDur := map[string][]float64{"svcC": {float64(c12DurMs(2, 0))}, "svcD": {float64(c12DurMs(2, 1))}}
		for i, p := range j.Parents {
			if p == -1 || svcOf(p) != svcOf(i) {
				wantEntry[svcOf(i)]++
				wantDur[svcOf(i)] = append(wantDur[svcOf(i)], float64(c12DurMs(1, i)))
				if errOf(i) {
					wantErr[svcOf(i)]++
				}
			}
		}
		gotRate, gotErrRate := map[string]float64{}, map[string]float64{}
		gotPct := map[string]map[int]float64{}
		for _, rec := range rr.Records {
			svc := fmt.Sprint(rec["service"])
			if rec["service"] == nil {
				svc = ""
			}
			gotRate[svc], _ = ObsFloat(rec["rate"])
			gotErrRate[svc], _ = ObsFloat(rec["error_rate"])
			gotPct[svc] = map[int]float64{}
			for _, pc := range []int{50, 90, 95, 99} {
				gotPct[svc][pc], _ = ObsFloat(rec[fmt.Sprintf("p%d", pc)])
			}
		}
		for svc, n := range wantEntry {
			if !approxEq(gotRate[svc]*60, float64(n)) {
				fs.Add("C12/red-metrics/rate", ctx+fmt.Sprintf(": service %q has %d entry spans (no parent, or parent in another service) in the last five minutes, RED rate*60 = %v (records %s)", svc, n, gotRate[svc]*60, jstr(rr.Records)))
			} else if !approxEq(gotErrRate[svc], 100*float64(wantErr[svc])/float64(n)) {
				fs.Add("C12/red-metrics/error-rate", ctx+fmt.Sprintf(": service %q: %d of %d entry spans failed, RED error_rate = %v", svc, wantErr[svc], n, gotErrRate[svc]))
			} else {
				for _, pc := range []int{50, 90, 95, 99} {
					if want := c12Percentile(wantDur[svc], pc); !approxEq(gotPct[svc][pc], want) {
						fs.Add("C12/red-metrics/latency-percentile", ctx+fmt.Sprintf(": service %q: entry-span durations %v ms, p%d = %v, RED p%d = %v", svc, wantDur[svc], pc, want, pc, gotPct[svc][pc]))
						break
					}
				}
			}
			rep.Add("red_metric_rows_compared", 1)
		}
		for svc := range gotRate {
			if _, ok := wantEntry[svc]; !ok {
				fs.Add("C12/red-metrics/unknown-service", ctx+fmt.Sprintf(": RED metrics list service %q which has no entry span", svc))
			}
		}
	}
	return fs.Result(), nil
}

func C12() int {
	rep := kernel.NewReport("C12", "exploration")
	n := 3
	if rep.Tier == "thorough" {
		n = 4
	}
	rep.Rule = fmt.Sprintf("every parent function on %d spans of one trace (each span: root, child of any span incl. itself, or child of a span id that does not exist: %d forests — trees, chains, several roots, "+
		"orphans, 2- and 3-cycles, self-parents) × service patterns {one service, alternating, root vs rest} × status patterns {all OK, one ERROR, all ERROR} × ingest order {ascending, descending} × "+
		"{one request, flush in between}; a second well-formed trace re-using the same span ids is ingested alongside. On a freshly booted server the trace search, the span tree of each trace and the "+
		"generated dependency graph are compared with the model, and for well-formed forests one pass of the RED computation (rate, error percentage, p50/p90/p95/p99 of each service's entry spans); malformed forests must yield an error or a partial view without hang, crash or foreign spans. non-trivial = forest with ≥2 services or a malformed link", n, pow(n+2, n))
	rep.Assume = []string{"span times are 'now − 3 s' so that both the ingest-time based search window and the trace's own start/end fall inside the queried window",
		"RED metrics: the periodic pass is invoked once (ProcessRedTracesIngest), its timer is not; result pages: N one-span traces for N around the page size (50), all pages walked, every trace on exactly one page"}
	pool := serverPool()
	pool.RecycleEvery = 1
	d := &Driver[c12Job]{Rep: rep, Pool: pool,
		Budget: kernel.NewBudget(map[string]time.Duration{"quick": 170 * time.Second, "thorough": 40 * time.Minute}[rep.Tier]),
		Enumerate: func(emit func(c12Job)) {
			parents := make([]int, n)
			var rec func(i int)
			k := 0
			rec = func(i int) {
				if i == n {
					ps := append([]int{}, parents...)
					svcs := []string{"one", "alt", "root-vs-rest"}
					if k%5 == 0 {
						emit(c12Job{Parents: ps, Services: "odd-unnamed", Status: "all-ok", Order: []string{"asc", "desc"}[k%2], Flush: k%4 >= 2})
					}
					sts := []string{"ok", "one-error", "all-error"}
					if rep.Tier != "thorough" {
						// quick: rotate through the patterns instead of the full product (stated in bounds)
						emit(c12Job{Parents: ps, Services: svcs[k%3], Status: sts[(k/3)%3], Order: []string{"asc", "desc"}[k%2], Flush: k%4 >= 2})
						emit(c12Job{Parents: ps, Services: "alt", Status: "one-error", Order: []string{"desc", "asc"}[k%2], Flush: k%4 < 2})
					} else {
						for _, sv := range svcs {
							for _, st := range sts {
								emit(c12Job{Parents: ps, Services: sv, Status: st, Order: []string{"asc", "desc"}[k%2], Flush: k%4 >= 2})
							}
						}
					}
					k++
					return
				}
				for p := -1; p <= n; p++ {
					parents[i] = p
					rec(i + 1)
				}
			}
			rec(0)
		},
		Run: c12Run,
		Key: func(j *c12Job) string { return jstr(j) },
		Nontrivial: func(j *c12Job) bool {
			return !j.wellFormed() || j.Services != "one"
		},
	}
	d.Drive()
	c12Paging(rep, d.Budget)
	return rep.Finish()
}

func pow(a, b int) int {
	r := 1
	for i := 0; i < b; i++ {
		r *= a
	}
	return r
}

func init() {
	Registry["C12"] = C12
	Replayers["C12"] = func(doc json.RawMessage) int {
		var probe struct {
			Traces int `json:"traces"`
		}
		_ = json.Unmarshal(doc, &probe)
		if probe.Traces > 0 {
			return MakeReplayer[c12PageJob]("C12", "exploration", serverPool, c12PageRun)(doc)
		}
		return MakeReplayer[c12Job]("C12", "exploration", serverPool, c12Run)(doc)
	}
	_ = strings.Join
}
