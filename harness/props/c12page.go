package props

import (
	"encoding/hex"
	"encoding/json"
	"fmt"
	"time"

	coltracepb "go.opentelemetry.io/proto/otlp/collector/trace/v1"
	commonpb "go.opentelemetry.io/proto/otlp/common/v1"
	respb "go.opentelemetry.io/proto/otlp/resource/v1"
	tracepb "go.opentelemetry.io/proto/otlp/trace/v1"
	"google.golang.org/protobuf/proto"

	"verif/harness/kernel"
)

// C12 part P — the trace search lists every trace exactly once when the traces do not fit on one result page:
// N one-span traces around the page size, all pages walked.

type c12PageJob struct {
	Traces int  `json:"traces"`
	Flush  bool `json:"flushBetween"`
	// Red: instead of walking the search pages, run one pass of the RED computation (which pages through the spans of
	// the last five minutes 1000 at a time) and compare every service's metrics
	Red bool `json:"red,omitempty"`
}

func c12PageRun(w *kernel.Worker, j *c12PageJob, rep *kernel.Report) (*Fail, error) {
	die := func(stage string, err error) (*Fail, error) {
		d, ok := err.(*kernel.Died)
		if !ok {
			return nil, err
		}
		return &Fail{FP: "C12/server-died/paging-" + stage + "/" + d.Frame, What: fmt.Sprintf("%d traces: %s\n%s", j.Traces, d.Exit, trunc(d.Stderr, 1500))}, nil
	}
	now := time.Now()
	base := uint64(now.Add(-3 * time.Second).UnixNano())
	tid := func(k int) string { return fmt.Sprintf("c12a9ec12a9ec12a9ec12a9ec12a%04x", k) }
	// paging part: one service, all OK, half a millisecond each; RED part: three services, every fifth span failed,
	// seven different durations
	svc := func(k int) string {
		if !j.Red {
			return "svcP"
		}
		return []string{"svcP", "svcQ", "svcR"}[k%3]
	}
	status := func(k int) tracepb.Status_StatusCode {
		if j.Red && k%5 == 0 {
			return tracepb.Status_STATUS_CODE_ERROR
		}
		return tracepb.Status_STATUS_CODE_OK
	}
	durMs := func(k int) uint64 {
		if !j.Red {
			return 0
		}
		return uint64(k%7+1) * 10
	}
	send := func(from, to int) (*Fail, error) {
		var rsp []*tracepb.ResourceSpans
		for k := from; k < to; k++ {
			id, _ := hex.DecodeString(tid(k))
			sid, _ := hex.DecodeString(fmt.Sprintf("a9e000000000%04x", k))
			rsp = append(rsp, &tracepb.ResourceSpans{
				Resource: &respb.Resource{Attributes: []*commonpb.KeyValue{{Key: "service.name", Value: anyValue(svc(k))}}},
				ScopeSpans: []*tracepb.ScopeSpans{{Spans: []*tracepb.Span{{TraceId: id, SpanId: sid, Name: fmt.Sprintf("op%d", k), Kind: tracepb.Span_SPAN_KIND_SERVER,
					StartTimeUnixNano: base + uint64(k)*1_000, EndTimeUnixNano: base + uint64(k)*1_000 + durMs(k)*1_000_000 + 500_000, Status: &tracepb.Status{Code: status(k)}}}}}})
		}
		pb, err := proto.Marshal(&coltracepb.ExportTraceServiceRequest{ResourceSpans: rsp})
		if err != nil {
			return nil, err
		}
		var r httpRes
		if err := w.Call("http", map[string]interface{}{"server": "ingest", "method": "POST", "path": "/otlp/v1/traces", "body_b64": b64(pb),
			"headers": map[string]string{"Content-Type": "application/x-protobuf"}}, &r); err != nil {
			return die("ingest", err)
		}
		if r.Status != 200 {
			return &Fail{FP: "C12/ingest-rejected", What: fmt.Sprintf("%d traces: http %d %s", j.Traces, r.Status, trunc(r.Body, 200))}, nil
		}
		return nil, nil
	}
	if j.Flush {
		if f, err := send(0, j.Traces/2); f != nil || err != nil {
			return f, err
		}
		if err := w.Call("flush", nil, nil); err != nil {
			return die("flush", err)
		}
		if f, err := send(j.Traces/2, j.Traces); f != nil || err != nil {
			return f, err
		}
	} else if f, err := send(0, j.Traces); f != nil || err != nil {
		return f, err
	}
	if err := w.Call("flush", nil, nil); err != nil {
		return die("flush", err)
	}
	rep.Transition(int64(j.Traces))
	if j.Red {
		if err := w.CallT("redtraces", nil, nil, 120*time.Second); err != nil {
			return die("red-metrics", err)
		}
		rr, err := runQuery(w, Q{Index: "red-traces", Text: "*", Start: now.Add(-10 * time.Minute).UnixMilli(), End: now.Add(10 * time.Minute).UnixMilli(), Size: 100})
		if err != nil {
			return die("red-metrics", err)
		}
		rep.Eval(1)
		fs := &Fails{}
		cnt, errs, durs := map[string]int{}, map[string]int{}, map[string][]float64{}
		for k := 0; k < j.Traces; k++ {
			cnt[svc(k)]++
			if status(k) == tracepb.Status_STATUS_CODE_ERROR {
				errs[svc(k)]++
			}
			durs[svc(k)] = append(durs[svc(k)], float64(durMs(k)))
		}
		got := map[string]map[string]interface{}{}
		for _, rec := range rr.Records {
			got[fmt.Sprint(rec["service"])] = rec
		}
		for s, n := range cnt {
			rec := got[s]
			rate, _ := ObsFloat(rec["rate"])
			er, _ := ObsFloat(rec["error_rate"])
			ctx := fmt.Sprintf("%d one-span traces of three services in one request, one pass of the RED computation: service %s has %d entry spans, %d failed", j.Traces, s, n, errs[s])
			if !approxEq(rate*60, float64(n)) {
				fs.Add("C12/red-metrics/rate-beyond-one-page", ctx+fmt.Sprintf("; RED rate*60 = %v", rate*60))
			} else if !approxEq(er, 100*float64(errs[s])/float64(n)) {
				fs.Add("C12/red-metrics/error-rate-beyond-one-page", ctx+fmt.Sprintf("; RED error_rate = %v", er))
			} else {
				for _, pc := range []int{50, 90, 95, 99} {
					g, _ := ObsFloat(rec[fmt.Sprintf("p%d", pc)])
					if want := c12Percentile(durs[s], pc); !approxEq(g, want) {
						fs.Add("C12/red-metrics/latency-percentile-beyond-one-page", ctx+fmt.Sprintf("; p%d = %v, RED p%d = %v", pc, want, pc, g))
						break
					}
				}
			}
		}
		return fs.Result(), nil
	}
	startMs, endMs := now.Add(-5*time.Minute).UnixMilli(), now.Add(2*time.Minute).UnixMilli()
	seen := map[string]int{}
	var sizes []int
	for page := 1; page <= j.Traces/10+3; page++ {
		var r httpRes
		body := fmt.Sprintf(`{"searchText":"*","startEpoch":"%d","endEpoch":"%d","queryLanguage":"Splunk QL","page":%d}`, startMs, endMs, page)
		if err := w.CallT("http", map[string]interface{}{"server": "query", "method": "POST", "path": "/api/traces/search", "body": body,
			"headers": map[string]string{"Content-Type": "application/json"}}, &r, 90*time.Second); err != nil {
			return die("search", err)
		}
		rep.Eval(1)
		var sr struct {
			Traces []struct {
				TraceID string `json:"trace_id"`
				Spans   int    `json:"span_count"`
			} `json:"traces"`
		}
		if jerr := json.Unmarshal([]byte(r.Body), &sr); jerr != nil || r.Status != 200 {
			return &Fail{FP: "C12/paging/search-failed", What: fmt.Sprintf("%d traces, page %d: http %d %s", j.Traces, page, r.Status, trunc(r.Body, 200))}, nil
		}
		if len(sr.Traces) == 0 {
			break
		}
		sizes = append(sizes, len(sr.Traces))
		for _, t := range sr.Traces {
			seen[t.TraceID]++
		}
	}
	fs := &Fails{}
	missing, dup := []string{}, []string{}
	for k := 0; k < j.Traces; k++ {
		switch c := seen[tid(k)]; {
		case c == 0:
			missing = append(missing, fmt.Sprintf("#%d", k))
		case c > 1:
			dup = append(dup, fmt.Sprintf("#%d×%d", k, c))
		}
	}
	if len(missing) > 0 {
		fs.Add("C12/paging/trace-on-no-page", fmt.Sprintf("%d one-span traces, pages of %v traces: traces %v are listed on no page", j.Traces, sizes, missing))
	}
	if len(dup) > 0 {
		fs.Add("C12/paging/trace-on-several-pages", fmt.Sprintf("%d one-span traces, pages of %v traces: listed more than once: %v", j.Traces, sizes, dup))
	}
	if len(seen) > j.Traces {
		fs.Add("C12/paging/unknown-trace", fmt.Sprintf("%d traces ingested, %d distinct trace ids listed", j.Traces, len(seen)))
	}
	return fs.Result(), nil
}

func c12Paging(rep *kernel.Report, budget *kernel.Budget) {
	pool := serverPool()
	pool.RecycleEvery = 1
	ns := []int{1, 49, 50, 51}
	if rep.Tier == "thorough" {
		ns = []int{1, 2, 49, 50, 51, 99, 100, 101, 150, 151}
	}
	d := &Driver[c12PageJob]{Rep: rep, Pool: pool, Budget: budget,
		Enumerate: func(emit func(c12PageJob)) {
			for _, n := range ns {
				emit(c12PageJob{Traces: n})
				if n > 1 {
					emit(c12PageJob{Traces: n, Flush: true})
				}
			}
			for _, n := range []int{999, 1000, 1001, 1300} {
				emit(c12PageJob{Traces: n, Red: true})
			}
		},
		Run:        c12PageRun,
		Key:        func(j *c12PageJob) string { return "page|" + jstr(j) },
		Nontrivial: func(j *c12PageJob) bool { return j.Traces >= 50 },
	}
	d.Drive()
	rep.Set("paging_trace_counts", ns)
}
