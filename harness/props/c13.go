package props

import (
	"encoding/json"
	"fmt"
	"regexp"
	"sort"
	"strings"
	"sync/atomic"
	"time"

	"verif/harness/kernel"
)

// C13 — searches see only the requested indexes of the requesting tenant. Model checking proper: explicit-state search
// over a tenant model (org → index → events, org → alias → indexes); every reachable model state (deduplicated by its
// canonical form) is reached on the real code by replaying its shortest path in a fresh name space, and all query
// forms are evaluated there.

type c13Op struct {
	Op    string `json:"op"` // ingest | alias | unalias | delete | rotate
	Org   int64  `json:"org,omitempty"`
	Index string `json:"index,omitempty"` // logical name: a | ab | a-b | a* (delete only)
	Alias string `json:"alias,omitempty"`
}

func (o c13Op) String() string {
	switch o.Op {
	case "ingest":
		return fmt.Sprintf("ingest(%d,%s)", o.Org, o.Index)
	case "alias":
		return fmt.Sprintf("alias(%d,%s→%s)", o.Org, o.Alias, o.Index)
	case "unalias":
		return fmt.Sprintf("unalias(%d,%s→%s)", o.Org, o.Alias, o.Index)
	case "delete":
		return fmt.Sprintf("delete(%d,%s)", o.Org, o.Index)
	}
	return o.Op
}

type c13Model struct {
	Events  map[int64]map[string][]string        // org -> index -> event ids
	Aliases map[int64]map[string]map[string]bool // org -> alias -> indexes
	Rotated bool
	nextEv  int
}

func newC13Model() *c13Model {
	return &c13Model{Events: map[int64]map[string][]string{0: {}, 1: {}}, Aliases: map[int64]map[string]map[string]bool{0: {}, 1: {}}}
}

func (m *c13Model) clone() *c13Model {
	n := newC13Model()
	n.Rotated, n.nextEv = m.Rotated, m.nextEv
	for o, ix := range m.Events {
		for i, ev := range ix {
			n.Events[o][i] = append([]string{}, ev...)
		}
	}
	for o, al := range m.Aliases {
		for a, set := range al {
			n.Aliases[o][a] = map[string]bool{}
			for i := range set {
				n.Aliases[o][a][i] = true
			}
		}
	}
	return n
}

var c13Indexes = []string{"a", "ab", "a-b"}
var c13AliasNames = []string{"x", "ab"} // "ab" is also an index name

func globMatch(pat, s string) bool {
	re := "^" + strings.ReplaceAll(regexp.QuoteMeta(pat), `\*`, ".*") + "$"
	ok, _ := regexp.MatchString(re, s)
	return ok
}

// enabled returns the operations worth taking from this state (no-ops on absent objects are left out).
func (m *c13Model) enabled() []c13Op {
	var ops []c13Op
	for _, org := range []int64{0, 1} {
		for _, ix := range c13Indexes {
			_, isAlias := m.Aliases[org][ix]
			if len(m.Events[org][ix]) < 2 && !isAlias {
				// ingesting under a name that is currently an alias writes to the alias target: not part of the alphabet
				ops = append(ops, c13Op{Op: "ingest", Org: org, Index: ix})
			}
			if _, ok := m.Events[org][ix]; ok {
				for _, al := range c13AliasNames {
					if !m.Aliases[org][al][ix] {
						ops = append(ops, c13Op{Op: "alias", Org: org, Index: ix, Alias: al})
					} else {
						ops = append(ops, c13Op{Op: "unalias", Org: org, Index: ix, Alias: al})
					}
				}
				if !isAlias {
					// deleting a name that is an index and an alias at once: which of the two is meant is not defined
					ops = append(ops, c13Op{Op: "delete", Org: org, Index: ix})
				}
			}
		}
		if len(m.Events[org]) > 0 {
			ops = append(ops, c13Op{Op: "delete", Org: org, Index: "a*"})
		}
	}
	if !m.Rotated {
		any := false
		for _, ix := range m.Events {
			if len(ix) > 0 {
				any = true
			}
		}
		if any {
			ops = append(ops, c13Op{Op: "rotate"})
		}
	}
	return ops
}

func (m *c13Model) apply(o c13Op) (evID string) {
	switch o.Op {
	case "ingest":
		evID = fmt.Sprintf("e%d", m.nextEv)
		m.nextEv++
		m.Events[o.Org][o.Index] = append(m.Events[o.Org][o.Index], evID)
		m.Rotated = false
	case "alias":
		if m.Aliases[o.Org][o.Alias] == nil {
			m.Aliases[o.Org][o.Alias] = map[string]bool{}
		}
		m.Aliases[o.Org][o.Alias][o.Index] = true
	case "unalias":
		delete(m.Aliases[o.Org][o.Alias], o.Index)
		if len(m.Aliases[o.Org][o.Alias]) == 0 {
			delete(m.Aliases[o.Org], o.Alias)
		}
	case "delete":
		for ix := range m.Events[o.Org] {
			if ix == o.Index || (strings.Contains(o.Index, "*") && globMatch(o.Index, ix)) {
				delete(m.Events[o.Org], ix)
				for al, set := range m.Aliases[o.Org] {
					delete(set, ix)
					if len(set) == 0 {
						delete(m.Aliases[o.Org], al)
					}
				}
			}
		}
	case "rotate":
		m.Rotated = true
	}
	return
}

// canon: the canonical state key — sorted model with event *counts* (ids are path-dependent), plus the layout flag.
func (m *c13Model) canon() string {
	var parts []string
	for _, org := range []int64{0, 1} {
		for _, ix := range sortedKeys(m.Events[org]) {
			parts = append(parts, fmt.Sprintf("%d/%s=%d", org, ix, len(m.Events[org][ix])))
		}
		for _, al := range sortedKeys(m.Aliases[org]) {
			parts = append(parts, fmt.Sprintf("%d/@%s→%v", org, al, sortedKeys(m.Aliases[org][al])))
		}
	}
	return strings.Join(parts, ";") + fmt.Sprintf("|rot=%v", m.Rotated)
}

// expected ids for an index expression of org, per the documented expansion: a plain name that is an alias stands for
// the alias's indexes, otherwise for the index of that name; a wildcard matches index names and alias names.
// Returns lower and upper bound sets (they differ only where a wildcard matches an alias, which the statement leaves open).
func (m *c13Model) expect(org int64, expr string) (must, may map[string]bool) {
	must, may = map[string]bool{}, map[string]bool{}
	addIdx := func(set map[string]bool, ix string) {
		for _, id := range m.Events[org][ix] {
			set[id] = true
		}
	}
	for _, part := range strings.Split(expr, ",") {
		if strings.Contains(part, "*") {
			for ix := range m.Events[org] {
				if globMatch(part, ix) {
					addIdx(must, ix)
					addIdx(may, ix)
				}
			}
			for al, set := range m.Aliases[org] {
				if globMatch(part, al) {
					for ix := range set {
						addIdx(may, ix)
					}
				}
			}
			continue
		}
		if set, ok := m.Aliases[org][part]; ok {
			for ix := range set {
				addIdx(must, ix)
				addIdx(may, ix)
			}
			// an alias that shares its name with an index: either reading is accepted
			addIdx(may, part)
			continue
		}
		addIdx(must, part)
		addIdx(may, part)
	}
	return
}

type c13Job struct {
	Path []c13Op `json:"path"`
}

var c13Seq int64

func c13Run(w *kernel.Worker, j *c13Job, rep *kernel.Report) (*Fail, error) {
	die := func(err error) (*Fail, error) {
		fp, what, herr := diedResult("C13", err)
		if herr != nil {
			return nil, herr
		}
		return &Fail{FP: fp, What: what}, nil
	}
	pfx := fmt.Sprintf("t%d", atomic.AddInt64(&c13Seq, 1))
	real := func(logical string) string { return pfx + logical }
	m := newC13Model()
	owner := map[string]int64{}
	pathStr := func() string {
		var s []string
		for _, o := range j.Path {
			s = append(s, o.String())
		}
		return strings.Join(s, " ; ")
	}
	defer func() {
		for _, org := range []int64{0, 1} {
			_ = delIndex(w, org, pfx+"*")
		}
	}()
	for _, o := range j.Path {
		switch o.Op {
		case "ingest":
			id := m.apply(o)
			owner[id] = o.Org
			// one field whose name belongs to the organisation and one that belongs to the index (column listings)
			ev := fmt.Sprintf(`{"timestamp":%d,"id":"%s","org":%d,"ix":"%s","f_org%d":1,"f_ix_%s":1}`, T0+int64(m.nextEv), id, o.Org, o.Index, o.Org, strings.ReplaceAll(o.Index, "-", "_"))
			if err := ingestStep(w, o.Org, real(o.Index), []string{ev}); err != nil {
				return die(err)
			}
			if err := w.Call("flush", nil, nil); err != nil {
				return die(err)
			}
		case "alias", "unalias":
			act := "add"
			if o.Op == "unalias" {
				act = "remove"
			}
			body := fmt.Sprintf(`{"actions":[{"%s":{"index":"%s","alias":"%s"}}]}`, act, real(o.Index), real(o.Alias))
			var r httpRes
			if err := w.Call("call", map[string]interface{}{"handler": "postAliases", "org": o.Org, "method": "POST", "body": body}, &r); err != nil {
				return die(err)
			}
			if r.Status != 200 {
				return &Fail{FP: "C13/alias-op-rejected/" + o.Op, What: fmt.Sprintf("path %s: %s → http %d %s", pathStr(), o, r.Status, trunc(r.Body, 200))}, nil
			}
			m.apply(o)
		case "delete":
			if err := delIndex(w, o.Org, real(o.Index)); err != nil {
				return die(err)
			}
			m.apply(o)
		case "rotate":
			if err := w.Call("rotate", nil, nil); err != nil {
				return die(err)
			}
			m.apply(o)
		}
		rep.Transition(1)
	}
	// all query forms in the reached state
	exprs := []string{"a", "ab", "a-b", "a*", "*", "x", "a,ab", "zz", "ab,x", "*a", "*b", "a*b"}
	var qs []Q
	type qd struct {
		org  int64
		expr string
		form string
	}
	var ds []qd
	for _, org := range []int64{0, 1} {
		for _, e := range exprs {
			var parts []string
			for _, p := range strings.Split(e, ",") {
				parts = append(parts, real(p))
			}
			ie := strings.Join(parts, ",")
			qs = append(qs, Q{Org: org, Index: ie, Text: "*", Start: T0 - 10, End: T0 + 10000, Size: 1000})
			ds = append(ds, qd{org, e, "search"})
			qs = append(qs, Q{Org: org, Index: ie, Text: "* | stats count", Start: T0 - 10, End: T0 + 10000, Size: 1000})
			ds = append(ds, qd{org, e, "count"})
		}
	}
	rs, err := runQueries(w, qs)
	if err != nil {
		return die(err)
	}
	rep.Eval(int64(len(qs)))
	fs := &Fails{}
	// column listing of every index of the name space, per organisation: only field names of that organisation's events
	for _, org := range []int64{0, 1} {
		var cr struct {
			Status int    `json:"status"`
			Body   string `json:"body"`
		}
		body := fmt.Sprintf(`{"indexName":%s,"startEpoch":%d,"endEpoch":%d}`, jq(real("*")), T0-10, T0+10000)
		if err := w.Call("call", map[string]interface{}{"handler": "listColumns", "org": org, "method": "POST", "uri": "/api/search/columns", "body": body}, &cr); err != nil {
			return die(err)
		}
		rep.Eval(1)
		var cols []string
		if json.Unmarshal([]byte(cr.Body), &cols) != nil {
			continue
		}
		for _, c := range cols {
			if c == fmt.Sprintf("f_org%d", 1-org) {
				fs.Add("C13/cross-tenant-leak/column-listing", fmt.Sprintf("path [%s] → state %s; org %d lists the columns of %s: %v — f_org%d is a field name that only events of the other organisation carry", pathStr(), m.canon(), org, real("*"), cols, 1-org))
			}
			if strings.HasPrefix(c, "f_ix_") {
				ix := strings.ReplaceAll(strings.TrimPrefix(c, "f_ix_"), "_", "-")
				if len(m.Events[org][ix]) == 0 {
					fs.Add("C13/unrequested-index/column-listing", fmt.Sprintf("path [%s] → state %s; org %d lists the columns of %s: %v — %s belongs to index %s, which holds no event of this organisation", pathStr(), m.canon(), org, real("*"), cols, c, ix))
				}
			}
		}
	}
	ctx := func(d qd) string {
		return fmt.Sprintf("path [%s] → state %s; org %d index expression %q (%s)", pathStr(), m.canon(), d.org, d.expr, d.form)
	}
	var lastIDs map[string]bool
	for i, r := range rs {
		d := ds[i]
		must, may := m.expect(d.org, d.expr)
		if r.Err != "" || len(r.Errors) > 0 {
			if len(must) == 0 {
				continue // nothing to return: an error for an unknown index is acceptable
			}
			fs.Add("C13/query-error/"+d.form, ctx(d)+": "+r.Err+strings.Join(r.Errors, ";"))
			continue
		}
		if d.form == "search" {
			got, dup := IDSet(r)
			lastIDs = got
			if dup != "" {
				fs.Add("C13/duplicate/"+c13ExprClass(d.expr), ctx(d)+": "+dup+" twice")
			}
			for id := range got {
				if o, ok := owner[id]; ok && o != d.org {
					fs.Add("C13/cross-tenant-leak/"+c13ExprClass(d.expr), ctx(d)+fmt.Sprintf(": returned %s which belongs to org %d", id, o))
				} else if !may[id] {
					fs.Add("C13/unrequested-index/"+c13ExprClass(d.expr), ctx(d)+fmt.Sprintf(": returned %s which is not in any index the expression names; expected %v", id, sortedKeys(must)))
				}
			}
			for id := range must {
				if !got[id] {
					cls := c13ExprClass(d.expr)
					if ac := c13AliasClass(m, d.org, d.expr); ac != "" {
						cls = ac
					}
					// is the missing event in an index the expression names directly (not through an alias)?
					direct := false
					for _, part := range strings.Split(d.expr, ",") {
						for _, eid := range m.Events[d.org][part] {
							if eid == id {
								direct = true
							}
						}
					}
					nameWasAlias := c13NameWasAlias(j.Path, m, d.org, d.expr)
					if !direct && cls == "alias-of-org≠0" {
						nameWasAlias = "" // the event is expected through an alias of an organisation ≠ 0: that root cause, whatever else the path did
					}
					switch nameWasAlias {
					case "unalias":
						// own class: an alias that lost its last target must not keep shadowing an index of the same name
						cls = "index-whose-name-was-an-alias-until-the-alias-lost-its-last-target"
					case "deleted-target":
						rep.Add("not_asserted_alias_of_deleted_index_shares_name_with_index", 1)
						continue
					}
					if c13OtherOrgDeleted(j.Path, d.org) {
						// one root cause with its own class: deleting an index removes the data of the same-named index of the other organisation
						cls = "after-the-other-organisation-deleted-an-index-of-the-same-name"
					}
					fs.Add("C13/missing/"+cls, ctx(d)+fmt.Sprintf(": %s not returned; got %v, expected %v", id, sortedKeys(got), sortedKeys(must)))
				}
			}
			if len(must) > 0 && (len(m.Events[0]) > 0 && len(m.Events[1]) > 0 || len(m.Events[d.org]) > 1) {
				rep.Nontrivial(m.canon() + "|" + fmt.Sprint(d.org) + d.expr)
			}
		} else {
			// stats count must agree with the search of the same expression
			n := int64(-1)
			if len(r.Measure) == 1 {
				n, _ = ObsInt(r.Measure[0].M["count(*)"])
			} else if len(r.Measure) == 0 {
				n = 0
			}
			if lastIDs != nil && n != int64(len(lastIDs)) {
				// only an alarm if it breaks the bounds of the model
				if n < int64(len(must)) || n > int64(len(may)) {
					ccls := c13ExprClass(d.expr)
					if n < int64(len(must)) && c13OtherOrgDeleted(j.Path, d.org) {
						ccls = "after-the-other-organisation-deleted-an-index-of-the-same-name"
					}
					fs.Add("C13/count-outside-model/"+ccls, ctx(d)+fmt.Sprintf(": stats count = %d, model allows %d..%d", n, len(must), len(may)))
				}
			}
		}
	}
	return fs.Result(), nil
}

// c13AliasClass marks expectations that depend on an alias of an organisation other than 0.
func c13AliasClass(m *c13Model, org int64, expr string) string {
	if org == 0 {
		return ""
	}
	for _, p := range strings.Split(expr, ",") {
		for al := range m.Aliases[org] {
			if p == al || (strings.Contains(p, "*") && globMatch(p, al)) {
				return "alias-of-org≠0"
			}
		}
	}
	return ""
}

// c13OtherOrgDeleted: the path contains a delete by the other organisation that names (or matches) an index this
// organisation has ingested into before.
func c13OtherOrgDeleted(path []c13Op, org int64) bool {
	mine := map[string]bool{}
	for _, o := range path {
		if o.Op == "ingest" && o.Org == org {
			mine[o.Index] = true
		}
		if o.Op == "delete" && o.Org != org {
			for ix := range mine {
				if ix == o.Index || (strings.Contains(o.Index, "*") && globMatch(o.Index, ix)) {
					return true
				}
			}
		}
	}
	return false
}

// c13NameWasAlias: a part of the expression names an index of org whose name was also an alias name earlier on the
// path, and that alias does not exist any more in the model. Returns "unalias" if its last target was taken away by an
// explicit alias removal, "deleted-target" if the target index was deleted while the alias still pointed to it (whether
// an alias survives the deletion of its index is not defined, and with it which reading the shared name has).
func c13NameWasAlias(path []c13Op, m *c13Model, org int64, expr string) string {
	for _, part := range strings.Split(expr, ",") {
		if _, isIdx := m.Events[org][part]; !isIdx {
			continue
		}
		if _, still := m.Aliases[org][part]; still {
			continue
		}
		targets := map[string]bool{}
		how := ""
		for _, o := range path {
			if o.Org != org {
				continue
			}
			switch o.Op {
			case "alias":
				if o.Alias == part {
					targets[o.Index] = true
					how = ""
				}
			case "unalias":
				if o.Alias == part {
					delete(targets, o.Index)
					if len(targets) == 0 {
						how = "unalias"
					}
				}
			case "delete":
				for t := range targets {
					if t == o.Index || (strings.Contains(o.Index, "*") && globMatch(o.Index, t)) {
						delete(targets, t)
						if len(targets) == 0 {
							how = "deleted-target"
						}
					}
				}
			}
		}
		if how != "" {
			return how
		}
	}
	return ""
}

func c13ExprClass(e string) string {
	switch {
	case e == "*":
		return "all"
	case strings.Contains(e, "*"):
		return "wildcard"
	case strings.Contains(e, ","):
		return "list"
	case e == "x":
		return "alias"
	}
	return "name"
}

// c13States: BFS over the model; returns one shortest path per distinct canonical state.
func c13States(depth int) [][]c13Op {
	type node struct {
		m    *c13Model
		path []c13Op
	}
	start := node{newC13Model(), nil}
	seen := map[string]bool{start.m.canon(): true}
	frontier := []node{start}
	var out [][]c13Op
	for d := 0; d < depth; d++ {
		var next []node
		for _, n := range frontier {
			for _, o := range n.m.enabled() {
				nm := n.m.clone()
				nm.apply(o)
				k := nm.canon()
				p := append(append([]c13Op{}, n.path...), o)
				if seen[k] {
					// the model state is not new, but the implementation got there another way (e.g. alias added and
					// removed again): the transition is still executed and judged, it is only not expanded further
					if o.Op == "unalias" || o.Op == "delete" || o.Op == "alias" || o.Op == "ingest" {
						out = append(out, p)
					}
					continue
				}
				seen[k] = true
				next = append(next, node{nm, p})
				out = append(out, p)
			}
		}
		frontier = next
	}
	sort.SliceStable(out, func(a, b int) bool { return len(out[a]) < len(out[b]) })
	return out
}

func c13Pool() *kernel.Pool {
	off := false
	return &kernel.Pool{Boot: map[string]interface{}{"pqs": &off, "orgs": []int64{0, 1}}, RecycleEvery: 60}
}

func C13() int {
	rep := kernel.NewReport("C13", "model_checking")
	depth := 4
	if rep.Tier == "thorough" {
		depth = 5
	}
	rep.Rule = fmt.Sprintf("breadth-first search to depth %d over the tenant model with operations ingest(org∈{0,1}, index∈{a, ab, a-b}), add/remove alias (x, and ab which is also an index name), "+
		"delete(org, index | a*), rotate; every distinct canonical state (sorted model + layout flag) is reached on the real code by replaying its shortest path in a fresh name space, "+
		"then 12 index expressions (a, ab, a-b, a*, *, x, \"a,ab\", zz, \"ab,x\", and the wildcards *a, *b, a*b that do not end in *) × both organisations × {*, stats count} are evaluated: no event of the other organisation, "+
		"nothing outside the named indexes, everything inside them. non-trivial = expression with a non-empty expected result while both orgs (or ≥2 indexes of the org) hold data. Colliding names: organisations 1 and 11 × indexes Pa and Pa1 (name and id glued without a separator coincide), every order of the first ingest into the four pairs, two rounds, with and without rotation; each organisation's searches over each index, the wildcard and * return exactly its own events", depth)
	rep.Assume = []string{"multi-tenancy is driven through the public seam: GetIdsConditionHook → [0,1] and the org id argument of the processing functions",
		"whether a wildcard also expands alias names, and which reading wins when an alias shares its name with an index, is left open (lower/upper bound)"}
	paths := c13States(depth)
	rep.Bounds["depth"] = depth
	rep.Bounds["model_states"] = len(paths)
	budget := kernel.NewBudget(map[string]time.Duration{"quick": 170 * time.Second, "thorough": 40 * time.Minute}[rep.Tier])
	d := &Driver[c13Job]{Rep: rep, Pool: c13Pool(),
		Budget: budget,
		Enumerate: func(emit func(c13Job)) {
			for _, p := range paths {
				emit(c13Job{Path: p})
			}
		},
		Run:        c13Run,
		Key:        func(j *c13Job) string { return jstr(j.Path) },
		Nontrivial: func(j *c13Job) bool { return false },
	}
	d.Drive()
	c13Collide(rep, budget)
	return rep.Finish()
}

func init() {
	Registry["C13"] = C13
	Replayers["C13"] = func(doc json.RawMessage) int {
		var probe struct {
			Order []int `json:"order"`
		}
		_ = json.Unmarshal(doc, &probe)
		if len(probe.Order) > 0 {
			return MakeReplayer[c13xJob]("C13", "model_checking", c13xPool, c13xRun)(doc)
		}
		return MakeReplayer[c13Job]("C13", "model_checking", c13Pool, c13Run)(doc)
	}
}
