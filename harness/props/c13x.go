package props

import (
	"fmt"
	"sort"
	"strings"
	"sync/atomic"

	"verif/harness/kernel"
)

// C13, second part — tenant/index pairs forced to collide under every concatenation of name and organisation id: organisations
// 1 and 11 and the index names P+"a" and P+"a1" (so that "a1"+"1" == "a"+"11" and "1"+"1a"… style keys coincide wherever an
// internal key is built by gluing the two without a separator). Every order of the first ingest into the four
// (organisation, index) pairs × {flush only, flush+rotate} is executed; then each organisation's searches over each
// index, over the wildcard and over * must return exactly that pair's / that organisation's events.

type c13xJob struct {
	Order  []int `json:"order"` // permutation of the four pairs
	Rotate bool  `json:"rotate"`
}

var c13xOrgs = []int64{1, 11}
var c13xSeq int64

func c13xPool() *kernel.Pool {
	off := false
	return &kernel.Pool{Boot: map[string]interface{}{"pqs": &off, "orgs": c13xOrgs}, RecycleEvery: 40}
}

func c13xRun(w *kernel.Worker, j *c13xJob, rep *kernel.Report) (*Fail, error) {
	die := func(err error) (*Fail, error) {
		fp, what, herr := diedResult("C13", err)
		if herr != nil {
			return nil, herr
		}
		return &Fail{FP: fp + "/colliding-names", What: what}, nil
	}
	pfx := fmt.Sprintf("u%d", atomic.AddInt64(&c13xSeq, 1))
	type pair struct {
		org int64
		ix  string
	}
	pairs := []pair{{1, pfx + "a"}, {1, pfx + "a1"}, {11, pfx + "a"}, {11, pfx + "a1"}}
	defer func() {
		for _, org := range c13xOrgs {
			_ = delIndex(w, org, pfx+"*")
		}
	}()
	want := map[pair][]string{}
	n := 0
	// two rounds: the second ingest of every pair goes to a store that exists already
	for round := 0; round < 2; round++ {
		for _, k := range j.Order {
			p := pairs[k]
			id := fmt.Sprintf("o%d_%s_%d", p.org, strings.TrimPrefix(p.ix, pfx), round)
			ev := fmt.Sprintf(`{"timestamp":%d,"id":"%s","org":%d}`, T0+int64(n), id, p.org)
			n++
			if err := ingestStep(w, p.org, p.ix, []string{ev}); err != nil {
				return die(err)
			}
			want[p] = append(want[p], id)
			rep.Transition(1)
		}
		if err := w.Call("flush", nil, nil); err != nil {
			return die(err)
		}
	}
	if j.Rotate {
		if err := w.Call("rotate", nil, nil); err != nil {
			return die(err)
		}
	}
	ctx := fmt.Sprintf("ingest order %v (pairs: 0=(org 1,%sa) 1=(org 1,%sa1) 2=(org 11,%sa) 3=(org 11,%sa1)), two rounds, rotate=%v", j.Order, pfx, pfx, pfx, pfx, j.Rotate)
	fs := &Fails{}
	for _, org := range c13xOrgs {
		for _, expr := range []string{pfx + "a", pfx + "a1", pfx + "a*", "*"} {
			var exp []string
			for p, ids := range want {
				if p.org == org && (expr == "*" || expr == pfx+"a*" || expr == p.ix) {
					exp = append(exp, ids...)
				}
			}
			sort.Strings(exp)
			r, err := runQuery(w, Q{Org: org, Index: expr, Text: "*", Start: T0 - 10, End: T0 + 10000, Size: 1000})
			if err != nil {
				return die(err)
			}
			rep.Eval(1)
			var got []string
			for _, rec := range r.Records {
				id, _ := rec["id"].(string)
				if expr == "*" && !strings.HasPrefix(id, "o") {
					continue
				}
				got = append(got, id)
			}
			sort.Strings(got)
			if expr == "*" {
				// other name spaces of the same organisation may hold data of earlier jobs: only ids of this job count
				var mine []string
				for _, g := range got {
					for _, ids := range want {
						for _, id := range ids {
							if id == g {
								mine = append(mine, g)
							}
						}
					}
				}
				got = mine
			}
			if strings.Join(got, " ") != strings.Join(exp, " ") {
				class := "missing-or-extra"
				for _, g := range got {
					if !strings.HasPrefix(g, fmt.Sprintf("o%d_", org)) {
						class = "cross-tenant-leak"
					}
				}
				fs.Add("C13/"+class+"/colliding-names", fmt.Sprintf("%s: organisation %d searching %q got %v, expected %v", ctx, org, expr, got, exp))
			} else if len(exp) > 0 {
				rep.Nontrivial(fmt.Sprintf("%v|%v|%d|%s", j.Order, j.Rotate, org, strings.TrimPrefix(expr, pfx)))
			}
		}
	}
	return fs.Result(), nil
}

func c13Collide(rep *kernel.Report, budget *kernel.Budget) {
	var perms [][]int
	var rec func(cur []int, used int)
	rec = func(cur []int, used int) {
		if len(cur) == 4 {
			perms = append(perms, append([]int{}, cur...))
			return
		}
		for i := 0; i < 4; i++ {
			if used&(1<<i) == 0 {
				rec(append(cur, i), used|1<<i)
			}
		}
	}
	rec(nil, 0)
	d := &Driver[c13xJob]{Rep: rep, Pool: c13xPool(), Budget: budget,
		Enumerate: func(emit func(c13xJob)) {
			for _, p := range perms {
				emit(c13xJob{Order: p, Rotate: false})
				emit(c13xJob{Order: p, Rotate: true})
			}
		},
		Run:        c13xRun,
		Key:        func(j *c13xJob) string { return jstr(j) },
		Nontrivial: func(j *c13xJob) bool { return false },
	}
	rep.Bounds["colliding_name_jobs"] = 2 * len(perms)
	d.Drive()
}
