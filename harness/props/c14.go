package props

import (
	"encoding/json"
	"fmt"
	"os"
	"path/filepath"
	"strings"
	"sync"
	"time"

	"verif/harness/kernel"
)

// C14 — retention removes exactly what is expired. seqx over all segment-age sets (time-based pass), repeated and
// across restarts; crashfs over every prefix of the deletion's file-system operations.

type c14Seg struct {
	Index string `json:"index"`
	Age   string `json:"age"` // old | fresh | straddle
}

type c14Case struct {
	Segs    []c14Seg `json:"segments"` // rotated log segments, in creation order
	Open    string   `json:"open"`     // "" | index holding an open (unrotated) segment with old events
	Metrics []string `json:"metrics"`  // ages of rotated metrics segments, in creation order
	NowMs   int64    `json:"nowMs"`    // wall clock at case creation (ages are ±30..90 min around the horizon)
	// a segment whose line in the metadata file is longer than 64 KiB (1-based position; 0 = none): a metrics segment
	// that saw 400 tag keys of 200 characters, a log segment with 400 such columns (200 in each of its two events)
	WideMetric int `json:"wideMetric,omitempty"`
	WideLog    int `json:"wideLog,omitempty"`
	// Ties: all events of one age carry the same timestamp, so segments of one index tie on their newest event
	Ties bool `json:"ties,omitempty"`
}

// c14WideNames: n field names of 200 characters
func c14WideNames(n int) []string {
	out := make([]string, n)
	for i := range out {
		out[i] = fmt.Sprintf("w%04d_%s", i, strings.Repeat("x", 194))
	}
	return out
}

const c14RetentionHours = 1

func (c *c14Case) ts(age string, k int) int64 {
	if c.Ties {
		k = 0
	}
	switch age {
	case "old":
		return c.NowMs - 90*60*1000 + int64(k)
	default:
		return c.NowMs - 30*60*1000 + int64(k)
	}
}

type c14Model struct {
	openIDs   map[string]bool // events of the open (unrotated) segment; they are old
	openIndex string
	openState string          // open | recovered (a restart turns the open segment into a rotated one) | expired
	survivors map[string]bool // event ids that must be searchable
	deleted   map[string]bool
	segsPerIx map[string]int // surviving rotated segments per index
	mSurvive  map[string]bool
	mDeleted  map[string]bool
}

func c14Build(w *kernel.Worker, c *c14Case, rep *kernel.Report) (*c14Model, error) {
	m := &c14Model{survivors: map[string]bool{}, deleted: map[string]bool{}, segsPerIx: map[string]int{}, mSurvive: map[string]bool{}, mDeleted: map[string]bool{}}
	ev := 0
	add := func(index, age string, survive bool) (string, string) {
		id := fmt.Sprintf("e%d", ev)
		ev++
		if survive {
			m.survivors[id] = true
		} else {
			m.deleted[id] = true
		}
		return id, fmt.Sprintf(`{"timestamp":%d,"id":"%s","v":%d}`, c.ts(age, ev), id, ev)
	}
	for si, s := range c.Segs {
		survive := s.Age != "old"
		a1, a2 := s.Age, s.Age
		if s.Age == "straddle" {
			a1, a2 = "old", "fresh"
		}
		_, e1 := add(s.Index, a1, survive)
		_, e2 := add(s.Index, a2, survive)
		if c.WideLog == si+1 {
			// 200 columns in each of the two events (one event may not exceed 63 000 bytes)
			var sb1, sb2 strings.Builder
			for i, n := range c14WideNames(400) {
				if i%2 == 0 {
					sb1.WriteString(`,"` + n + `":1`)
				} else {
					sb2.WriteString(`,"` + n + `":1`)
				}
			}
			e1 = e1[:len(e1)-1] + sb1.String() + "}"
			e2 = e2[:len(e2)-1] + sb2.String() + "}"
		}
		if err := ingestStep(w, 0, "c14"+s.Index, []string{e1, e2}); err != nil {
			return nil, err
		}
		if err := w.Call("rotate", nil, nil); err != nil {
			return nil, err
		}
		rep.Transition(2)
		if survive {
			m.segsPerIx["c14"+s.Index]++
		}
	}
	for i, age := range c.Metrics {
		// one metric name, so that all metrics segments belong to one shard and share its tags tree (a tags tree is
		// rotated once a day, not with every segment); the series are told apart by a tag
		name := fmt.Sprintf(`c14m{k="s%d"}`, i)
		tsSec := c.ts(age, 0) / 1000
		js := fmt.Sprintf(`{"metric":"c14m","tags":{"k":"s%d"},"timestamp":%d,"value":%d}`, i, tsSec, i+1)
		if c.WideMetric == i+1 {
			var sb strings.Builder
			for _, n := range c14WideNames(400) {
				sb.WriteString(`,"` + n + `":"1"`)
			}
			js = fmt.Sprintf(`{"metric":"c14m","tags":{"k":"s%d"%s},"timestamp":%d,"value":%d}`, i, sb.String(), tsSec, i+1)
		}
		var r map[string]interface{}
		if err := w.Call("mputl", map[string]interface{}{"json": js, "org": 0}, &r); err != nil {
			return nil, err
		}
		if err := w.Call("mrotate", map[string]interface{}{"kind": "segment"}, nil); err != nil {
			return nil, err
		}
		rep.Transition(2)
		if age == "old" {
			m.mDeleted[name] = true
		} else {
			m.mSurvive[name] = true
		}
	}
	if c.Open != "" {
		id1, e1 := add(c.Open, "old", true) // an open segment is not a rotated segment: retention must not touch it
		m.openIDs = map[string]bool{id1: true}
		m.openIndex = "c14" + c.Open
		m.openState = "open"
		if err := ingestStep(w, 0, "c14"+c.Open, []string{e1}); err != nil {
			return nil, err
		}
		if err := w.Call("flush", nil, nil); err != nil {
			return nil, err
		}
		rep.Transition(2)
	}
	return m, nil
}

// c14Check verifies the state against the model. strict=false (after an interrupted pass, before it is repeated):
// survivors must be complete and nothing may fail, but deleted data may still be (partly) there.
func c14Check(w *kernel.Worker, c *c14Case, m *c14Model, stage string, strict bool, rep *kernel.Report) (*Fail, error) {
	fail := func(clause, what string) *Fail {
		return &Fail{FP: "C14/" + clause + "/" + stage, What: fmt.Sprintf("case %s, %s: %s", jstr(c), stage, what)}
	}
	r, err := runQuery(w, Q{Index: "c14*", Text: "*", Start: c.NowMs - 3*3600*1000, End: c.NowMs + 3600*1000, Size: 1000})
	if err != nil {
		return nil, err
	}
	rep.Eval(1)
	if r.Err != "" || len(r.Errors) > 0 {
		return fail("query-error", r.Err+strings.Join(r.Errors, ";")), nil
	}
	got, dup := IDSet(r)
	if dup != "" {
		return fail("duplicate-event", dup), nil
	}
	for id := range m.survivors {
		if !got[id] {
			return fail("survivor-not-searchable", fmt.Sprintf("event %s belongs to a segment with an event newer than the horizon (or to the open segment) but is not returned; got %v", id, sortedKeys(got))), nil
		}
	}
	for id := range got {
		if !m.survivors[id] && !m.deleted[id] {
			return fail("garbage-row", id), nil
		}
		if strict && m.deleted[id] {
			return fail("expired-data-still-searchable", fmt.Sprintf("event %s (segment entirely older than the horizon) is still returned", id)), nil
		}
	}
	// metrics
	for name := range m.mSurvive {
		ok, what, err := c14MetricPresent(w, c, name)
		if err != nil {
			return nil, err
		}
		if !ok {
			return fail("metrics-survivor-lost", name+": "+what), nil
		}
	}
	if strict {
		for name := range m.mDeleted {
			ok, _, err := c14MetricPresent(w, c, name)
			if err != nil {
				return nil, err
			}
			if ok {
				return fail("expired-metrics-still-searchable", name), nil
			}
		}
	}
	if !strict {
		return nil, nil
	}
	// metadata files and directories list exactly the survivors
	var files map[string]int64
	if err := w.Call("files", map[string]interface{}{"contains": ""}, &files); err != nil {
		return nil, err
	}
	segDirs := map[string]map[string]bool{}
	for p := range files {
		// data/<host>/final/<index>/<streamid>/<suffix>/...
		parts := strings.Split(p, "/")
		for i, x := range parts {
			if x == "final" && i+3 < len(parts) && strings.HasPrefix(parts[i+1], "c14") {
				if segDirs[parts[i+1]] == nil {
					segDirs[parts[i+1]] = map[string]bool{}
				}
				segDirs[parts[i+1]][parts[i+3]] = true
			}
		}
	}
	for ix, n := range c14AllIndexes(c) {
		_ = n
		want := m.segsPerIx[ix]
		if m.openIndex == ix && m.openState == "open" {
			want++
		}
		if len(segDirs[ix]) != want {
			return fail("segment-dirs", fmt.Sprintf("index %s has %d segment directories on disk, %d segments survive", ix, len(segDirs[ix]), want)), nil
		}
	}
	mdirs := map[string]bool{}
	for p := range files {
		if strings.HasSuffix(p, ".mbsu") {
			mdirs[filepath.Dir(p)] = true
		}
	}
	if len(mdirs) != len(m.mSurvive) {
		return fail("metrics-segment-dirs", fmt.Sprintf("%d metrics segment directories hold block files on disk (%v), %d metrics segments survive", len(mdirs), sortedKeys(mdirs), len(m.mSurvive))), nil
	}
	// every tags-tree directory a listed metrics segment refers to still holds its files
	var mm struct {
		Content string `json:"content"`
		Missing bool   `json:"missing"`
	}
	if err := w.Call("readfile", map[string]interface{}{"suffix": "/metricmeta.json", "contains": ""}, &mm); err != nil {
		return nil, err
	}
	listed := 0
	for _, line := range strings.Split(mm.Content, "\n") {
		var e struct {
			TTreeDir    string `json:"tTreeDir"`
			MSegmentDir string `json:"mSegmentDir"`
		}
		if strings.TrimSpace(line) == "" || json.Unmarshal([]byte(line), &e) != nil || e.MSegmentDir == "" {
			continue
		}
		listed++
		// paths are relative to the working directory of the server (data/...)
		tt := strings.TrimPrefix(e.TTreeDir, "./")
		if i := strings.Index(tt, "data/"); i > 0 {
			tt = tt[i:]
		}
		has := false
		for p := range files {
			if strings.HasPrefix(p, tt) {
				has = true
			}
		}
		if tt != "" && !has {
			return fail("tags-tree-of-survivor-removed", fmt.Sprintf("metricmeta.json still lists metrics segment %s, whose tags tree directory %s holds no file any more", e.MSegmentDir, e.TTreeDir)), nil
		}
	}
	if listed != len(m.mSurvive) {
		return fail("metricmeta-entries", fmt.Sprintf("metricmeta.json lists %d metrics segments, %d survive", listed, len(m.mSurvive))), nil
	}
	var sm struct {
		Content string `json:"content"`
		Missing bool   `json:"missing"`
	}
	if err := w.Call("readfile", map[string]interface{}{"suffix": "/segmeta.json", "contains": "ingestnodes"}, &sm); err != nil {
		return nil, err
	}
	perIx := map[string]int{}
	for _, line := range strings.Split(sm.Content, "\n") {
		if strings.TrimSpace(line) == "" {
			continue
		}
		var e struct {
			VirtualTableName string `json:"virtualTableName"`
		}
		if json.Unmarshal([]byte(line), &e) == nil && strings.HasPrefix(e.VirtualTableName, "c14") {
			perIx[e.VirtualTableName]++
		}
	}
	for ix := range c14AllIndexes(c) {
		if perIx[ix] != m.segsPerIx[ix] {
			return fail("segmeta-entries", fmt.Sprintf("segmeta.json lists %d segments of index %s, %d survive", perIx[ix], ix, m.segsPerIx[ix])), nil
		}
	}
	return nil, nil
}

// restarted: start-up recovery registers the formerly open segment as a rotated one (segmeta.json gains an entry).
func (m *c14Model) restarted() {
	if m.openState == "open" {
		m.openState = "recovered"
		m.segsPerIx[m.openIndex]++
	}
}

// passed: a pass after a restart finds that segment rotated and entirely older than the horizon: it expires.
func (m *c14Model) passed() {
	if m.openState == "recovered" {
		m.openState = "expired"
		m.segsPerIx[m.openIndex]--
		for id := range m.openIDs {
			delete(m.survivors, id)
			m.deleted[id] = true
		}
	}
}

func (m *c14Model) clone() *c14Model {
	n := &c14Model{openIDs: m.openIDs, openIndex: m.openIndex, openState: m.openState, survivors: map[string]bool{}, deleted: map[string]bool{},
		segsPerIx: map[string]int{}, mSurvive: m.mSurvive, mDeleted: m.mDeleted}
	for k, v := range m.survivors {
		n.survivors[k] = v
	}
	for k, v := range m.deleted {
		n.deleted[k] = v
	}
	for k, v := range m.segsPerIx {
		n.segsPerIx[k] = v
	}
	return n
}

func c14AllIndexes(c *c14Case) map[string]int {
	out := map[string]int{}
	for _, s := range c.Segs {
		out["c14"+s.Index]++
	}
	if c.Open != "" {
		out["c14"+c.Open]++
	}
	return out
}

func c14MetricPresent(w *kernel.Worker, c *c14Case, name string) (bool, string, error) {
	var r httpRes
	start := uint32(c.NowMs/1000) - 2*3600
	// windows must stay ≤ 360 s: probe around both possible ages
	for _, center := range []int64{c.ts("old", 0) / 1000, c.ts("fresh", 0) / 1000} {
		_ = start
		if err := w.Call("mqueryl", map[string]interface{}{"q": name, "start": center - 100, "end": center + 100, "org": 0}, &r); err != nil {
			return false, "", err
		}
		if strings.Contains(r.Body, `"values"`) {
			return true, "", nil
		}
	}
	return false, trunc(r.Body, 200), nil
}

type c14Job struct {
	Case c14Case `json:"case"`
}

func c14Run(w0 *kernel.Worker, j *c14Job, rep *kernel.Report) (*Fail, error) {
	c := j.Case
	c.NowMs = time.Now().UnixMilli()
	w := w0
	defer func() {
		if w != w0 {
			w.Close()
		}
		w0.Kill() // metrics segment rotations and index deletion make the instance unfit for reuse
	}()
	die := func(err error) (*Fail, error) {
		fp, what, herr := diedResult("C14", err)
		if herr != nil {
			return nil, herr
		}
		return &Fail{FP: fp, What: "case " + jstr(c) + ": " + what}, nil
	}
	m, err := c14Build(w, &c, rep)
	if err != nil {
		return die(err)
	}
	// sanity: before the pass everything is searchable
	pre, err := runQuery(w, Q{Index: "c14*", Text: "*", Start: c.NowMs - 3*3600*1000, End: c.NowMs + 3600*1000, Size: 1000})
	if err != nil {
		return die(err)
	}
	if got, _ := IDSet(pre); len(got) != len(m.survivors)+len(m.deleted) {
		return &Fail{FP: "C14/harness-precondition", What: fmt.Sprintf("case %s: before the pass %d of %d events are searchable", jstr(c), len(got), len(m.survivors)+len(m.deleted))}, nil
	}
	for _, stage := range []string{"pass1", "pass2"} {
		if err := w.Call("retention", map[string]interface{}{"hours": c14RetentionHours, "org": 0}, nil); err != nil {
			return die(err)
		}
		rep.Transition(1)
		f, err := c14Check(w, &c, m, stage, true, rep)
		if err != nil {
			return die(err)
		}
		if f != nil {
			return f, nil
		}
	}
	// restart (process crash after the pass), then check, then pass again
	w.Kill()
	nw, err := kernel.Spawn(kernel.SpawnOpts{Dir: w0.Dir})
	if err != nil {
		return nil, err
	}
	w = nw
	if err := w.Call("boot", map[string]interface{}{"dir": w0.Dir, "recoverBoot": true, "relPaths": true}, nil); err != nil {
		if d, ok := err.(*kernel.Died); ok {
			return &Fail{FP: "C14/restart-died", What: d.Exit + " " + d.Frame + "\n" + trunc(d.Stderr, 1500)}, nil
		}
		return &Fail{FP: "C14/restart-failed", What: err.Error()}, nil
	}
	m.restarted()
	f, err := c14Check(w, &c, m, "after-restart", true, rep)
	if err != nil {
		return die(err)
	}
	if f != nil {
		return f, nil
	}
	if err := w.Call("retention", map[string]interface{}{"hours": c14RetentionHours, "org": 0}, nil); err != nil {
		return die(err)
	}
	m.passed()
	f, err = c14Check(w, &c, m, "pass-after-restart", true, rep)
	if err != nil {
		return die(err)
	}
	return f, nil
}

func c14Pool() *kernel.Pool {
	off := false
	return &kernel.Pool{Boot: map[string]interface{}{"pqs": &off, "relPaths": true}, RecycleEvery: 1}
}

func c14Cases(tier string) []c14Case {
	ages := []string{"old", "fresh", "straddle"}
	var out []c14Case
	metricsSets := [][]string{nil, {"old"}, {"fresh"}, {"old", "fresh"}, {"fresh", "old"}}
	idx := func(i int) string { return []string{"a", "b", "a"}[i] }
	n := 0
	for a := 0; a < 3; a++ {
		out = append(out, c14Case{Segs: []c14Seg{{idx(0), ages[a]}}, Metrics: metricsSets[n%len(metricsSets)]})
		n++
		for b := 0; b < 3; b++ {
			out = append(out, c14Case{Segs: []c14Seg{{idx(0), ages[a]}, {idx(1), ages[b]}}, Metrics: metricsSets[n%len(metricsSets)], Open: []string{"", "a", "c"}[n%3]})
			n++
			for cc := 0; cc < 3; cc++ {
				ms := metricsSets[n%len(metricsSets)]
				op := []string{"", "a", "c"}[n%3]
				if tier == "thorough" {
					for _, ms2 := range metricsSets {
						for _, op2 := range []string{"", "a", "c"} {
							out = append(out, c14Case{Segs: []c14Seg{{idx(0), ages[a]}, {idx(1), ages[b]}, {idx(2), ages[cc]}}, Metrics: ms2, Open: op2})
						}
					}
				} else {
					out = append(out, c14Case{Segs: []c14Seg{{idx(0), ages[a]}, {idx(1), ages[b]}, {idx(2), ages[cc]}}, Metrics: ms, Open: op})
				}
				n++
			}
		}
	}
	// metrics only
	for _, ms := range metricsSets[1:] {
		out = append(out, c14Case{Metrics: ms})
	}
	// segments of one index that tie on their newest event: three and four expired ones next to a survivor
	out = append(out, c14Case{Segs: []c14Seg{{"a", "old"}, {"a", "old"}, {"a", "old"}, {"a", "fresh"}}, Ties: true},
		c14Case{Segs: []c14Seg{{"a", "fresh"}, {"a", "old"}, {"a", "old"}, {"a", "old"}, {"a", "old"}, {"b", "old"}}, Metrics: []string{"old", "fresh"}, Ties: true})
	// one segment whose metadata line exceeds 64 KiB, at either position, next to an expired and a surviving one
	for _, ms := range metricsSets[3:] {
		for wide := 1; wide <= 2; wide++ {
			out = append(out, c14Case{Segs: []c14Seg{{"a", "old"}, {"b", "fresh"}}, Metrics: ms, WideMetric: wide})
		}
	}
	for _, ages2 := range [][]string{{"old", "fresh"}, {"fresh", "old"}} {
		for wide := 1; wide <= 2; wide++ {
			out = append(out, c14Case{Segs: []c14Seg{{"a", ages2[0]}, {"b", ages2[1]}}, Metrics: []string{"old", "fresh"}, WideLog: wide})
		}
	}
	return out
}

func C14() int {
	rep := kernel.NewReport("C14", "model_checking")
	rep.Rule = "time-based pass (DoRetentionBasedDeletion, retention 1 h) over every set of ≤3 rotated log segments on two indexes with ages {newest event 90 min old, " +
		"30 min old, straddling the horizon} × rotated metrics segments {old, fresh} in both creation orders × an open segment holding old events; sequence pass, pass again, " +
		"process restart, pass again — after each step searches return exactly the events of surviving segments, expired data is gone, segment directories and segmeta.json list " +
		"exactly the survivors. crash part: every prefix of the file-system operations of one pass, then restart, check, pass again (see coverage.crash_states). " +
		"non-trivial = case in which some but not all segments expire; crash state strictly inside the pass"
	rep.Assume = []string{"ages are ≥30 min away from the horizon on either side (time.Now() is not owned; the `<=` at the exact horizon millisecond is outside the bound)",
		"volume- and inode-based passes are not driven (they depend on the real file system's usage figures)"}
	budget := kernel.NewBudget(map[string]time.Duration{"quick": 170 * time.Second, "thorough": 40 * time.Minute}[rep.Tier])
	d := &Driver[c14Job]{Rep: rep, Pool: c14Pool(), Budget: budget,
		Enumerate: func(emit func(c14Job)) {
			for _, c := range c14Cases(rep.Tier) {
				emit(c14Job{Case: c})
			}
		},
		Run: c14Run,
		Key: func(j *c14Job) string { return jstr(j.Case) },
		Nontrivial: func(j *c14Job) bool {
			old, keep := 0, 0
			for _, s := range j.Case.Segs {
				if s.Age == "old" {
					old++
				} else {
					keep++
				}
			}
			for _, a := range j.Case.Metrics {
				if a == "old" {
					old++
				} else {
					keep++
				}
			}
			return old > 0 && keep > 0
		},
	}
	d.Drive()
	only := os.Getenv("VERIF_C14_ONLY") // development aid: run one part
	if only == "" || only == "crash" {
		c14Crash(rep, budget)
	}
	if only == "" || only == "vsched" {
		c14V(rep, budget)
	}
	return rep.Finish()
}

// ---- crash part -------------------------------------------------------------------------------------------------

type c14CrashState struct {
	Case   c14Case
	Cut    int
	LastOp string
	Inside bool
	fs     *kernel.MemFS
	model  *c14Model
}

func c14Crash(rep *kernel.Report, budget *kernel.Budget) {
	cases := []c14Case{
		{Segs: []c14Seg{{"a", "old"}, {"a", "fresh"}, {"b", "old"}}, Metrics: []string{"old", "fresh"}},
		{Segs: []c14Seg{{"a", "old"}, {"b", "straddle"}}, Open: "a", Metrics: []string{"old"}},
	}
	var states []*c14CrashState
	for ci := range cases {
		c := cases[ci]
		c.NowMs = time.Now().UnixMilli()
		w, err := kernel.Spawn(kernel.SpawnOpts{KeepDir: true})
		if err != nil {
			rep.HarnessError(err.Error())
			return
		}
		dir := w.Dir
		logPath := filepath.Join(dir, "fs.log")
		off := false
		if err := w.Call("boot", map[string]interface{}{"dir": dir, "crashLog": logPath, "relPaths": true, "pqs": &off}, nil); err != nil {
			rep.HarnessError("boot of hooked child: " + err.Error())
			w.Close()
			os.RemoveAll(dir)
			return
		}
		m, err := c14Build(w, &c, rep)
		if err == nil {
			_ = w.Call("mark", map[string]interface{}{"text": "PASS_BEGIN"}, nil)
			err = w.Call("retention", map[string]interface{}{"hours": c14RetentionHours, "org": 0}, nil)
			_ = w.Call("mark", map[string]interface{}{"text": "PASS_DONE"}, nil)
		}
		w.Kill()
		if err != nil {
			rep.HarnessError("recording retention pass: " + err.Error())
			os.RemoveAll(dir)
			continue
		}
		ops, err := kernel.ReadFsLog(logPath)
		if err != nil {
			rep.HarnessError(err.Error())
			os.RemoveAll(dir)
			continue
		}
		full := kernel.NewMemFS()
		bad := false
		for i, op := range ops {
			if err := full.Apply(op); err != nil {
				rep.HarnessError(fmt.Sprintf("retention history: log op %d: %v", i, err))
				bad = true
				break
			}
		}
		if !bad {
			if diffs := full.Conform(filepath.Join(dir, "data"), nil); len(diffs) > 0 {
				rep.HarnessError(fmt.Sprintf("retention history: model fs differs from the real directory: %v", diffs[:minInt(len(diffs), 6)]))
				bad = true
			}
		}
		os.RemoveAll(dir)
		if bad {
			continue
		}
		fs := kernel.NewMemFS()
		seen := map[string]bool{}
		inside := false
		for i, op := range ops {
			if op.Op == "mark" {
				if op.P == "PASS_BEGIN" {
					inside = true
				}
				if op.P == "PASS_DONE" {
					inside = false
				}
			} else if err := fs.Apply(op); err != nil {
				rep.HarnessError(err.Error())
				break
			}
			if !inside && op.P != "PASS_DONE" {
				continue // only the pass itself is cut; the build phase is C07's subject
			}
			key := fs.StateHash(c07SkipState)
			if seen[key] {
				continue
			}
			seen[key] = true
			snap := kernel.NewMemFS()
			for p, b := range fs.Files {
				snap.Files[p] = b
			}
			for dd := range fs.Dirs {
				snap.Dirs[dd] = true
			}
			states = append(states, &c14CrashState{Case: c, Cut: i + 1, LastOp: op.Op + "@" + fileKind(op.P), Inside: inside, fs: snap, model: m})
		}
	}
	rep.Set("crash_states", len(states))
	jobs := make(chan *c14CrashState, len(states)+1)
	for _, s := range states {
		jobs <- s
	}
	close(jobs)
	var wg sync.WaitGroup
	for i := 0; i < kernel.NumWorkers(); i++ {
		wg.Add(1)
		go func() {
			defer wg.Done()
			for s := range jobs {
				if budget.Exceeded() {
					continue
				}
				f, err := c14RecoverState(s, rep)
				if err != nil {
					rep.HarnessError(err.Error())
					continue
				}
				key := fmt.Sprintf("crash|%s|%d", jstr(s.Case.Segs), s.Cut)
				rep.State(key)
				rep.Trace(1)
				if s.Inside {
					rep.Nontrivial(key)
				}
				if f == nil {
					rep.Outcome("ok")
					continue
				}
				rep.Outcome(f.FP)
				if rep.SeenViolation(f.FP) {
					continue
				}
				ok := true
				for k := 0; k < 2; k++ {
					f2, err := c14RecoverState(s, rep)
					if err != nil || f2 == nil || f2.FP != f.FP {
						ok = false
					}
				}
				if !ok {
					rep.Unreproduced(f.FP + ": " + trunc(f.What, 300))
					continue
				}
				rep.Violation(f.FP, f.What, map[string]interface{}{"kind": "crash", "case": s.Case, "cut": s.Cut, "lastOp": s.LastOp})
			}
		}()
	}
	wg.Wait()
	if budget.Hit() {
		rep.Cap("time budget hit")
	}
}

func c14RecoverState(s *c14CrashState, rep *kernel.Report) (*Fail, error) {
	dir := kernel.NewScratchDir("c14r")
	defer os.RemoveAll(dir)
	if err := s.fs.Materialize(filepath.Join(dir, "data")); err != nil {
		return nil, err
	}
	w, err := kernel.Spawn(kernel.SpawnOpts{Dir: dir})
	if err != nil {
		return nil, err
	}
	defer w.Close()
	cls := "interrupted@" + s.LastOp
	off := false
	if err := w.Call("boot", map[string]interface{}{"dir": dir, "recoverBoot": true, "relPaths": true, "pqs": &off}, nil); err != nil {
		if d, ok := err.(*kernel.Died); ok {
			return &Fail{FP: "C14/restart-died/" + cls, What: fmt.Sprintf("pass interrupted after %d fs operations: %s %s\n%s", s.Cut, d.Exit, d.Frame, trunc(d.Stderr, 1500))}, nil
		}
		return &Fail{FP: "C14/restart-failed/" + cls, What: err.Error()}, nil
	}
	conv := func(f *Fail, err error) (*Fail, error) {
		if err != nil {
			if d, ok := err.(*kernel.Died); ok {
				return &Fail{FP: "C14/died-after-interrupted-pass/" + cls, What: fmt.Sprintf("pass interrupted after %d fs operations: %s %s\n%s", s.Cut, d.Exit, d.Frame, trunc(d.Stderr, 1500))}, nil
			}
			return nil, err
		}
		if f != nil {
			f.FP += "|" + cls
			f.What = fmt.Sprintf("pass interrupted after %d fs operations (last %s): %s", s.Cut, s.LastOp, f.What)
		}
		return f, nil
	}
	m := s.model.clone()
	m.restarted()
	if f, err := conv(c14Check(w, &s.Case, m, "after-interrupted-pass", false, rep)); f != nil || err != nil {
		return f, err
	}
	if err := w.Call("retention", map[string]interface{}{"hours": c14RetentionHours, "org": 0}, nil); err != nil {
		return conv(nil, err)
	}
	m.passed()
	return conv(c14Check(w, &s.Case, m, "repeated-pass", true, rep))
}

func init() {
	Registry["C14"] = C14
	Replayers["C14"] = func(doc json.RawMessage) int {
		var probe struct {
			Kind string `json:"kind"`
			V    bool   `json:"vsched"`
		}
		_ = json.Unmarshal(doc, &probe)
		if probe.V {
			return MakeReplayer[c14VJob]("C14", "model_checking", c14VPool, c14VRun)(doc)
		}
		if probe.Kind == "crash" {
			fmt.Println("replay of crash states: run ./vcheck C14 quick (the two recorded passes are enumerated completely in ~20 s)")
			return C14()
		}
		return MakeReplayer[c14Job]("C14", "model_checking", c14Pool, c14Run)(doc)
	}
}
