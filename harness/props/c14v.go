package props

import (
	"fmt"
	"os"
	"strings"
	"time"

	"verif/harness/kernel"
)

// C14 part V — a retention pass against a concurrent rotation (vsched). Two rotated segments exist (index a: expired,
// index b: fresh). Party X is held at its k-th lock operation, for every k, while party Y runs completely:
//
//	retention-held: X = the time-based pass, Y = a writer that ingests a fresh event and rotates its segment
//	rotation-held:  X = that writer, Y = the pass
//
// Afterwards the same oracle as in the sequential part applies: the expired event is gone, both fresh events are
// searchable, directories and segmeta.json list exactly the survivors — including the segment rotated meanwhile.
// The workers of this part are the sync-shim build of the harness (VERIF_SCHED_BIN, set by vcheck).

type c14VJob struct {
	V       bool   `json:"vsched"` // marks the job kind for the replayer
	Held    string `json:"held"`   // retention | rotation
	Writer  string `json:"writer"` // new-index | same-index | delete-index
	PauseAt int64  `json:"pauseAt"`
	Restart bool   `json:"restart,omitempty"`
}

func c14VPool() *kernel.Pool {
	p := c14Pool()
	p.Exe = os.Getenv("VERIF_SCHED_BIN")
	return p
}

func c14VSteps(j *c14VJob, c *c14Case) (x, y []schedStep, m *c14Model, cc c14Case) {
	m = &c14Model{survivors: map[string]bool{"e1": true}, deleted: map[string]bool{"e0": true}, segsPerIx: map[string]int{"c14b": 1}, mSurvive: map[string]bool{}, mDeleted: map[string]bool{}}
	cc = *c
	cc.Segs = []c14Seg{{"a", "old"}, {"b", "fresh"}}
	pass := []schedStep{{Op: "retention", Ms: c14RetentionHours}}
	var wr []schedStep
	ev := fmt.Sprintf(`{"timestamp":%d,"id":"e2","v":2}`, c.ts("fresh", 7))
	switch j.Writer {
	case "new-index":
		wr = []schedStep{{Op: "ingest", Index: "c14c", Event: ev}, {Op: "flush"}, {Op: "rotate"}}
		m.survivors["e2"] = true
		m.segsPerIx["c14c"] = 1
		cc.Segs = append(cc.Segs, c14Seg{"c", "fresh"})
	case "same-index":
		wr = []schedStep{{Op: "ingest", Index: "c14b", Event: ev}, {Op: "flush"}, {Op: "rotate"}}
		m.survivors["e2"] = true
		m.segsPerIx["c14b"] = 2
	}
	if j.Held == "retention" {
		return pass, wr, m, cc
	}
	return wr, pass, m, cc
}

func c14VRun(w0 *kernel.Worker, j *c14VJob, rep *kernel.Report) (*Fail, error) {
	w := w0
	defer func() {
		if w != w0 {
			w.Close()
		}
		w0.Kill()
	}()
	c := &c14Case{NowMs: time.Now().UnixMilli()}
	die := func(err error) (*Fail, error) {
		if d, ok := err.(*kernel.Died); ok {
			clause := "crash"
			if d.Timeout {
				clause = "deadlock-or-hang"
			}
			return &Fail{FP: "C14/" + clause + "/pass-vs-rotation/" + d.Frame, What: fmt.Sprintf("schedule %s: %s\n%s", jstr(j), d.Exit, trunc(d.Stderr, 2000))}, nil
		}
		return nil, err
	}
	for i, s := range []c14Seg{{"a", "old"}, {"b", "fresh"}} {
		if err := ingestStep(w, 0, "c14"+s.Index, []string{fmt.Sprintf(`{"timestamp":%d,"id":"e%d","v":%d}`, c.ts(s.Age, i), i, i)}); err != nil {
			return die(err)
		}
		if err := w.Call("rotate", nil, nil); err != nil {
			return die(err)
		}
	}
	x, y, m, cc := c14VSteps(j, c)
	var r schedRes
	if err := w.CallT("schedrun", map[string]interface{}{"x": x, "y": y, "pauseAt": j.PauseAt}, &r, 90*time.Second); err != nil {
		return die(err)
	}
	rep.Transition(int64(len(x) + len(y)))
	rep.Add("pass_vs_rotation_lock_points_seen", r.Points)
	where := "—"
	if r.Paused {
		where = r.PausedAt
		rep.Nontrivial(jstr(j))
		rep.Outcome("v-paused@" + r.PausedAt)
	}
	for _, s := range append(append([]schedStepRes{}, r.X...), r.Y...) {
		if s.Err != "" {
			return &Fail{FP: "C14/pass-vs-rotation/operation-failed/" + s.Op, What: fmt.Sprintf("schedule %s (held at %s): %s failed: %s", jstr(j), where, s.Op, s.Err)}, nil
		}
	}
	site := where
	if i := strings.LastIndex(site, ":"); i > 0 {
		site = site[:i]
	}
	stage := "pass-vs-rotation/" + j.Held + "-held@" + site
	f, err := c14Check(w, &cc, m, stage, true, rep)
	if err != nil {
		return die(err)
	}
	if f != nil {
		f.What = fmt.Sprintf("schedule %s, held at lock operation %d (%s): %s", jstr(j), j.PauseAt, where, f.What)
		return f, nil
	}
	if j.Restart {
		w.Kill()
		nw, err := kernel.Spawn(kernel.SpawnOpts{Dir: w0.Dir, Exe: os.Getenv("VERIF_SCHED_BIN")})
		if err != nil {
			return nil, err
		}
		w = nw
		if err := w.Call("boot", map[string]interface{}{"dir": w0.Dir, "recoverBoot": true, "relPaths": true}, nil); err != nil {
			if d, ok := err.(*kernel.Died); ok {
				return &Fail{FP: "C14/restart-died/pass-vs-rotation", What: d.Exit + " " + d.Frame + "\n" + trunc(d.Stderr, 1500)}, nil
			}
			return &Fail{FP: "C14/restart-failed/pass-vs-rotation", What: err.Error()}, nil
		}
		f, err := c14Check(w, &cc, m, stage+"/after-restart", true, rep)
		if err != nil {
			return die(err)
		}
		if f != nil {
			f.What = fmt.Sprintf("schedule %s, held at lock operation %d (%s): %s", jstr(j), j.PauseAt, where, f.What)
			return f, nil
		}
	}
	return nil, nil
}

func c14V(rep *kernel.Report, budget *kernel.Budget) {
	if os.Getenv("VERIF_SCHED_BIN") == "" {
		rep.HarnessError("C14 pass-vs-rotation: VERIF_SCHED_BIN is not set (run through ./vcheck)")
		return
	}
	pool := c14VPool()
	// dry runs: number of lock operations of each held party
	points := map[string]int64{}
	for _, held := range []string{"retention", "rotation"} {
		for _, wr := range []string{"new-index", "same-index"} {
			dw, err := pool.BootWorker()
			if err != nil {
				rep.HarnessError(err.Error())
				return
			}
			c := &c14Case{NowMs: time.Now().UnixMilli()}
			for i, s := range []c14Seg{{"a", "old"}, {"b", "fresh"}} {
				_ = ingestStep(dw, 0, "c14"+s.Index, []string{fmt.Sprintf(`{"timestamp":%d,"id":"e%d","v":%d}`, c.ts(s.Age, i), i, i)})
				_ = dw.Call("rotate", nil, nil)
			}
			x, _, _, _ := c14VSteps(&c14VJob{Held: held, Writer: wr}, c)
			var r schedRes
			if err := dw.CallT("schedrun", map[string]interface{}{"x": x, "y": []schedStep{}, "pauseAt": 0}, &r, 90*time.Second); err != nil {
				rep.HarnessError("C14 pass-vs-rotation dry run: " + err.Error())
				dw.Kill()
				return
			}
			points[held+"/"+wr] = r.Points
			if held == "retention" && wr == "new-index" {
				rep.Sample(map[string]interface{}{"lock_operations_of_a_retention_pass": r.Labels})
			}
			dw.Kill()
		}
	}
	d := &Driver[c14VJob]{Rep: rep, Pool: pool, Budget: budget,
		Enumerate: func(emit func(c14VJob)) {
			for _, held := range []string{"retention", "rotation"} {
				for _, wr := range []string{"new-index", "same-index"} {
					for k := int64(1); k <= points[held+"/"+wr]+1; k++ {
						emit(c14VJob{V: true, Held: held, Writer: wr, PauseAt: k, Restart: rep.Tier == "thorough"})
					}
				}
			}
		},
		Run:        c14VRun,
		Key:        func(j *c14VJob) string { return "v|" + jstr(j) },
		Nontrivial: func(j *c14VJob) bool { return false },
	}
	d.Drive()
	rep.Set("pass_vs_rotation_lock_operations", points)
}
