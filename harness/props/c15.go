package props

import (
	"encoding/base64"
	"encoding/json"
	"fmt"
	"os"
	"sort"
	"strings"
	"sync/atomic"
	"time"

	"verif/harness/kernel"
)

// C15 — bulk acknowledges exactly what it stored. Engine: seqx over all bulk bodies ≤ n groups.

type c15Group struct {
	Kind  string // name in the alphabet
	Class string // good | bad | either
	Lines int
}

var c15Alphabet = []c15Group{
	{"index-a", "good", 2}, {"index-b", "good", 2}, {"create-a", "good", 2},
	{"invalid-doc", "either", 2}, {"truncated-doc", "either", 2},
	{"oversize", "bad", 2}, {"just-under-limit", "good", 2},
	{"unknown-action", "bad", 1}, {"delete", "bad", 1}, {"update", "bad", 2},
	{"no-index-name", "either", 2},
	{"bad-index-name", "either", 2}, // a name the index-name rules reject (path separator)
	{"ts-only-doc", "either", 2},    // a document with no field besides its timestamp, into an index of its own
	{"index-via-alias", "good", 2},  // addressed through an alias of an index that exists but has received nothing yet
	{"index-no-doc", "bad", 1},      // only meaningful as the last group
}

type c15Job struct {
	N       int64    `json:"n"`
	Kinds   []string `json:"kinds"`
	Newline bool     `json:"trailingNewline"`
}

const c15MaxRec = 63000

func c15Build(j *c15Job, hist string, ia, ib string) (body string, docIDs []string) {
	var sb strings.Builder
	for k, kind := range j.Kinds {
		id := fmt.Sprintf("d%d", k)
		docIDs = append(docIDs, id)
		doc := fmt.Sprintf(`{"timestamp":%d,"id":"%s","hist":"%s","v":%d}`, T0+int64(k), id, hist, k)
		switch kind {
		case "index-a":
			sb.WriteString(`{"index":{"_index":"` + ia + `"}}` + "\n" + doc + "\n")
		case "index-b":
			sb.WriteString(`{"index":{"_index":"` + ib + `","_id":"x` + id + `"}}` + "\n" + doc + "\n")
		case "index-via-alias":
			sb.WriteString(`{"index":{"_index":"` + ia + `al"}}` + "\n" + doc + "\n")
		case "create-a":
			sb.WriteString(`{"create":{"_index":"` + ia + `"}}` + "\n" + doc + "\n")
		case "invalid-doc":
			sb.WriteString(`{"index":{"_index":"` + ia + `"}}` + "\n" + fmt.Sprintf(`{"timestamp":%d,"id":"%s","hist":"%s","v":}`, T0+int64(k), id, hist) + "\n")
		case "truncated-doc":
			sb.WriteString(`{"index":{"_index":"` + ia + `"}}` + "\n" + doc[:len(doc)-1] + "\n")
		case "oversize", "just-under-limit":
			want := c15MaxRec
			if kind == "just-under-limit" {
				want = c15MaxRec - 1
			}
			base := fmt.Sprintf(`{"timestamp":%d,"id":"%s","hist":"%s","pad":""}`, T0+int64(k), id, hist)
			pad := strings.Repeat("p", want-len(base))
			d := strings.Replace(base, `"pad":""`, `"pad":"`+pad+`"`, 1)
			sb.WriteString(`{"index":{"_index":"` + ia + `"}}` + "\n" + d + "\n")
		case "unknown-action":
			sb.WriteString(`{"foo":{"_index":"` + ia + `"}}` + "\n")
		case "delete":
			sb.WriteString(`{"delete":{"_index":"` + ia + `","_id":"1"}}` + "\n")
		case "update":
			sb.WriteString(`{"update":{"_index":"` + ia + `","_id":"1"}}` + "\n" + `{"doc":` + doc + `}` + "\n")
		case "no-index-name":
			sb.WriteString(`{"index":{}}` + "\n" + doc + "\n")
		case "ts-only-doc":
			sb.WriteString(`{"index":{"_index":"` + ia + `t"}}` + "\n" + fmt.Sprintf(`{"timestamp":%d}`, T0+int64(k)) + "\n")
		case "bad-index-name":
			sb.WriteString(`{"index":{"_index":"` + ia + `/x"}}` + "\n" + doc + "\n")
		case "index-no-doc":
			sb.WriteString(`{"index":{"_index":"` + ia + `"}}` + "\n")
		}
	}
	body = sb.String()
	if !j.Newline {
		body = strings.TrimSuffix(body, "\n")
	}
	return
}

func c15Class(kind string) string {
	for _, g := range c15Alphabet {
		if g.Kind == kind {
			return g.Class
		}
	}
	return "?"
}

type c15Result struct{ FP, What string }

func c15Run(w *kernel.Worker, j *c15Job, rep *kernel.Report) (*c15Result, error) {
	n := atomic.AddInt64(&idxSeq, 1)
	hist := fmt.Sprintf("h%d", n)
	ia, ib := fmt.Sprintf("c15a%d", n), fmt.Sprintf("c15b%d", n)
	body, ids := c15Build(j, hist, ia, ib)
	storeFull := len(j.Kinds) > 0 && j.Kinds[0] == "store-full"
	if storeFull {
		// store-level failure: 1000 open segment stores exist, so the batch is rejected after statuses were assigned
		var sb strings.Builder
		for i := 0; i < 1001; i++ {
			sb.WriteString(fmt.Sprintf(`{"index":{"_index":"c15fill%d-%d"}}`+"\n"+`{"timestamp":%d,"f":1}`+"\n", n, i, T0))
		}
		if err := w.Call("bulk", map[string]interface{}{"org": 0, "body": sb.String()}, nil); err != nil {
			if _, ok := err.(*kernel.Died); !ok {
				return nil, err
			}
		}
		j2 := &c15Job{Kinds: []string{"index-a", "index-b"}, Newline: true}
		body, ids = c15Build(j2, hist, ia, ib)
		j = &c15Job{N: j.N, Kinds: j2.Kinds, Newline: true}
	}
	for _, k := range j.Kinds {
		if k == "index-via-alias" {
			// an index created through the API (no document yet, so no open segment) and an alias for it
			var hr httpRes
			if err := w.Call("call", map[string]interface{}{"handler": "putIndex", "org": 0, "method": "PUT", "body": "{}", "userValues": map[string]string{"indexName": ia + "w"}}, &hr); err != nil {
				return nil, err
			}
			body := fmt.Sprintf(`{"actions":[{"add":{"index":"%s","alias":"%s"}}]}`, ia+"w", ia+"al")
			if err := w.Call("call", map[string]interface{}{"handler": "postAliases", "org": 0, "method": "POST", "body": body}, &hr); err != nil {
				return nil, err
			}
			if hr.Status != 200 {
				return &c15Result{"C15/harness-alias-setup", fmt.Sprintf("alias set-up: http %d %s", hr.Status, trunc(hr.Body, 200))}, nil
			}
			break
		}
	}
	died := func(err error) (*c15Result, error) {
		if d, ok := err.(*kernel.Died); ok {
			if d.Timeout {
				return &c15Result{"C15/no-answer", "no answer within the deadline"}, nil
			}
			return &c15Result{"C15/worker-died/" + d.Frame, d.Exit + "\n" + trunc(d.Stderr, 3500)}, nil
		}
		return nil, err
	}
	var br struct {
		Processed int `json:"processed"`
		Resp      struct {
			Errors bool                     `json:"errors"`
			Items  []map[string]interface{} `json:"items"`
		} `json:"resp"`
		Error string `json:"error"`
	}
	if err := w.Call("bulk", map[string]interface{}{"org": 0, "body_b64": base64.StdEncoding.EncodeToString([]byte(body))}, &br); err != nil {
		return died(err)
	}
	rep.Transition(1)
	if err := w.Call("flush", nil, nil); err != nil {
		return died(err)
	}
	r, err := runQuery(w, Q{Index: "*", Text: `hist="` + hist + `"`, Start: T0 - 1, End: T0 + 1000, Size: 1000})
	if err != nil {
		return died(err)
	}
	rep.Eval(1)
	defer func() {
		_ = delIndex(w, 0, ia)
		_ = delIndex(w, 0, ia+"t")
		_ = delIndex(w, 0, ia+"w")
		_ = delIndex(w, 0, ib)
		if storeFull {
			_ = delIndex(w, 0, fmt.Sprintf("c15fill%d-*", n))
		}
	}()
	if r.Err != "" || len(r.Errors) > 0 {
		return &c15Result{"C15/query-error", r.Err + strings.Join(r.Errors, ";")}, nil
	}
	stored := map[string]int{}
	for _, rec := range r.Records {
		id, _ := rec["id"].(string)
		stored[id]++
	}
	// documents without fields cannot carry the marker: they go to an index of their own and are told apart by their timestamp
	for k, kind := range j.Kinds {
		if kind == "ts-only-doc" {
			r2, err := runQuery(w, Q{Index: ia + "t", Text: "*", Start: T0 - 1, End: T0 + 1000, Size: 1000})
			if err != nil {
				return died(err)
			}
			for _, rec := range r2.Records {
				if ts, ok := ObsInt(rec["timestamp"]); ok && ts == T0+int64(k) {
					stored[fmt.Sprintf("d%d", k)]++
				}
			}
		}
	}
	// a document sent through an alias belongs to the alias' index: it is counted where a client looks for it — in a
	// search over that index and in a search over the alias (not wherever the all-indexes search happens to find it)
	viaAlias := false
	for _, kind := range j.Kinds {
		viaAlias = viaAlias || kind == "index-via-alias"
	}
	if viaAlias {
		byIx, err := runQuery(w, Q{Index: ia + "w", Text: `hist="` + hist + `"`, Start: T0 - 1, End: T0 + 1000, Size: 1000})
		if err != nil {
			return died(err)
		}
		byAl, err := runQuery(w, Q{Index: ia + "al", Text: `hist="` + hist + `"`, Start: T0 - 1, End: T0 + 1000, Size: 1000})
		if err != nil {
			return died(err)
		}
		cnt := func(r *QRes, id string) int {
			n := 0
			for _, rec := range r.Records {
				if x, _ := rec["id"].(string); x == id {
					n++
				}
			}
			return n
		}
		for k, kind := range j.Kinds {
			if kind != "index-via-alias" {
				continue
			}
			id := fmt.Sprintf("d%d", k)
			a, b := cnt(byIx, id), cnt(byAl, id)
			if a != b || a != stored[id] {
				// judged below through stored[id]: the smallest of the three views decides
				if a < stored[id] {
					stored[id] = a
				}
				if b < stored[id] {
					stored[id] = b
				}
			}
		}
	}
	// (1) one item per action, in request order
	if len(br.Resp.Items) != len(j.Kinds) {
		last := j.Kinds[len(j.Kinds)-1]
		return &c15Result{"C15/item-count/last=" + c15LinesClass(last),
			fmt.Sprintf("%d items for %d actions (kinds %v, trailing newline %v)", len(br.Resp.Items), len(j.Kinds), j.Kinds, j.Newline)}, nil
	}
	anyFailed := false
	statuses := []int64{}
	for k, it := range br.Resp.Items {
		st := c15Status(it)
		statuses = append(statuses, st)
		created := st >= 200 && st < 300
		if !created {
			anyFailed = true
		}
		kind := j.Kinds[k]
		cnt := stored[ids[k]]
		if created && cnt != 1 {
			if storeFull {
				kind = "store-full"
			}
			return &c15Result{"C15/acked-not-stored/" + kind, fmt.Sprintf("item %d (%s) status %d but document found %d times; kinds %v", k, kind, st, cnt, j.Kinds)}, nil
		}
		if !created && cnt != 0 {
			return &c15Result{"C15/stored-not-acked/" + kind, fmt.Sprintf("item %d (%s) status %d but document found %d times; kinds %v", k, kind, st, cnt, j.Kinds)}, nil
		}
		switch c15Class(kind) {
		case "good":
			if !created {
				return &c15Result{"C15/neighbour-affected/good-item-failed", fmt.Sprintf("item %d (%s) is well-formed but got status %d; kinds %v statuses so far %v", k, kind, st, j.Kinds, statuses)}, nil
			}
		case "bad":
			if created {
				return &c15Result{"C15/bad-item-created/" + kind, fmt.Sprintf("item %d (%s) reported created; kinds %v", k, kind, j.Kinds)}, nil
			}
		}
	}
	// (2) errors flag
	if br.Resp.Errors != anyFailed {
		fs := map[string]bool{}
		for _, s := range statuses {
			if s < 200 || s >= 300 {
				fs[fmt.Sprint(s)] = true
			}
		}
		return &c15Result{"C15/errors-flag/failed-statuses=" + strings.Join(sortedKeys(fs), "+"),
			fmt.Sprintf("errors=%v but item statuses %v; kinds %v", br.Resp.Errors, statuses, j.Kinds)}, nil
	}
	return nil, nil
}

func c15LinesClass(kind string) string {
	for _, g := range c15Alphabet {
		if g.Kind == kind {
			if g.Lines == 1 {
				return "one-line-action"
			}
			return "two-line-action"
		}
	}
	return "?"
}

func c15Status(it map[string]interface{}) int64 {
	// items are {"index":{"status":201}} or {"index":{error...},"status":400}
	if s, ok := ObsInt(it["status"]); ok {
		return s
	}
	for _, v := range it {
		if m, ok := v.(map[string]interface{}); ok {
			if s, ok := ObsInt(m["status"]); ok {
				return s
			}
		}
	}
	return -1
}

func c15Enumerate(tier string, emit func(c15Job)) {
	depth := 3
	if tier == "thorough" {
		depth = 4
	}
	var n int64
	// The store-level-failure history (1000 open segment stores so that getSegStore rejects the batch) needs
	// > 24 GB of address space for the per-store buffers and dies of memory exhaustion first; it is kept in the
	// code (kind "store-full") but not enumerated. See DESIGN.md C15.
	if os.Getenv("VERIF_C15_STOREFULL") == "1" {
		emit(c15Job{N: -1, Kinds: []string{"store-full"}, Newline: true})
	}
	nk := len(c15Alphabet)
	for d := 1; d <= depth; d++ {
		idx := make([]int, d)
		for {
			ok := true
			kinds := make([]string, d)
			for i, k := range idx {
				kinds[i] = c15Alphabet[k].Kind
				if kinds[i] == "index-no-doc" && i != d-1 {
					ok = false // the doc line of the next group would be consumed: not the action it claims to be
				}
			}
			if ok {
				for _, nl := range []bool{true, false} {
					emit(c15Job{N: n, Kinds: kinds, Newline: nl})
					n++
				}
			}
			k := d - 1
			for k >= 0 {
				idx[k]++
				if idx[k] < nk {
					break
				}
				idx[k] = 0
				k--
			}
			if k < 0 {
				break
			}
		}
	}
}

func C15() int {
	rep := kernel.NewReport("C15", "exploration")
	rep.Rule = "all bulk bodies of ≤ depth action groups over a 15-kind alphabet (valid index/create on two indexes, a document addressed through an alias of an index that has received nothing yet - looked for over the index and over the alias -, a rejected index name, a document with no field besides its timestamp, invalid and truncated " +
		"documents, document at and just under the record size limit, unknown action, delete, update, missing _index, index without " +
		"document line as last group) × trailing newline present/absent; executed through HandleBulkBody, flushed, searched by a per-history " +
		"marker. Splunk HEC bodies (a series of JSON objects, acknowledged as a whole): all series of ≤ depth pieces over {event for index a, event for index b, stray }, stray ], truncated " +
		"event, garbage, object without event} joined with and without newlines, through the HTTP endpoint: an acknowledged body has every complete event stored exactly once, nothing is stored twice or unsent. " +
		"non-trivial = body mixes ≥1 well-formed and ≥1 malformed group"
	rep.Assume = []string{"'created' = item status 2xx; 'failed' = any other status",
		"for groups the statement does not classify (invalid/truncated JSON, missing _index) only 'acknowledged iff stored' is asserted"}
	budget := kernel.NewBudget(map[string]time.Duration{"quick": 120 * time.Second, "thorough": 20 * time.Minute}[rep.Tier])
	off := false
	pool := &kernel.Pool{Boot: map[string]interface{}{"pqs": &off}, RecycleEvery: 300}
	jobs := make(chan c15Job, 256)
	var total, skipped int64
	go func() {
		c15Enumerate(rep.Tier, func(j c15Job) {
			total++
			if budget.Exceeded() {
				skipped++
				return
			}
			jobs <- j
		})
		close(jobs)
	}()
	err := kernel.RunPool(pool, jobs, func(w *kernel.Worker, j c15Job) error {
		res, err := c15Run(w, &j, rep)
		if err != nil {
			return err
		}
		rep.Trace(1)
		good, bad := false, false
		for _, k := range j.Kinds {
			if c15Class(k) == "good" {
				good = true
			} else {
				bad = true
			}
		}
		if good && bad {
			rep.Nontrivial(fmt.Sprintf("%v|%v", j.Kinds, j.Newline))
		}
		rep.SampleAt(j.N, func() interface{} { return j })
		if res == nil {
			rep.Outcome("ok")
			return nil
		}
		rep.Outcome(res.FP)
		if rep.SeenViolation(res.FP) {
			return nil
		}
		for k := 0; k < 2; k++ {
			fw, err := pool.BootWorker()
			if err != nil {
				return err
			}
			r2, err := c15Run(fw, &j, rep)
			fw.Close()
			if err != nil {
				return err
			}
			if r2 == nil || r2.FP != res.FP {
				rep.Unreproduced(fmt.Sprintf("%s: %s", res.FP, res.What))
				return nil
			}
		}
		rep.Violation(res.FP, res.What, j)
		return nil
	})
	if err != nil {
		rep.HarnessError(err.Error())
	}
	rep.Bounds["bodies_total"] = total
	rep.Bounds["depth"] = map[string]int{"quick": 3, "thorough": 4}[rep.Tier]
	rep.Bounds["alphabet"] = len(c15Alphabet)
	if skipped > 0 {
		rep.Cap(fmt.Sprintf("time budget: %d of %d bodies not run", skipped, total))
	}
	c15Hec(rep, budget)
	// two concurrent bulk requests (one held at every lock operation while the other runs): every acknowledged item is stored
	vp := logPool()
	vp.RecycleEvery = 200
	c11TwoWritersFor("C15", rep, vp, budget)
	return rep.Finish()
}

func init() {
	Registry["C15"] = C15
	Replayers["C15"] = func(doc json.RawMessage) int {
		var probe struct {
			Pieces []string `json:"pieces"`
		}
		_ = json.Unmarshal(doc, &probe)
		var probe2 struct {
			Other string `json:"other"`
		}
		_ = json.Unmarshal(doc, &probe2)
		if probe2.Other != "" {
			return MakeReplayer[c11WWJob]("C15", "exploration", logPool, c11WWRun)(doc)
		}
		if len(probe.Pieces) > 0 {
			return MakeReplayer[c15HecJob]("C15", "exploration", serverPool, c15HecRun)(doc)
		}
		var j c15Job
		if err := json.Unmarshal(doc, &j); err != nil {
			fmt.Println("HARNESS-ERROR", err)
			return 2
		}
		off := false
		pool := &kernel.Pool{Boot: map[string]interface{}{"pqs": &off}}
		w, err := pool.BootWorker()
		if err != nil {
			fmt.Println("HARNESS-ERROR", err)
			return 2
		}
		defer w.Close()
		res, err := c15Run(w, &j, kernel.NewReport("C15", "exploration"))
		if err != nil {
			fmt.Println("HARNESS-ERROR", err)
			return 2
		}
		if res == nil {
			fmt.Println("replay: property held")
			return 0
		}
		fmt.Printf("replay: %s\n  %s\n", res.FP, res.What)
		return 1
	}
	_ = sort.Strings
}
