package props

import (
	"encoding/json"
	"fmt"
	"strings"
	"sync/atomic"

	"verif/harness/kernel"
)

// C15 part H — the other multi-event ingest body (Splunk HEC: a series of JSON objects in one request). The endpoint
// acknowledges the body as a whole, so the clause is: an acknowledged body has every one of its events stored exactly
// once; whatever the answer, nothing is stored twice and nothing that was not sent is stored.

type c15HecJob struct {
	Pieces []string `json:"pieces"`
	Sep    string   `json:"sep"` // "" | "\n"
}

var c15HecAlphabet = []string{"ev-a", "ev-b", "stray-brace", "stray-bracket", "truncated", "garbage", "no-event"}

var c15HecSeq int64

func c15HecRun(w *kernel.Worker, j *c15HecJob, rep *kernel.Report) (*Fail, error) {
	die := func(err error) (*Fail, error) {
		fp, what, herr := diedResult("C15", err)
		if herr != nil {
			return nil, herr
		}
		return &Fail{FP: fp + "/hec", What: what}, nil
	}
	n := atomic.AddInt64(&c15HecSeq, 1)
	hist := fmt.Sprintf("hh%d", n)
	ia, ib := fmt.Sprintf("c15ha%d", n), fmt.Sprintf("c15hb%d", n)
	var parts []string
	sent := map[string]bool{}
	for k, p := range j.Pieces {
		id := fmt.Sprintf("d%d", k)
		ev := fmt.Sprintf(`{"id":"%s","hist":"%s","v":%d}`, id, hist, k)
		switch p {
		case "ev-a":
			parts = append(parts, `{"index":"`+ia+`","event":`+ev+`}`)
			sent[id] = true
		case "ev-b":
			parts = append(parts, `{"index":"`+ib+`","event":`+ev+`,"host":"h"}`)
			sent[id] = true
		case "stray-brace":
			parts = append(parts, `}`)
		case "stray-bracket":
			parts = append(parts, `]`)
		case "truncated":
			// cut inside a string, so that no later piece can complete it into a well-formed event
			parts = append(parts, `{"index":"`+ia+`","event":{"hist":"`+hist+`","id":"`+id)
		case "garbage":
			parts = append(parts, `xyz`)
		case "no-event":
			parts = append(parts, `{"index":"`+ia+`"}`)
		}
	}
	body := strings.Join(parts, j.Sep)
	r, err := httpCall(w, "ingest", "POST", "/services/collector/event", body, map[string]string{"Content-Type": "application/json"})
	if err != nil {
		return die(err)
	}
	rep.Transition(1)
	var ack struct {
		Text   string `json:"text"`
		Status string `json:"status"`
		Code   int    `json:"code"`
	}
	_ = json.Unmarshal([]byte(r.Body), &ack)
	acked := r.Status == 200
	if err := w.Call("flush", nil, nil); err != nil {
		return die(err)
	}
	q, err := runQuery(w, Q{Index: ia + "," + ib, Text: "*", Start: 1, End: 4102444800000, Size: 100, Nulls: true})
	if err != nil {
		return die(err)
	}
	rep.Eval(1)
	defer func() {
		_ = delIndex(w, 0, ia)
		_ = delIndex(w, 0, ib)
	}()
	stored := map[string]int{}
	for _, rec := range q.Records {
		isOurs, id := false, ""
		for k, v := range rec {
			if (k == "hist" || strings.HasSuffix(k, ".hist")) && fmt.Sprint(v) == hist {
				isOurs = true
			}
			if k == "id" || strings.HasSuffix(k, ".id") {
				id = fmt.Sprint(v)
			}
		}
		if isOurs {
			stored[id]++
		}
	}
	ctx := fmt.Sprintf("HEC body %q (pieces %v): http %d %s", body, j.Pieces, r.Status, trunc(r.Body, 120))
	fs := &Fails{}
	for id, c := range stored {
		if !sent[id] {
			fs.Add("C15/hec-stored-not-sent", ctx+fmt.Sprintf(": event %q is stored but was not a complete event of the body", id))
		} else if c > 1 {
			fs.Add("C15/hec-stored-twice", ctx+fmt.Sprintf(": event %s stored %d times", id, c))
		}
	}
	if acked {
		for id := range sent {
			if stored[id] == 0 {
				fs.Add("C15/hec-acked-not-stored/"+c15HecClass(j.Pieces), ctx+fmt.Sprintf(": the body was acknowledged, event %s is not searchable after the flush (stored: %v)", id, stored))
			}
		}
	}
	if acked {
		rep.Add("hec_acknowledged", 1)
	} else {
		rep.Add("hec_rejected", 1)
	}
	return fs.Result(), nil
}

func c15HecClass(pieces []string) string {
	for _, p := range pieces {
		if !strings.HasPrefix(p, "ev-") {
			return "after-" + p
		}
	}
	return "well-formed"
}

func c15Hec(rep *kernel.Report, budget *kernel.Budget) {
	depth := 3
	if rep.Tier == "thorough" {
		depth = 4
	}
	var seqs [][]string
	var rec func(cur []string)
	rec = func(cur []string) {
		if len(cur) > 0 {
			seqs = append(seqs, append([]string{}, cur...))
		}
		if len(cur) == depth {
			return
		}
		for _, p := range c15HecAlphabet {
			rec(append(cur, p))
		}
	}
	rec(nil)
	d := &Driver[c15HecJob]{Rep: rep, Pool: serverPool(), Budget: budget,
		Enumerate: func(emit func(c15HecJob)) {
			for _, s := range seqs {
				for _, sep := range []string{"", "\n"} {
					emit(c15HecJob{Pieces: s, Sep: sep})
				}
			}
		},
		Run: c15HecRun,
		Key: func(j *c15HecJob) string { return "hec|" + strings.Join(j.Pieces, ",") + "|" + fmt.Sprint(j.Sep == "") },
		Nontrivial: func(j *c15HecJob) bool {
			good, bad := false, false
			for _, p := range j.Pieces {
				if strings.HasPrefix(p, "ev-") {
					good = true
				} else {
					bad = true
				}
			}
			return good && bad
		},
	}
	d.Drive()
	rep.Set("hec_bodies", len(seqs)*2)
}
