package props

import (
	"encoding/base64"
	"encoding/hex"
	"encoding/json"
	"fmt"
	"math"
	"os"
	"sort"
	"strconv"
	"strings"
	"sync/atomic"
	"time"

	"github.com/golang/snappy"
	"github.com/prometheus/prometheus/prompb"
	lokilog "github.com/siglens/siglens/pkg/integrations/loki/log"
	collogpb "go.opentelemetry.io/proto/otlp/collector/logs/v1"
	colmetpb "go.opentelemetry.io/proto/otlp/collector/metrics/v1"
	coltracepb "go.opentelemetry.io/proto/otlp/collector/trace/v1"
	commonpb "go.opentelemetry.io/proto/otlp/common/v1"
	logpb "go.opentelemetry.io/proto/otlp/logs/v1"
	metpb "go.opentelemetry.io/proto/otlp/metrics/v1"
	respb "go.opentelemetry.io/proto/otlp/resource/v1"
	tracepb "go.opentelemetry.io/proto/otlp/trace/v1"
	"google.golang.org/protobuf/proto"
	"google.golang.org/protobuf/types/known/timestamppb"

	"verif/harness/kernel"
)

// C16 — all ingest protocols preserve event content and time. seqx (differential across protocols): every logical
// event over an attribute-kind alphabet × carried-time alphabet is delivered through every protocol endpoint of the
// booted server and read back; each logical field must be found with an equal value and the stored time must be the
// carried time.

type c16Attr struct {
	Key  string      `json:"key"`
	Kind string      `json:"kind"` // str | int | float | bool | nested | list
	Val  interface{} `json:"val"`
}

type c16Job struct {
	Protocol string    `json:"protocol"`
	Attrs    []c16Attr `json:"attrs"`
	Time     string    `json:"time"` // absent | ms | s | ns | rfc3339 | rfc3339nano | float-s
	// Companions: the request carries two more records (one before, one after the record under test) with attributes of
	// their own (cattr, cnum); nothing of them may show up in the record under test
	Companions bool `json:"companions,omitempty"`
	// CompRes (OTLP logs and traces, with Companions): the companions travel in resources of their own, before and after the
	// record's resource, and those resources carry attributes (service.name, cres) that the record's own resource lacks
	CompRes bool `json:"companionResources,omitempty"`
}

var c16AttrAlphabet = []c16Attr{
	{"astr", "str", "hello world"}, {"aint", "int", int64(42)}, {"afloat", "float", 2.5}, {"abool", "bool", true},
	{"anest", "nested", map[string]interface{}{"k": "v"}}, {"alist", "list", []interface{}{"p", 1.5, "q", int64(7)}} /* a list of mixed kinds: a fractional number followed by further elements */, {"aneg", "int", int64(-7)},
	{"abig", "int", int64(9007199254740993)}, // not representable as a float64
}

// the carried instant: 2023-11-14T22:15:23.456Z
const c16TimeMs = int64(1_700_000_123_456)

var c16Protocols = []string{"es-bulk", "es-doc", "splunk-hec", "loki-proto", "loki-json", "otlp-logs", "otlp-traces", "otsdb", "prom-remote-write", "otlp-metrics"}

func c16TimesFor(p string) []string {
	switch p {
	case "es-bulk", "es-doc":
		return []string{"absent", "ms", "s", "rfc3339", "rfc3339nano"}
	case "splunk-hec":
		return []string{"absent", "float-s", "s"}
	case "loki-proto", "loki-json":
		return []string{"ns"}
	case "otlp-logs":
		return []string{"ns", "absent", "ns+observed"} // the last: the collector's observed time is set too, six minutes later
	case "otlp-traces", "otlp-metrics":
		return []string{"ns"} // a span without start time / a datapoint without time is not a meaningful input
	case "otsdb":
		return []string{"s", "ms"}
	case "prom-remote-write":
		return []string{"ms"}
	}
	return nil
}

var c16Seq int64

func anyValue(v interface{}) *commonpb.AnyValue {
	switch x := v.(type) {
	case string:
		return &commonpb.AnyValue{Value: &commonpb.AnyValue_StringValue{StringValue: x}}
	case int64:
		return &commonpb.AnyValue{Value: &commonpb.AnyValue_IntValue{IntValue: x}}
	case float64:
		return &commonpb.AnyValue{Value: &commonpb.AnyValue_DoubleValue{DoubleValue: x}}
	case bool:
		return &commonpb.AnyValue{Value: &commonpb.AnyValue_BoolValue{BoolValue: x}}
	case map[string]interface{}:
		kl := &commonpb.KeyValueList{}
		for _, k := range sortedKeys(x) {
			kl.Values = append(kl.Values, &commonpb.KeyValue{Key: k, Value: anyValue(x[k])})
		}
		return &commonpb.AnyValue{Value: &commonpb.AnyValue_KvlistValue{KvlistValue: kl}}
	case []interface{}:
		al := &commonpb.ArrayValue{}
		for _, e := range x {
			al.Values = append(al.Values, anyValue(e))
		}
		return &commonpb.AnyValue{Value: &commonpb.AnyValue_ArrayValue{ArrayValue: al}}
	}
	return &commonpb.AnyValue{Value: &commonpb.AnyValue_StringValue{StringValue: fmt.Sprint(v)}}
}

func kvs(attrs []c16Attr, marker string) []*commonpb.KeyValue {
	out := []*commonpb.KeyValue{{Key: "marker", Value: anyValue(marker)}}
	for _, a := range attrs {
		out = append(out, &commonpb.KeyValue{Key: a.Key, Value: anyValue(a.Val)})
	}
	return out
}

type c16Sent struct {
	kind    string // log | metric
	index   string
	metric  string
	labels  map[string]string
	value   float64
	leaves  map[string]interface{} // key path (dot separated) -> scalar value expected somewhere in the stored event
	hasTime bool
	err     string
}

func c16Leaves(attrs []c16Attr) map[string]interface{} {
	out := map[string]interface{}{}
	var walk func(prefix string, v interface{})
	walk = func(prefix string, v interface{}) {
		switch x := v.(type) {
		case map[string]interface{}:
			for k, e := range x {
				walk(prefix+"."+k, e)
			}
		case []interface{}:
			for i, e := range x {
				walk(fmt.Sprintf("%s.%d", prefix, i), e)
			}
		default:
			out[prefix] = v
		}
	}
	for _, a := range attrs {
		walk(a.Key, a.Val)
	}
	return out
}

// c16Send delivers the logical event through one protocol.
// compJSON: a companion record (JSON protocols); its marker field never contains the marker of the record under test.
func compJSON(tag string) string {
	return `{"cmarker":"` + tag + `","cattr":"` + tag + `-v","cnum":77}`
}

func c16Send(w *kernel.Worker, j *c16Job, marker string) (*c16Sent, error) {
	s := &c16Sent{kind: "log", leaves: c16Leaves(j.Attrs), hasTime: j.Time != "absent"}
	js := map[string]string{"Content-Type": "application/json"}
	doc := map[string]interface{}{"marker": marker}
	for _, a := range j.Attrs {
		doc[a.Key] = a.Val
	}
	tsJSON := func() (interface{}, bool) {
		switch j.Time {
		case "ms":
			return c16TimeMs, true
		case "s":
			return c16TimeMs / 1000, true
		case "rfc3339":
			return time.UnixMilli(c16TimeMs).UTC().Format(time.RFC3339), true
		case "rfc3339nano":
			return time.UnixMilli(c16TimeMs).UTC().Format(time.RFC3339Nano), true
		case "float-s":
			return float64(c16TimeMs) / 1000, true
		}
		return nil, false
	}
	post := func(server, path string, body []byte, hdr map[string]string) (*httpRes, error) {
		var r httpRes
		err := w.Call("http", map[string]interface{}{"server": server, "method": "POST", "path": path, "body_b64": b64(body), "headers": hdr}, &r)
		return &r, err
	}
	check := func(r *httpRes, err error) (*c16Sent, error) {
		if err != nil {
			return nil, err
		}
		if r.Status < 200 || r.Status >= 300 {
			s.err = fmt.Sprintf("http %d %s", r.Status, trunc(r.Body, 200))
		}
		return s, nil
	}
	nano := uint64(c16TimeMs) * 1_000_000
	if j.Time == "absent" {
		nano = 0
	}
	switch j.Protocol {
	case "es-bulk":
		s.index = "c16esbulk"
		if t, ok := tsJSON(); ok {
			doc["timestamp"] = t
		}
		b, _ := json.Marshal(doc)
		act := `{"index":{"_index":"c16esbulk"}}` + "\n"
		if j.Companions {
			return check(post("ingest", "/elastic/_bulk", []byte(act+compJSON("zb")+"\n"+act+string(b)+"\n"+act+compJSON("za")+"\n"), js))
		}
		return check(post("ingest", "/elastic/_bulk", []byte(act+string(b)+"\n"), js))
	case "es-doc":
		s.index = "c16esdoc"
		if t, ok := tsJSON(); ok {
			doc["timestamp"] = t
		}
		b, _ := json.Marshal(doc)
		return check(post("ingest", "/elastic/c16esdoc/_doc", b, js))
	case "splunk-hec":
		s.index = "c16hec"
		rec := map[string]interface{}{"index": "c16hec", "event": doc, "source": "src", "host": "h"}
		if t, ok := tsJSON(); ok {
			rec["time"] = t
		}
		b, _ := json.Marshal(rec)
		if j.Companions {
			pre := `{"index":"c16hec","event":` + compJSON("zb") + `}`
			suf := `{"index":"c16hec","event":` + compJSON("za") + `}`
			return check(post("ingest", "/services/collector/event", []byte(pre+"\n"+string(b)+"\n"+suf), js))
		}
		return check(post("ingest", "/services/collector/event", b, js))
	case "loki-proto", "loki-json":
		s.index = "loki-index"
		// Loki carries labels (strings) and a line; scalar attributes go into labels as text, structured ones into the line
		labels := map[string]string{"marker": marker}
		s.leaves = map[string]interface{}{}
		for _, a := range j.Attrs {
			if a.Kind == "nested" || a.Kind == "list" {
				continue
			}
			labels[a.Key] = fmt.Sprint(a.Val)
			s.leaves[a.Key] = fmt.Sprint(a.Val)
		}
		line := "line of " + marker
		s.leaves["line"] = line
		if j.Protocol == "loki-json" {
			streams := []interface{}{map[string]interface{}{"stream": labels, "values": [][]string{{strconv.FormatUint(nano, 10), line}}}}
			if j.Companions {
				cs := func(tag string) interface{} {
					return map[string]interface{}{"stream": map[string]string{"cmarker": tag, "cattr": tag + "-v", "cnum": "77"}, "values": [][]string{{strconv.FormatUint(nano, 10), "companion " + tag}}}
				}
				streams = []interface{}{cs("zb"), streams[0], cs("za")}
			}
			body := map[string]interface{}{"streams": streams}
			b, _ := json.Marshal(body)
			return check(post("ingest", "/loki/api/v1/push", b, js))
		}
		var lp []string
		for _, k := range sortedKeys(labels) {
			lp = append(lp, fmt.Sprintf("%s=%q", k, labels[k]))
		}
		req := &lokilog.PushRequest{Streams: []*lokilog.StreamAdapter{{Labels: "{" + strings.Join(lp, ", ") + "}",
			Entries: []*lokilog.EntryAdapter{{Timestamp: timestamppb.New(time.Unix(0, int64(nano))), Line: line}}}}}
		if j.Companions {
			cs := func(tag string) *lokilog.StreamAdapter {
				return &lokilog.StreamAdapter{Labels: fmt.Sprintf(`{cattr=%q, cmarker=%q, cnum="77"}`, tag+"-v", tag),
					Entries: []*lokilog.EntryAdapter{{Timestamp: timestamppb.New(time.Unix(0, int64(nano))), Line: "companion " + tag}}}
			}
			req.Streams = []*lokilog.StreamAdapter{cs("zb"), req.Streams[0], cs("za")}
		}
		pb, err := proto.Marshal(req)
		if err != nil {
			return nil, err
		}
		return check(post("ingest", "/loki/api/v1/push", snappy.Encode(nil, pb), map[string]string{"Content-Type": "application/x-protobuf"}))
	case "otlp-logs":
		s.index = "c16otlplogs"
		traceID, _ := hex.DecodeString("0102030405060708090a0b0c0d0e0f10")
		spanID, _ := hex.DecodeString("1112131415161718")
		s.leaves["body"] = "body of " + marker
		s.leaves["severity_text"] = "WARN"
		s.leaves["trace_id"] = "0102030405060708090a0b0c0d0e0f10"
		s.leaves["span_id"] = "1112131415161718"
		s.leaves["resattr"] = "rv"
		s.leaves["scopeattr"] = "sv"
		req := &collogpb.ExportLogsServiceRequest{ResourceLogs: []*logpb.ResourceLogs{{
			Resource: &respb.Resource{Attributes: []*commonpb.KeyValue{{Key: "siglensIndexName", Value: anyValue("c16otlplogs")}, {Key: "resattr", Value: anyValue("rv")}}},
			ScopeLogs: []*logpb.ScopeLogs{{Scope: &commonpb.InstrumentationScope{Name: "sc", Attributes: []*commonpb.KeyValue{{Key: "scopeattr", Value: anyValue("sv")}}},
				LogRecords: []*logpb.LogRecord{{TimeUnixNano: nano, SeverityText: "WARN", SeverityNumber: 13, Body: anyValue("body of " + marker),
					Attributes: kvs(j.Attrs, marker), TraceId: traceID, SpanId: spanID}}}}}}}
		if j.Time == "ns+observed" {
			req.ResourceLogs[0].ScopeLogs[0].LogRecords[0].ObservedTimeUnixNano = nano + 360_456_000_000
		}
		if j.Companions {
			cr := func(tag string) *logpb.LogRecord {
				return &logpb.LogRecord{TimeUnixNano: nano, SeverityText: "INFO", Body: anyValue("companion " + tag),
					Attributes: []*commonpb.KeyValue{{Key: "cattr", Value: anyValue(tag + "-v")}, {Key: "cnum", Value: anyValue(int64(77))}}}
			}
			sl := req.ResourceLogs[0].ScopeLogs[0]
			if j.CompRes {
				crl := func(tag string) *logpb.ResourceLogs {
					return &logpb.ResourceLogs{Resource: &respb.Resource{Attributes: []*commonpb.KeyValue{{Key: "siglensIndexName", Value: anyValue("c16otlplogs")},
						{Key: "service.name", Value: anyValue("csvc-" + tag)}, {Key: "cres", Value: anyValue("cres-" + tag)}}},
						ScopeLogs: []*logpb.ScopeLogs{{Scope: &commonpb.InstrumentationScope{Name: "csc", Attributes: []*commonpb.KeyValue{{Key: "cscope", Value: anyValue("cscope-" + tag)}}}, LogRecords: []*logpb.LogRecord{cr(tag)}}}}
				}
				req.ResourceLogs = []*logpb.ResourceLogs{crl("zb"), req.ResourceLogs[0], crl("za")}
			} else {
				sl.LogRecords = []*logpb.LogRecord{cr("zb"), sl.LogRecords[0], cr("za")}
			}
		}
		pb, err := proto.Marshal(req)
		if err != nil {
			return nil, err
		}
		return check(post("ingest", "/otlp/v1/logs", pb, map[string]string{"Content-Type": "application/x-protobuf"}))
	case "otlp-traces":
		s.index = "traces"
		traceID, _ := hex.DecodeString("a1a2a3a4a5a6a7a8a9aaabacadaeaf" + fmt.Sprintf("%02x", atomic.AddInt64(&c16Seq, 1)%250))
		spanID, _ := hex.DecodeString("b1b2b3b4b5b6b7b8")
		s.leaves["name"] = "op-" + marker
		s.leaves["service"] = "svc16"
		s.leaves["span_id"] = "b1b2b3b4b5b6b7b8"
		start := nano
		req := &coltracepb.ExportTraceServiceRequest{ResourceSpans: []*tracepb.ResourceSpans{{
			Resource: &respb.Resource{Attributes: []*commonpb.KeyValue{{Key: "service.name", Value: anyValue("svc16")}}},
			ScopeSpans: []*tracepb.ScopeSpans{{Spans: []*tracepb.Span{{TraceId: traceID, SpanId: spanID, Name: "op-" + marker, Kind: tracepb.Span_SPAN_KIND_SERVER,
				StartTimeUnixNano: start, EndTimeUnixNano: start + 5_000_000, Attributes: kvs(j.Attrs, marker),
				Status: &tracepb.Status{Code: tracepb.Status_STATUS_CODE_OK}}}}}}}}
		if j.Companions {
			cspan := func(tag string, id byte) *tracepb.Span {
				sid := append([]byte{}, spanID...)
				sid[7] = id
				return &tracepb.Span{TraceId: traceID, SpanId: sid, Name: "companion-" + tag, Kind: tracepb.Span_SPAN_KIND_SERVER, StartTimeUnixNano: start, EndTimeUnixNano: start + 1_000_000,
					Attributes: []*commonpb.KeyValue{{Key: "cattr", Value: anyValue(tag + "-v")}, {Key: "cnum", Value: anyValue(int64(77))}}, Status: &tracepb.Status{Code: tracepb.Status_STATUS_CODE_OK}}
			}
			ss := req.ResourceSpans[0].ScopeSpans[0]
			if j.CompRes {
				// the record's own resource names no service: whatever is stored for it must not be a neighbour's
				req.ResourceSpans[0].Resource = &respb.Resource{Attributes: []*commonpb.KeyValue{{Key: "ownres", Value: anyValue("ownres-v")}}}
				delete(s.leaves, "service")
				crs := func(tag string, id byte) *tracepb.ResourceSpans {
					return &tracepb.ResourceSpans{Resource: &respb.Resource{Attributes: []*commonpb.KeyValue{{Key: "service.name", Value: anyValue("csvc-" + tag)}, {Key: "cres", Value: anyValue("cres-" + tag)}}},
						ScopeSpans: []*tracepb.ScopeSpans{{Spans: []*tracepb.Span{cspan(tag, id)}}}}
				}
				req.ResourceSpans = []*tracepb.ResourceSpans{crs("zb", 0x01), req.ResourceSpans[0], crs("za", 0x02)}
			} else {
				ss.Spans = []*tracepb.Span{cspan("zb", 0x01), ss.Spans[0], cspan("za", 0x02)}
			}
		}
		pb, err := proto.Marshal(req)
		if err != nil {
			return nil, err
		}
		return check(post("ingest", "/otlp/v1/traces", pb, map[string]string{"Content-Type": "application/x-protobuf"}))
	case "otsdb", "prom-remote-write", "otlp-metrics":
		s.kind = "metric"
		s.metric = "c16m_" + marker
		s.value = 12.5
		s.labels = map[string]string{}
		for _, a := range j.Attrs {
			if a.Kind == "nested" || a.Kind == "list" {
				continue
			}
			s.labels[a.Key] = fmt.Sprint(a.Val)
		}
		if len(s.labels) == 0 {
			s.labels["k"] = "v"
		}
		switch j.Protocol {
		case "otsdb":
			ts := c16TimeMs / 1000
			if j.Time == "ms" {
				ts = c16TimeMs
			}
			tags, _ := json.Marshal(s.labels)
			body := fmt.Sprintf(`[{"metric":%q,"tags":%s,"timestamp":%d,"value":12.5}]`, s.metric, tags, ts)
			if j.Companions {
				body = fmt.Sprintf(`[{"metric":%q,"tags":{"cattr":"zb-v","cnum":"77"},"timestamp":%d,"value":1},{"metric":%q,"tags":%s,"timestamp":%d,"value":12.5},{"metric":%q,"tags":{"cattr":"za-v"},"timestamp":%d,"value":2}]`,
					s.metric+"_cb", ts, s.metric, tags, ts, s.metric+"_ca", ts)
			}
			return check(post("ingest", "/otsdb/api/put", []byte(body), js))
		case "prom-remote-write":
			lbls := []prompb.Label{{Name: "__name__", Value: s.metric}}
			for _, k := range sortedKeys(s.labels) {
				lbls = append(lbls, prompb.Label{Name: k, Value: s.labels[k]})
			}
			wr := &prompb.WriteRequest{Timeseries: []prompb.TimeSeries{{Labels: lbls, Samples: []prompb.Sample{{Value: 12.5, Timestamp: c16TimeMs}}}}}
			if j.Companions {
				cts := func(tag string) prompb.TimeSeries {
					return prompb.TimeSeries{Labels: []prompb.Label{{Name: "__name__", Value: s.metric + "_c" + tag}, {Name: "cattr", Value: tag + "-v"}, {Name: "cnum", Value: "77"}}, Samples: []prompb.Sample{{Value: 1, Timestamp: c16TimeMs}}}
				}
				wr.Timeseries = []prompb.TimeSeries{cts("zb"), wr.Timeseries[0], cts("za")}
			}
			pb, err := wr.Marshal()
			if err != nil {
				return nil, err
			}
			return check(post("ingest", "/promql/api/v1/write", snappy.Encode(nil, pb), map[string]string{"Content-Type": "application/x-protobuf", "Content-Encoding": "snappy", "X-Prometheus-Remote-Write-Version": "0.1.0"}))
		default:
			var attrs []*commonpb.KeyValue
			for _, k := range sortedKeys(s.labels) {
				attrs = append(attrs, &commonpb.KeyValue{Key: k, Value: anyValue(s.labels[k])})
			}
			req := &colmetpb.ExportMetricsServiceRequest{ResourceMetrics: []*metpb.ResourceMetrics{{ScopeMetrics: []*metpb.ScopeMetrics{{Metrics: []*metpb.Metric{{Name: s.metric,
				Data: &metpb.Metric_Gauge{Gauge: &metpb.Gauge{DataPoints: []*metpb.NumberDataPoint{{TimeUnixNano: nano, Attributes: attrs, Value: &metpb.NumberDataPoint_AsDouble{AsDouble: 12.5}}}}}}}}}}}}
			if j.Companions {
				cm := func(tag string) *metpb.Metric {
					return &metpb.Metric{Name: s.metric + "_c" + tag, Data: &metpb.Metric_Gauge{Gauge: &metpb.Gauge{DataPoints: []*metpb.NumberDataPoint{{TimeUnixNano: nano,
						Attributes: []*commonpb.KeyValue{{Key: "cattr", Value: anyValue(tag + "-v")}, {Key: "cnum", Value: anyValue("77")}}, Value: &metpb.NumberDataPoint_AsDouble{AsDouble: 1}}}}}}
				}
				sm := req.ResourceMetrics[0].ScopeMetrics[0]
				sm.Metrics = []*metpb.Metric{cm("zb"), sm.Metrics[0], cm("za")}
			}
			pb, err := proto.Marshal(req)
			if err != nil {
				return nil, err
			}
			return check(post("ingest", "/otlp/v1/metrics", pb, map[string]string{"Content-Type": "application/x-protobuf"}))
		}
	}
	return nil, fmt.Errorf("unknown protocol %s", j.Protocol)
}

func scalarEq(want interface{}, obs interface{}) bool {
	switch x := want.(type) {
	case string:
		if s, ok := obs.(string); ok {
			return s == x
		}
		return fmt.Sprint(obs) == x
	case int64:
		if i, ok := ObsInt(obs); ok {
			return i == x
		}
	case float64:
		if f, ok := ObsFloat(obs); ok {
			return f == x
		}
	case bool:
		if b, ok := obs.(bool); ok {
			return b == x
		}
		if s, ok := obs.(string); ok {
			return s == strconv.FormatBool(x)
		}
	}
	return false
}

func c16Run(w *kernel.Worker, j *c16Job, rep *kernel.Report) (*Fail, error) {
	die := func(err error) (*Fail, error) {
		fp, what, herr := diedResult("C16", err)
		if herr != nil {
			return nil, herr
		}
		return &Fail{FP: fp + "/" + j.Protocol, What: what}, nil
	}
	c16Normalize(j)
	marker := fmt.Sprintf("mk%dq", atomic.AddInt64(&c16Seq, 1))
	before := time.Now().UnixMilli()
	sent, err := c16Send(w, j, marker)
	if err != nil {
		return die(err)
	}
	after := time.Now().UnixMilli()
	rep.Transition(1)
	ctx := fmt.Sprintf("protocol %s, attributes %s, time %s", j.Protocol, jstr(j.Attrs), j.Time)
	if sent.err != "" {
		return &Fail{FP: "C16/rejected/" + j.Protocol, What: ctx + ": request rejected: " + sent.err}, nil
	}
	fs := &Fails{}
	if sent.kind == "metric" {
		_ = w.Call("sleep", map[string]interface{}{"ms": 1}, nil)
		center := uint32(c16TimeMs / 1000)
		res, status, raw, err := mQueryRange(w, sent.metric, center-100, center+100)
		if err != nil {
			return die(err)
		}
		rep.Eval(1)
		if status != "ok" || len(res) != 1 {
			// maybe the datapoint was stored at arrival time
			now := uint32(time.Now().Unix())
			res2, _, _, err := mQueryRange(w, sent.metric, now-100, now+10)
			if err != nil {
				return die(err)
			}
			if len(res2) == 1 {
				fs.Add("C16/arrival-time-used/"+j.Protocol, ctx+fmt.Sprintf(": the datapoint carried time %d but is stored at arrival time (%v)", c16TimeMs/1000, res2[0].Raw))
			} else {
				fs.Add("C16/not-stored/"+j.Protocol, ctx+": no series returned: "+status+" "+trunc(raw, 200))
			}
			return fs.Result(), nil
		}
		r := res[0]
		if len(r.Points) != 1 || r.Points[0].TS != center || math.Float64frombits(r.Points[0].Bits) != sent.value {
			fs.Add("C16/metric-point/"+j.Protocol, ctx+fmt.Sprintf(": stored %v, sent (%d, %v)", r.Raw, center, sent.value))
		}
		for k, v := range sent.labels {
			if r.Labels[k] != v {
				fs.Add("C16/label-lost/"+j.Protocol, ctx+fmt.Sprintf(": label %s=%q, stored labels %v", k, v, r.Labels))
			}
		}
		for k := range r.Labels {
			if _, ok := sent.labels[k]; !ok && k != "__name__" {
				rep.Add("extra_labels_seen", 1)
				if k == "cattr" || k == "cnum" {
					fs.Add("C16/foreign-field/"+j.Protocol, ctx+fmt.Sprintf(": the series carries label %s=%q, which belongs to another series of the same request (labels %v)", k, r.Labels[k], r.Labels))
				}
			}
		}
		return fs.Result(), nil
	}
	if err := w.Call("flush", nil, nil); err != nil {
		return die(err)
	}
	r, err := runQuery(w, Q{Index: sent.index, Text: "*", Start: 1_000_000_000_000, End: time.Now().UnixMilli() + 100000, Size: 10000})
	if err != nil {
		return die(err)
	}
	rep.Eval(1)
	if r.Err != "" {
		return &Fail{FP: "C16/query-error/" + j.Protocol, What: ctx + ": " + r.Err}, nil
	}
	var rec map[string]interface{}
	for _, x := range r.Records {
		for _, v := range x {
			if s, ok := v.(string); ok && strings.Contains(s, marker) {
				rec = x
			}
		}
	}
	if rec == nil {
		return &Fail{FP: "C16/not-stored/" + j.Protocol, What: ctx + fmt.Sprintf(": no stored event carries the marker (index %s holds %d events)", sent.index, len(r.Records))}, nil
	}
	if os.Getenv("VERIF_C16_DEBUG") != "" {
		fmt.Fprintf(os.Stderr, "C16-DEBUG %s %s -> %s\n", j.Protocol, j.Time, jstr(rec))
	}
	// content: every logical leaf is found under a column whose name is, or ends with, its key path
	for path, want := range sent.leaves {
		found, near := false, ""
		for c, v := range rec {
			if c == path || strings.HasSuffix(c, "."+path) || strings.HasSuffix(c, "_"+path) || strings.HasSuffix(c, ":"+path) {
				near = fmt.Sprintf("%s=%s", c, jstr(v))
				if scalarEq(want, v) {
					found = true
				}
			}
		}
		if !found {
			kind := fmt.Sprintf("%T", want)
			if i, ok := want.(int64); ok && (i > 1<<53 || i < -(1<<53)) {
				kind = "int64-beyond-2^53"
			}
			if near == "" {
				fs.Add("C16/field-lost/"+j.Protocol+"/"+kind, ctx+fmt.Sprintf(": logical field %s=%v is not in the stored event %s", path, want, jstr(rec)))
			} else {
				fs.Add("C16/field-changed/"+j.Protocol+"/"+kind, ctx+fmt.Sprintf(": logical field %s=%v (%T) is stored as %s", path, want, want, near))
			}
		}
	}
	// nothing of the other records of the same request
	for c, v := range rec {
		if v == nil {
			continue
		}
		if c == "cattr" || c == "cnum" || c == "cmarker" || strings.HasSuffix(c, ".cattr") || strings.HasSuffix(c, ".cnum") || strings.HasSuffix(c, "_cattr") || strings.HasSuffix(c, ":cattr") {
			fs.Add("C16/foreign-field/"+j.Protocol, ctx+fmt.Sprintf(": the stored event has %s=%s, a field of another record of the same request: %s", c, jstr(v), jstr(rec)))
		}
		if sv, ok := v.(string); ok && (strings.Contains(sv, "csvc-z") || strings.Contains(sv, "cres-z") || strings.Contains(sv, "cscope-z")) {
			fs.Add("C16/foreign-field/"+j.Protocol, ctx+fmt.Sprintf(": the stored event has %s=%s, a resource or scope attribute of another resource of the same request: %s", c, jstr(v), jstr(rec)))
		}
	}
	// time
	ts, _ := ObsInt(rec["timestamp"])
	if j.Protocol == "otlp-traces" {
		// a span's own time is its start (and end) time, kept in nanoseconds
		st, _ := ObsInt(rec["start_time"])
		en, _ := ObsInt(rec["end_time"])
		if st != c16TimeMs*1_000_000 || en != c16TimeMs*1_000_000+5_000_000 {
			fs.Add("C16/time/span-times/otlp-traces", ctx+fmt.Sprintf(": span start/end %d/%d, sent %d/%d", st, en, c16TimeMs*1_000_000, c16TimeMs*1_000_000+5_000_000))
		}
		return fs.Result(), nil
	}
	if sent.hasTime {
		if ts != c16TimeMs {
			cls := "other"
			if ts >= before-1000 && ts <= after+1000 {
				cls = "arrival-time-used"
			} else if ts/1000 == c16TimeMs/1000 {
				cls = "sub-second-precision-lost"
			}
			if !(j.Time == "s" || j.Time == "rfc3339") || ts != c16TimeMs/1000*1000 {
				fs.Add("C16/time/"+cls+"/"+j.Protocol+"/"+j.Time, ctx+fmt.Sprintf(": carried time %d ms (as %s), stored timestamp %d", c16TimeMs, j.Time, ts))
			}
		}
	} else if ts < before-1000 || ts > after+1000 {
		fs.Add("C16/time/no-time-carried/"+j.Protocol, ctx+fmt.Sprintf(": the event carried no time; stored timestamp %d is not the arrival time [%d,%d]", ts, before, after))
	}
	return fs.Result(), nil
}

func b64(b []byte) string { return base64Std(b) }

func C16() int {
	rep := kernel.NewReport("C16", "exploration")
	rep.Rule = "logical events = every subset of ≤ n attributes from {string, int, float, bool, nested map, list, negative int} × every way the protocol can carry the instant 2023-11-14T22:15:23.456Z " +
		"(absent, ms, s, ns, RFC3339, RFC3339Nano, float seconds) × 10 protocol endpoints of the booted server (ES bulk, ES doc, Splunk HEC, Loki protobuf+snappy and JSON, OTLP logs, OTLP traces, OpenTSDB put, " +
		"Prometheus remote write, OTLP metrics), each request alone and with two companion records of other content before and after it in the same request (OTLP logs and traces also with the companions in resources of their own whose resource and scope attributes the record's resource lacks). The stored event is read back: each logical leaf must be present under a column whose name is or ends with its key path, with an equal value; the stored time must " +
		"equal the carried time (second precision where the carried form has it), and arrival time only when none was carried; nothing of a companion record appears in it. non-trivial = event carrying its own time and ≥1 non-string attribute"
	rep.Assume = []string{"Loki and the metric protocols carry text labels only: scalar attributes are compared as text, structured ones are not sent", "per-protocol renaming is allowed: a field may sit under any column whose name ends with its key path"}
	d := &Driver[c16Job]{Rep: rep, Pool: serverPool(),
		Budget: kernel.NewBudget(map[string]time.Duration{"quick": 150 * time.Second, "thorough": 30 * time.Minute}[rep.Tier]),
		Enumerate: func(emit func(c16Job)) {
			maxSub := 2
			if rep.Tier == "thorough" {
				maxSub = 3
			}
			n := len(c16AttrAlphabet)
			for _, p := range c16Protocols {
				for _, tm := range c16TimesFor(p) {
					for mask := 1; mask < 1<<n; mask++ {
						var as []c16Attr
						for i := 0; i < n; i++ {
							if mask&(1<<i) != 0 {
								as = append(as, c16AttrAlphabet[i])
							}
						}
						if len(as) > maxSub && len(as) != n {
							continue
						}
						emit(c16Job{Protocol: p, Attrs: as, Time: tm})
						if p != "es-doc" {
							emit(c16Job{Protocol: p, Attrs: as, Time: tm, Companions: true})
							if p == "otlp-logs" || p == "otlp-traces" {
								emit(c16Job{Protocol: p, Attrs: as, Time: tm, Companions: true, CompRes: true})
							}
						}
					}
				}
			}
		},
		Run: c16Run,
		Key: func(j *c16Job) string { return jstr(j) },
		Nontrivial: func(j *c16Job) bool {
			if j.Time == "absent" {
				return false
			}
			for _, a := range j.Attrs {
				if a.Kind != "str" {
					return true
				}
			}
			return false
		},
	}
	d.Drive()
	return rep.Finish()
}

func init() {
	Registry["C16"] = C16
	Replayers["C16"] = MakeReplayer[c16Job]("C16", "exploration", serverPool, c16Run)
	_ = sort.Strings
}

func base64Std(b []byte) string { return base64.StdEncoding.EncodeToString(b) }

// c16Normalize restores Go types after a JSON round trip of a replay document.
func c16Normalize(j *c16Job) {
	for i := range j.Attrs {
		a := &j.Attrs[i]
		if a.Kind == "int" {
			if f, ok := a.Val.(float64); ok {
				a.Val = int64(f)
				// beyond 2^53 the round trip through float64 is lossy: take the alphabet's value of that key
				for _, x := range c16AttrAlphabet {
					if x.Key == a.Key {
						a.Val = x.Val
					}
				}
			}
		}
	}
}
