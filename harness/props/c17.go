package props

import (
	"encoding/json"
	"fmt"
	"os"
	"sort"
	"strings"
	"time"

	"verif/harness/kernel"
)

// C17 — every query is answered or rejected, terminates, and frees its resources.
// (a) parsers: all token strings up to a length over per-language alphabets; (b) grammar-generated queries over data
// with a resource oracle (running/waiting tables empty, no query goroutine left).

type c17ParseJob struct {
	Lang   string   `json:"lang"`
	Prefix []string `json:"prefix"` // first tokens; the job enumerates all completions up to the depth
	Depth  int      `json:"depth"`
	// Nest: instead of token strings the job parses the nesting family of the language: every atom wrapped in 0..3 pairs of
	// parentheses inside every context, and every such text again inside every context (wrapped 0..2 times)
	Nest bool `json:"nest,omitempty"`
}

func c17NestFamily(lang string) []string {
	var ctxs, atoms []string
	switch lang {
	case "PromQL":
		ctxs = []string{"%s", "abs(%s)", "sum(%s)", "rate(%s)", "sum by (job) (%s)", "%s + 1", "ceil(%s) / 2", "avg_over_time(%s)", "clamp_max(%s, 3)", "-%s"}
		atoms = []string{"m", `m{job="a"}`, "m[5m]", "rate(m[5m])", "1", "m + 2"}
	case "Splunk QL":
		ctxs = []string{"%s", "%s | stats count", "* | where %s", "* | eval z=%s", "NOT %s", "%s AND b=2", "* | stats count(eval(%s))", "* | eval z=if(%s, 1, 2)"}
		atoms = []string{"a=1", "a", "1", "a>1 OR b=2", "if(a>1, 1, 2)", "a+1"}
	case "SQL":
		ctxs = []string{"select * from t where %s", "select %s from t", "select count(*) from t where %s and a=1", "select * from t where a=1 or %s"}
		atoms = []string{"a=1", "a", "1", "a=1 and b=2"}
	default:
		return nil
	}
	wrap := func(t string, d int) string { return strings.Repeat("(", d) + t + strings.Repeat(")", d) }
	seen := map[string]bool{}
	var out []string
	add := func(t string) {
		if !seen[t] {
			seen[t] = true
			out = append(out, t)
		}
	}
	for _, c1 := range ctxs {
		for _, a := range atoms {
			for d1 := 0; d1 <= 3; d1++ {
				inner := strings.Replace(c1, "%s", wrap(a, d1), 1)
				add(inner)
				if lang == "SQL" || strings.Contains(inner, "|") {
					continue // a whole statement / pipeline is not an operand
				}
				for _, c2 := range ctxs {
					for d2 := 0; d2 <= 2; d2++ { // at most 5 pairs in all: the Splunk QL parser's time grows steeply with the depth (8 pairs: tens of seconds under load), and the check has no business timing it
						add(strings.Replace(c2, "%s", wrap(inner, d2), 1))
					}
				}
			}
		}
	}
	return out
}

func c17Alphabet(lang string) []string {
	switch lang {
	case "Splunk QL":
		return []string{"*", "a", "b", "1", "2.5", `"x y"`, "=", "!=", "<", ">=", "(", ")", "|", "AND", "OR", "NOT", "stats", "count", "by", "eval", "where",
			"head", "sort", "-", "dedup", "rex", "timechart", "span=1h", "bin", "top", "fields", "as", ",", `"`, `\`, "\x00", "\xff", "sum(a)", "field=a", "earliest=-1h"}
	case "SQL":
		return []string{"select", "*", "a", "from", "t", "where", "=", "1", "'x'", "group", "by", "order", "limit", "count(*)", ",", "and", "(", ")", "as", "`", "\x00",
			"describe", "Describe", "SHOW", "Select"} // statements other than select, and keywords in mixed case
	case "PromQL":
		return []string{"m", "{", "}", "job", "=", "=~", `"a"`, `".*"`, ",", "sum", "by", "(", ")", "rate", "[5m]", "+", "2", "offset", "1h", "without", "avg_over_time", "\x00", "/", "-"}
	case "ES":
		return []string{`{"query":`, `{"match":{"a":"x"}}`, `{"term":{"a":1}}`, `{"range":{"a":{"gte":1}}}`, `{"bool":{"must":[`, `]}}`, `{"exists":{"field":"a"}}`, `{"wildcard":{"a":"x*"}}`,
			`}`, `,`, `{"match_all":{}}`, `{"bool":{"should":[`, `{"bool":{"must_not":[`, `"size":1`, `{`, `[`, `null`, `{"aggs":{"x":{"terms":{"field":"a"}}}}`}
	}
	return nil
}

func c17JoinTokens(lang string, toks []string) string {
	if lang == "ES" {
		return strings.Join(toks, "")
	}
	return strings.Join(toks, " ")
}

type parseOut struct {
	S    string `json:"s"`
	Same bool   `json:"same"`
	M    string `json:"m"`
}

func c17ParseRun(w *kernel.Worker, j *c17ParseJob, rep *kernel.Report) (*Fail, error) {
	alpha := c17Alphabet(j.Lang)
	var texts []string
	var rec func(cur []string)
	rec = func(cur []string) {
		texts = append(texts, c17JoinTokens(j.Lang, cur))
		if len(cur) == j.Depth {
			return
		}
		for _, t := range alpha {
			rec(append(append([]string{}, cur...), t))
		}
	}
	chunk := 2000
	if j.Nest {
		texts = c17NestFamily(j.Lang)
		chunk = 250
		rep.Add("nesting_texts_"+strings.ReplaceAll(j.Lang, " ", ""), int64(len(texts)))
	} else {
		rec(j.Prefix)
	}
	fs := &Fails{}
	for i := 0; i < len(texts); i += chunk {
		e := i + chunk
		if e > len(texts) {
			e = len(texts)
		}
		var out []parseOut
		err := w.CallT("parsemany", map[string]interface{}{"lang": j.Lang, "texts": texts[i:e]}, &out, 120*time.Second)
		if err != nil {
			d, ok := err.(*kernel.Died)
			if !ok {
				return nil, err
			}
			// find the culprit: one text per call on fresh workers
			culprit := ""
			for _, t := range texts[i:e] {
				fw, berr := logPool().BootWorker()
				if berr != nil {
					return nil, berr
				}
				var o []parseOut
				cerr := fw.CallT("parsemany", map[string]interface{}{"lang": j.Lang, "texts": []string{t}}, &o, 30*time.Second)
				fw.Close()
				if cerr != nil {
					culprit = t
					break
				}
			}
			clause := "parser-killed-process"
			if d.Timeout {
				clause = "parser-did-not-terminate"
			}
			fs.Add("C17/"+clause+"/"+j.Lang+"/"+d.Frame, fmt.Sprintf("language %s: parsing %q: %s\n%s", j.Lang, culprit, d.Exit, trunc(d.Stderr, 1200)))
			return fs.Result(), nil
		}
		rep.Eval(int64(e - i))
		for k, o := range out {
			switch o.S {
			case "ok":
				rep.Add("parsed_ok_"+strings.ReplaceAll(j.Lang, " ", ""), 1)
			case "panic":
				// recovered by the HTTP layer's Recovery middleware in production (the parser runs in the handler goroutine):
				// the client gets an error and the process keeps running. Counted, not a violation.
				rep.Add("parser_panics_recovered_"+strings.ReplaceAll(j.Lang, " ", ""), 1)
			}
			if !o.Same {
				fs.Add("C17/plan-not-deterministic/"+j.Lang, fmt.Sprintf("language %s: parsing %q twice gave different plans (status %s): %s", j.Lang, texts[i+k], o.S, o.M))
			}
		}
	}
	return fs.Result(), nil
}

// ---- (b) valid queries over data ----------------------------------------------------------------------------------

type c17QJob struct {
	Layout string   `json:"layout"` // open | rotated
	Lang   string   `json:"lang"`
	Texts  []string `json:"texts"`
}

func c17Dataset() []string {
	return []string{
		c01Event(0, T0, `"p":1,"sp":1,"mx":1,"ns":"1","g":"A","m":"x,y"`),
		c01Event(1, T0+1, `"p":2,"mx":"z","ns":"2","g":"B","m":"foo bar"`),
		c01Event(2, T0+1000, `"p":3,"sp":3,"mx":2.5,"ns":"3","g":"A","m":"foo"`),
		c01Event(3, T0+2000, `"p":2,"mx":true,"ns":"x4","g":"B"`),
	}
}

func c17Queries() []string {
	fields := []string{"p", "sp", "zz", "mx", "ns"}
	templates := []string{
		"F=1", "F>1", "F=*", "NOT F=1", "F=1 OR g=A",
		"* | stats count by F", "* | stats sum(F), avg(F), min(F), max(F), dc(F), values(F)", "* | stats perc50(F), range(F), list(F), earliest(F), latest(F)",
		"* | stats count, sum(p) by F", "* | stats count by g, F", "* | timechart span=1s count by F", "* | timechart span=1s avg(F)",
		"* | eval x=F+1", `* | eval x=if(F>1,"a","b")`, "* | where F>1", "* | where isnull(F)", "* | sort F", "* | sort -F | head 2", "* | dedup F",
		"* | top 2 F", "* | rare F", "* | fields F", "* | fields - F", "* | rename F as y", "* | fillnull value=0 F", "* | bin span=2 F",
		"* | streamstats sum(F)", `* | rex field=F "(?<w>\d+)"`, `* | regex F="1"`, `* | makemv delim="," F`, "* | mvexpand F",
		"* | stats count by F | sort -count", "* | stats count by F | where count>1", "* | eval x=F | stats sum(x)", "* | stats count by F | head 1",
		"* | sort F | tail 2", "* | head 2 | stats count by F", "* | eval x=len(F) | stats max(x)", "* | stats count(F) as c | eval d=c*2",
		"* | stats sum(F) by g | sort g", "* | dedup F | stats count", "* | where F=1 OR g=\"B\" | fields id, F",
		// one- and many-argument predicates and functions in every position that takes an expression: inside a measure, in where, in eval
		"* | stats count(eval(isnull(F)))", "* | stats count(eval(isnotnull(F))) as c", "* | stats count(eval(isnum(F))) by g", "* | stats count(eval(F in(1,2)))",
		"* | stats sum(eval(F>1))", "* | stats count(eval(F=1)) by g", `* | stats count(eval(like(F,"1%")))`, `* | stats count(eval(match(F,"1"))), dc(eval(isstr(F)))`,
		"* | where F in(1,2)", "* | where isnum(F)", "* | where isstr(F) OR isnull(F)", `* | where like(F,"%1")`, `* | where match(F,"1")`, "* | where isnotnull(F) AND NOT isbool(F)",
		"* | eval x=coalesce(F,g)", `* | eval x=case(F>1,"a",true(),"b")`, "* | eval x=tonumber(F)", "* | eval x=tostring(F)", "* | eval x=mvcount(F)", "* | eval x=isnull(F)",
		"* | eval x=typeof(F)", "* | eval x=round(F,1)", "* | eval x=substr(F,1,1)", "* | eval x=lower(F)", "* | eval x=null()", "* | eval x=if(isnull(F),0,F) | stats sum(x)",
	}
	var out []string
	for _, t := range templates {
		for _, f := range fields {
			out = append(out, strings.ReplaceAll(t, "F", f))
		}
	}
	out = append(out, "*", "* | head 0", "* | tail 10", "* | stats count", "* | sort -timestamp", "g=A | stats count by g | sort -count | head 1")
	return out
}

// Elasticsearch _search requests: index expression | body
func c17ESQueries() []string {
	bodies := []string{`{"query":{"match_all":{}}}`, `{"query":{"term":{"g":"A"}}}`, `{"query":{"range":{"p":{"gte":2}}}}`,
		`{"query":{"bool":{"must":[{"term":{"g":"A"}}],"must_not":[{"term":{"p":1}}]}}}`, `{"query":{"match":{"m":"foo"}}}`, `{"size":1,"query":{"match_all":{}}}`,
		`{"query":{"term":{"zz":"1"}}}`, `{"query":{"nosuch":{}}}`, `{"aggs":{"x":{"terms":{"field":"g"}}},"size":0}`, `{`}
	var out []string
	// index expressions: the data index, patterns, unknown names, and the names the server reserves for itself
	for _, ix := range []string{"IDX", "IDX*", "zz-no-such-index", "zz-no-such*", "*", "traces", "traces*", "red-traces", "service-dependency*", "loki-index"} {
		for _, b := range bodies {
			out = append(out, ix+"|"+b)
		}
	}
	return out
}

func c17SQLQueries() []string {
	return []string{"select * from IDX", "select p, g from IDX", "select * from IDX where p > 1", "select count(*) from IDX", "select count(*) from IDX group by g",
		"select max(p), min(p) from IDX group by g", "select * from IDX order by p desc limit 2", "select zz from IDX", "select sum(mx) from IDX group by zz",
		"select * from IDX where g = 'A' and p < 3", "select avg(sp) from IDX"}
}

func c17QRun(w *kernel.Worker, j *c17QJob, rep *kernel.Report) (*Fail, error) {
	fs := &Fails{}
	die := func(q string, err error) (*Fail, error) {
		d, ok := err.(*kernel.Died)
		if !ok {
			return nil, err
		}
		clause := "server-died"
		if d.Timeout {
			clause = "no-answer-in-120s"
		}
		return &Fail{FP: "C17/" + clause + "/" + d.Frame, What: fmt.Sprintf("layout %s, %s query %q: %s\n%s", j.Layout, j.Lang, q, d.Exit, trunc(d.Stderr, 2000))}, nil
	}
	var base map[string]map[string]int
	if err := w.Call("goroutines", nil, &base); err != nil {
		return die("(baseline)", err)
	}
	lay := Layout{"open", []int{0, 1, 0, 1}}
	if j.Layout == "rotated" {
		lay = Layout{"rotated", []int{0, 2, 0, 2}}
	}
	idx, err := LoadDataset(w, "c17x", c17Dataset(), lay, rep)
	if err != nil {
		return die("(load)", err)
	}
	for _, t := range j.Texts {
		text := strings.ReplaceAll(t, "IDX", idx)
		if j.Lang == "ES" {
			// "<index expression>|<request body>" through the Elasticsearch _search handler
			parts := strings.SplitN(text, "|", 2)
			var hr httpRes
			err := w.CallT("call", map[string]interface{}{"handler": "esSearch", "org": 0, "method": "POST", "uri": "/elastic/" + parts[0] + "/_search", "body": parts[1],
				"userValues": map[string]string{"indexName": parts[0]}}, &hr, 120*time.Second)
			if err != nil {
				return die(t, err)
			}
			rep.Eval(1)
			if hr.Status >= 400 {
				rep.Add("answered_with_error", 1)
			} else {
				rep.Add("answered_with_results", 1)
				rep.Nontrivial(j.Layout + "|" + j.Lang + "|" + t)
			}
			continue
		}
		var r QRes
		err := w.CallT("query", Q{Index: idx, Text: text, Lang: j.Lang, Start: T0 - 10, End: T0 + 10000, Size: 100}, &r, 120*time.Second)
		if err != nil {
			return die(t, err)
		}
		rep.Eval(1)
		if r.Err != "" || len(r.Errors) > 0 {
			rep.Add("answered_with_error", 1)
		} else {
			rep.Add("answered_with_results", 1)
			rep.Nontrivial(j.Layout + "|" + j.Lang + "|" + t)
		}
	}
	// resources: tables empty, no goroutine of the query packages left (compared by stack signature with the baseline)
	active, leak, err := queryResourcesLeft(w, base)
	if err != nil {
		return die("(resources)", err)
	}
	if active != 0 {
		fs.Add("C17/running-table-not-empty", fmt.Sprintf("layout %s, %d %s queries answered; 5 s later GetActiveQueryCount() = %d", j.Layout, len(j.Texts), j.Lang, active))
	}
	if len(leak) > 0 {
		fs.Add("C17/goroutine-left/"+leakClass(leak[0]), fmt.Sprintf("layout %s, queries %v: 5 s after the last answer these goroutines of the query packages still exist: %v", j.Layout, j.Texts, leak))
	}
	_ = delIndex(w, 0, idx)
	return fs.Result(), nil
}

// queryResourcesLeft polls (up to 5 s) until the running table is empty and no goroutine of the query packages exists
// that the baseline did not have; returns what is still there at the end.
func queryResourcesLeft(w *kernel.Worker, base map[string]map[string]int) (int64, []string, error) {
	var leak []string
	active := int64(-1)
	for attempt := 0; attempt < 100; attempt++ {
		var st map[string]interface{}
		if err := w.Call("stats", nil, &st); err != nil {
			return 0, nil, err
		}
		active, _ = ObsInt(st["activeQueries"])
		var now map[string]map[string]int
		if err := w.Call("goroutines", nil, &now); err != nil {
			return 0, nil, err
		}
		leak = leak[:0]
		for sig, n := range now["sigs"] {
			if n <= base["sigs"][sig] {
				continue
			}
			for _, pkg := range []string{"pkg/segment/query.", "pkg/segment/query/processor.", "pkg/segment/search.", "pkg/ast/pipesearch.", "pkg/ast/pipesearch/multiplexer.", "pkg/segment.Execute"} {
				// the long-lived service loops of these packages (started once at boot; their stack varies between sleeping and working)
				longLived := false
				for _, l := range []string{"PullQueriesToRun", "Loop", "Forever", "Looper", "InitQueryNode", "initSyncSegMetaForAllIds"} {
					if strings.Contains(sig, l) {
						longLived = true
					}
				}
				if strings.Contains(sig, pkg) && !longLived {
					leak = append(leak, fmt.Sprintf("%d× %s", n-base["sigs"][sig], trunc(sig, 400)))
					break
				}
			}
		}
		if active == 0 && len(leak) == 0 {
			break
		}
		_ = w.Call("sleep", map[string]interface{}{"ms": 50}, nil)
	}
	sort.Strings(leak)
	return active, leak, nil
}

func leakClass(sig string) string {
	// innermost siglens frame of the leaked goroutine
	for _, f := range strings.Split(sig, "<") {
		if i := strings.Index(f, "github.com/siglens/siglens/"); i >= 0 {
			return strings.TrimSpace(f[i+len("github.com/siglens/siglens/"):])
		}
	}
	return "unknown"
}

func C17() int {
	rep := kernel.NewReport("C17", "exploration")
	depth := map[string]int{"Splunk QL": 3, "SQL": 3, "PromQL": 4, "ES": 3}
	if rep.Tier == "thorough" {
		depth = map[string]int{"Splunk QL": 4, "SQL": 4, "PromQL": 5, "ES": 4}
	}
	rep.Rule = "(a) the nesting family of Splunk QL, SQL and PromQL (every atom in 0..3 pairs of parentheses inside every context - function call, aggregation, binary operand, where/eval - and each such text again as the operand of every context) and every token string up to a length (Splunk QL/SQL/ES-DSL 3, PromQL 4; one more in thorough) over per-language alphabets (40/25/24/18 tokens incl. lone quote, backslash, NUL, 0xFF, unbalanced " +
		"JSON) through the real parsers, twice: must return a plan or an error, must not kill the process or hang, and the two plans must be deeply equal. (b) 346 Splunk-QL queries generated from 68 command " +
		"templates × fields {dense, sparse, absent, mixed-type, numeric-string} plus SQL queries, over a 4-event dataset in open and rotated layouts, one call each: the worker stays alive and answers " +
		"(results or error) within 120 s; afterwards the running-query count is 0 and no goroutine whose stack lies in the query packages remains (compared by stack signature with a baseline taken before). " +
		"(c) lifecycle under the controlled scheduler: the real query held at its k-th lock operation, for every k, while cancel / a 1 s timeout / a competing query under a running limit of 1 act, and with the timeout watcher goroutine held at each of its own lock operations while another query starts; each query ends " +
		"in exactly one way, the other query is answered correctly, the limit is never exceeded, a query cancelled while waiting never runs, tables and goroutines are clean afterwards. " +
		"non-trivial = (b) query answered with results; (c) schedule whose hold point was reached; (a) counts parsed_ok_<lang>"
	rep.Assume = []string{"a parser panic is recovered by the HTTP layer's Recovery middleware (the parser runs in the handler goroutine) and therefore counts as an error answer, not as a crash",
		"(c) preemption bound 1 at lock-operation granularity; the environment's actions run atomically while the query is held"}
	budget := kernel.NewBudget(map[string]time.Duration{"quick": 170 * time.Second, "thorough": 40 * time.Minute}[rep.Tier])
	pool := logPool()
	pool.RecycleEvery = 50
	dp := &Driver[c17ParseJob]{Rep: rep, Pool: pool, Budget: budget,
		Enumerate: func(emit func(c17ParseJob)) {
			for _, lang := range []string{"PromQL", "SQL", "ES", "Splunk QL"} {
				emit(c17ParseJob{Lang: lang, Prefix: nil, Depth: 0})
				if lang != "ES" {
					emit(c17ParseJob{Lang: lang, Nest: true})
				}
				for _, t := range c17Alphabet(lang) {
					emit(c17ParseJob{Lang: lang, Prefix: []string{t}, Depth: depth[lang]})
				}
			}
		},
		Run: c17ParseRun,
		Key: func(j *c17ParseJob) string {
			return fmt.Sprintf("%s|%s|%v", j.Lang, strings.Join(j.Prefix, " "), j.Nest)
		},
		Nontrivial: func(j *c17ParseJob) bool { return false },
	}
	if only := os.Getenv("VERIF_C17_ONLY"); only == "" || only == "a" {
		dp.Drive()
	}
	qpool := logPool()
	qpool.RecycleEvery = 1
	dq := &Driver[c17QJob]{Rep: rep, Pool: qpool, Budget: budget,
		Enumerate: func(emit func(c17QJob)) {
			qs := c17Queries()
			for _, lay := range []string{"open", "rotated"} {
				for i := 0; i < len(qs); i += 6 {
					e := i + 6
					if e > len(qs) {
						e = len(qs)
					}
					emit(c17QJob{Layout: lay, Lang: "Splunk QL", Texts: qs[i:e]})
				}
				emit(c17QJob{Layout: lay, Lang: "SQL", Texts: c17SQLQueries()})
				es := c17ESQueries()
				for i := 0; i < len(es); i += 10 {
					emit(c17QJob{Layout: lay, Lang: "ES", Texts: es[i : i+10]})
				}
			}
		},
		Run:        c17QRun,
		Key:        func(j *c17QJob) string { return j.Layout + "|" + j.Lang + "|" + strings.Join(j.Texts, ";") },
		Nontrivial: func(j *c17QJob) bool { return false },
	}
	if only := os.Getenv("VERIF_C17_ONLY"); only == "" || only == "b" {
		dq.Drive()
	}
	if os.Getenv("VERIF_C17_ONLY") == "" || os.Getenv("VERIF_C17_ONLY") == "c" {
		c17Lifecycle(rep, budget)
		c17Burst(rep, budget)
	}
	return rep.Finish()
}

func init() {
	Registry["C17"] = C17
}

func init() {
	Replayers["C17"] = func(doc json.RawMessage) int {
		var probe struct {
			Texts    []string `json:"texts"`
			Scenario string   `json:"scenario"`
			Burst    int      `json:"burst"`
		}
		_ = json.Unmarshal(doc, &probe)
		if probe.Scenario != "" {
			return MakeReplayer[c17cJob]("C17", "exploration", logPool, c17cRun)(doc)
		}
		if probe.Burst > 0 {
			return MakeReplayer[c17cBurstJob]("C17", "exploration", logPool, c17cBurstRun)(doc)
		}
		if len(probe.Texts) > 0 {
			return MakeReplayer[c17QJob]("C17", "exploration", logPool, c17QRun)(doc)
		}
		return MakeReplayer[c17ParseJob]("C17", "exploration", logPool, c17ParseRun)(doc)
	}
}
