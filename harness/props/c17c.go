package props

import (
	"fmt"
	"sort"
	"strings"
	"sync/atomic"
	"time"

	"verif/harness/kernel"
)

// C17 part (c) — query lifecycle under cancel / timeout / admission at every lock operation of the real query.
// Engine vsched (level B, the C11 machinery): the query under test runs through the real ParseAndExecutePipeRequest →
// RunQueryForNewPipeline → StartQueryAsCoordinator / PullQueriesToRun / ExecuteQueryInternalNewPipeline; its goroutine
// tree is held at its k-th lock operation for every k while the environment acts:
//   cancel    : CancelQuery for every qid the tables know (what the cancel API does), then another query Z
//   timeout   : the configured query timeout (1 s) expires while the query is held, then another query Z
//   admission : limit of running queries = 1; a second client starts query B (must wait), B is cancelled while waiting
// Afterwards: every query ended in exactly one way (complete and correct, error, cancelled, timed out), Z was answered
// correctly, the running table never exceeded the limit, both tables are empty and no goroutine of the query packages
// that was not there before remains.

type c17cJob struct {
	Scenario string `json:"scenario"` // cancel | timeout | admission
	Query    string `json:"query"`
	PauseAt  int64  `json:"pauseAt"`
	Aux      int64  `json:"aux,omitempty"` // timeout-watcher: lock operation of the watcher goroutine at which it is held
}

var c17cQueries = []string{"* | stats count", "*", "* | stats count by a", "a=1 | sort a | head 1"}
var c17cSeq int64

// c17cAnswer classifies the answer of a query over the two-event dataset: "complete" (correct), "cancelled" (nil
// response, which is what the handler returns for CANCELLED), "error", or "wrong: …".
func c17cAnswer(text string, r *QRes) string {
	if r == nil {
		return "wrong: no answer recorded"
	}
	if r.Err != "" {
		return "error"
	}
	if r.Nil {
		return "cancelled"
	}
	if len(r.Errors) > 0 {
		return "error"
	}
	switch {
	case strings.Contains(text, "stats count by a"):
		got := map[string]int64{}
		for _, b := range r.Measure {
			c, _ := ObsInt(b.M["count(*)"])
			got[strings.Join(b.G, "")] += c
		}
		if len(got) == 2 && got["1"] == 1 && got["2"] == 1 {
			return "complete"
		}
		return fmt.Sprintf("wrong: groups %v", got)
	case strings.Contains(text, "stats count"):
		if len(r.Measure) == 1 {
			if c, _ := ObsInt(r.Measure[0].M["count(*)"]); c == 2 {
				return "complete"
			}
		}
		return "wrong: " + jstr(r.Measure)
	case strings.HasPrefix(text, "a=1"):
		ids, _ := IDSet(r)
		if len(r.Records) == 1 && ids["e1"] {
			return "complete"
		}
		return "wrong: " + jstr(r.Records)
	default:
		ids, _ := IDSet(r)
		if len(r.Records) == 2 && ids["e1"] && ids["e2"] {
			return "complete"
		}
		return "wrong: " + jstr(r.Records)
	}
}

func c17cRun(w *kernel.Worker, j *c17cJob, rep *kernel.Report) (*Fail, error) {
	idx := fmt.Sprintf("c17c%d", atomic.AddInt64(&c17cSeq, 1))
	die := func(err error) (*Fail, error) {
		if d, ok := err.(*kernel.Died); ok {
			clause := "server-died"
			if d.Timeout {
				clause = "lifecycle-hang"
			}
			return &Fail{FP: "C17/" + clause + "/" + j.Scenario + "/" + d.Frame, What: fmt.Sprintf("schedule %s: %s\n%s", jstr(j), d.Exit, trunc(d.Stderr, 2000))}, nil
		}
		return nil, err
	}
	if err := ingestStep(w, 0, idx, []string{fmt.Sprintf(`{"timestamp":%d,"id":"e1","a":1}`, T0), fmt.Sprintf(`{"timestamp":%d,"id":"e2","a":2}`, T0+1)}); err != nil {
		return die(err)
	}
	if err := w.Call("flush", nil, nil); err != nil {
		return die(err)
	}
	var base map[string]map[string]int
	if err := w.Call("goroutines", nil, &base); err != nil {
		return die(err)
	}
	mk := func(text string) *Q { return &Q{Index: idx, Text: text, Start: T0 - 10, End: T0 + 1000, Size: 100} }
	zText := "* | stats count"
	args := map[string]interface{}{"pauseAt": j.PauseAt, "x": []schedStep{{Op: "query", Query: mk(j.Query)}}}
	switch j.Scenario {
	case "cancel":
		args["y"] = []schedStep{{Op: "cancelall"}, {Op: "query", Query: mk(zText)}}
		args["post"] = []schedStep{{Op: "sleep", Ms: 30}, {Op: "tables"}}
	case "timeout":
		args["pre"] = []schedStep{{Op: "timeoutsecs", Ms: 1}}
		args["y"] = []schedStep{{Op: "sleep", Ms: 1300}, {Op: "query", Query: mk(zText)}}
		args["post"] = []schedStep{{Op: "timeoutsecs", Ms: 300}, {Op: "sleep", Ms: 30}, {Op: "tables"}}
	case "timeout-watcher":
		// the query is held; its 1 s timeout fires; the watcher goroutine (started by the admission loop, so not part of
		// the query's goroutine tree) is held at its j-th lock operation while another client starts a query
		args["pre"] = []schedStep{{Op: "timeoutsecs", Ms: 1}}
		args["y"] = []schedStep{{Op: "bgquery", Query: mk(zText)}, {Op: "sleep", Ms: 150}, {Op: "tables"}}
		args["post"] = []schedStep{{Op: "bgwait", Ms: 8000}, {Op: "timeoutsecs", Ms: 300}, {Op: "sleep", Ms: 30}, {Op: "tables"}}
		args["auxCreator"] = "setupTimeoutCancelFunc"
		args["auxPauseAt"] = j.Aux
		args["auxWaitMs"] = 1500
	case "admission":
		args["pre"] = []schedStep{{Op: "maxrunning", Ms: 1}}
		args["y"] = []schedStep{{Op: "bgquery", Query: mk(zText)}, {Op: "sleep", Ms: 60}, {Op: "tables"}, {Op: "cancelwaiting"}, {Op: "sleep", Ms: 60}, {Op: "tables"}}
		args["post"] = []schedStep{{Op: "bgwait", Ms: 8000}, {Op: "maxrunning", Ms: 16}, {Op: "sleep", Ms: 30}, {Op: "tables"}}
	}
	var r schedRes
	if err := w.CallT("schedrun", args, &r, 90*time.Second); err != nil {
		return die(err)
	}
	rep.Eval(1)
	rep.Transition(int64(len(r.X) + len(r.Y) + len(r.Post)))
	rep.Add("c_lock_points_seen", r.Points)
	if r.YStalled {
		rep.Add("c_schedules_with_stalled_environment", 1)
	}
	where := "—"
	if r.Paused {
		where = r.PausedAt
		rep.Nontrivial(jstr(j))
	}
	site := where
	if i := strings.LastIndex(site, ":"); i > 0 {
		site = site[:i]
	}
	ctx := fmt.Sprintf("scenario %s, query %q held at its lock operation %d (%s)", j.Scenario, j.Query, j.PauseAt, where)
	fs := &Fails{}
	if j.Scenario == "timeout-watcher" {
		asite := r.AuxPausedAt
		if i := strings.LastIndex(asite, ":"); i > 0 {
			asite = asite[:i]
		}
		ctx += fmt.Sprintf(", timeout watcher held at its lock operation %d (%s)", j.Aux, r.AuxPausedAt)
		if r.AuxPaused {
			rep.Outcome("c/timeout-watcher/held@" + asite)
		}
		if r.XHung || r.YHung {
			w.Kill() // goroutines of this schedule are stuck: the instance is unfit for reuse
			who := "the timed-out query never returned"
			if r.YHung {
				who = "a query started by another client meanwhile was never answered"
				if r.XHung {
					who += ", nor did the timed-out query return"
				}
			}
			return &Fail{FP: "C17/lifecycle-hang/timeout-watcher/" + asite, What: ctx + ": " + who + " (25 s after everything was released)"}, nil
		}
	}
	if len(r.X) != 1 {
		return &Fail{FP: "C17/harness-c-shape", What: ctx + ": " + jstr(r)}, nil
	}
	xAns := c17cAnswer(j.Query, r.X[0].Query)
	rep.Outcome("c/" + j.Scenario + "/x=" + strings.SplitN(xAns, ":", 2)[0])
	if strings.HasPrefix(xAns, "wrong") {
		fs.Add("C17/lifecycle-wrong-answer/"+j.Scenario+"/"+site, ctx+": the held query returned neither its complete answer nor an error/cancellation: "+xAns)
	}
	if (j.Scenario == "timeout" || j.Scenario == "timeout-watcher") && xAns == "cancelled" {
		// nobody cancelled this query: the only thing that happened to it is that its time limit expired. It has to be
		// answered or rejected; a missing answer without an error is what a client-side cancellation looks like
		fs.Add("C17/timeout-ends-without-answer-or-error/"+j.Scenario, ctx+": the query's 1 s time limit expired and nobody cancelled it; the call returned no response and no error (the way a cancelled query ends), so the client gets neither an answer nor a rejection")
	}
	final := r.Post[len(r.Post)-1]
	switch j.Scenario {
	case "timeout-watcher":
		b := r.Post[0]
		bAns := "not answered within 8 s"
		if b.Err == "" {
			bAns = c17cAnswer(zText, b.Query)
		}
		if bAns != "complete" {
			fs.Add("C17/other-query-affected/timeout-watcher", ctx+": another client's query ("+zText+") was answered: "+bAns)
		}
	case "cancel", "timeout":
		z := r.Y[1]
		if a := c17cAnswer(zText, z.Query); a != "complete" {
			fs.Add("C17/other-query-affected/"+j.Scenario+"/"+site, ctx+fmt.Sprintf(": another query (%q) issued meanwhile was answered %s (%d ms)", zText, a, z.Ms))
		}
		if j.Scenario == "timeout" && r.Paused && !r.YBlocked && xAns == "complete" {
			// the query was held for 1.3 s with a 1 s timeout: completing afterwards is allowed only if the hold was
			// after the executor had produced the answer; the property asks for exactly one terminal state, which holds.
			rep.Add("c_timeout_fired_after_answer_was_ready", 1)
		}
	case "admission":
		t1, t2 := r.Y[2], r.Y[5]
		for _, t := range []schedStepRes{t1, t2, final} {
			if len(t.Running) > 1 {
				fs.Add("C17/admission-limit-exceeded/"+site, ctx+fmt.Sprintf(": with a limit of 1 running query the running table held %v (waiting %v)", t.Running, t.Waiting))
			}
		}
		b := r.Post[0]
		bAns := "not answered within 8 s after the held query was released"
		if b.Err == "" {
			bAns = c17cAnswer(zText, b.Query)
		}
		rep.Outcome("c/admission/b=" + strings.SplitN(bAns, ":", 2)[0])
		cancelledWhileWaiting := r.Paused && len(r.Y[3].Waiting) == 1
		if cancelledWhileWaiting {
			rep.Add("c_cancelled_while_waiting", 1)
			if bAns == "complete" {
				fs.Add("C17/cancel-of-waiting-query-ignored", ctx+fmt.Sprintf(": a second query was waiting for admission (waiting %v), CancelQuery was called for it, "+
					"and it still ran to completion and returned results after the first query finished (tables after the cancel: running %v waiting %v)", r.Y[3].Waiting, t2.Running, t2.Waiting))
			} else if bAns != "cancelled" && bAns != "error" {
				fs.Add("C17/waiting-query-lost/"+site, ctx+": the waiting query that was cancelled: "+bAns)
			}
		} else if bAns != "complete" && bAns != "cancelled" && bAns != "error" {
			fs.Add("C17/second-query-lost/"+site, ctx+": second query: "+bAns)
		}
	}
	if len(final.Running) > 0 || len(final.Waiting) > 0 {
		rep.Add("c_tables_nonempty_at_first_look", 1)
	}
	active, leak, err := queryResourcesLeft(w, base)
	if err != nil {
		return die(err)
	}
	if active != 0 {
		fs.Add("C17/running-table-not-empty/"+j.Scenario, ctx+fmt.Sprintf(": 5 s after every query was answered GetActiveQueryCount() = %d", active))
	}
	if len(leak) > 0 {
		fs.Add("C17/goroutine-left/"+j.Scenario+"/"+leakClass(leak[0]), ctx+fmt.Sprintf(": 5 s after every query was answered these goroutines of the query packages still exist: %v", leak))
	}
	_ = delIndex(w, 0, idx)
	return fs.Result(), nil
}

// c17Lifecycle enumerates the schedules of part (c) and drives them.
func c17Lifecycle(rep *kernel.Report, budget *kernel.Budget) {
	pool := logPool()
	pool.RecycleEvery = 100
	scen := []string{"cancel", "admission", "timeout"}
	queries := c17cQueries
	points := map[string]int64{}
	dw, err := pool.BootWorker()
	if err != nil {
		rep.HarnessError(err.Error())
		return
	}
	for _, q := range queries {
		j := c17cJob{Scenario: "cancel", Query: q, PauseAt: 0}
		// dry run: number of lock operations of this query (pauseAt 0 never pauses)
		idx := fmt.Sprintf("c17cd%d", atomic.AddInt64(&c17cSeq, 1))
		_ = ingestStep(dw, 0, idx, []string{fmt.Sprintf(`{"timestamp":%d,"id":"e1","a":1}`, T0), fmt.Sprintf(`{"timestamp":%d,"id":"e2","a":2}`, T0+1)})
		_ = dw.Call("flush", nil, nil)
		var r schedRes
		qq := Q{Index: idx, Text: q, Start: T0 - 10, End: T0 + 1000, Size: 100}
		if err := dw.Call("schedrun", map[string]interface{}{"x": []schedStep{{Op: "query", Query: &qq}}, "y": []schedStep{}, "pauseAt": 0}, &r); err != nil {
			rep.HarnessError("C17c dry run: " + err.Error())
			dw.Close()
			return
		}
		points[q] = r.Points
		if q == queries[0] {
			rep.Sample(map[string]interface{}{"query": q, "lock_operations_of_the_query": r.Labels})
		}
		_ = j
	}
	dw.Close()
	rep.Set("c_lock_operations_per_query", points)
	// lock operations of the timeout watcher goroutine (measured: query held at its 5th-last lock operation until the timeout fires)
	auxPoints := int64(0)
	{
		aw, err := pool.BootWorker()
		if err == nil {
			idx := fmt.Sprintf("c17cd%d", atomic.AddInt64(&c17cSeq, 1))
			_ = ingestStep(aw, 0, idx, []string{fmt.Sprintf(`{"timestamp":%d,"id":"e1","a":1}`, T0), fmt.Sprintf(`{"timestamp":%d,"id":"e2","a":2}`, T0+1)})
			_ = aw.Call("flush", nil, nil)
			var r schedRes
			qq := Q{Index: idx, Text: queries[0], Start: T0 - 10, End: T0 + 1000, Size: 100}
			k := points[queries[0]] - 5
			if k < 1 {
				k = 1
			}
			_ = aw.CallT("schedrun", map[string]interface{}{"pre": []schedStep{{Op: "timeoutsecs", Ms: 1}}, "x": []schedStep{{Op: "query", Query: &qq}}, "y": []schedStep{{Op: "sleep", Ms: 300}},
				"post": []schedStep{{Op: "timeoutsecs", Ms: 300}}, "pauseAt": k, "auxCreator": "setupTimeoutCancelFunc", "auxPauseAt": 0, "auxWaitMs": 1500}, &r, 60*time.Second)
			auxPoints = r.AuxPoints
			rep.Sample(map[string]interface{}{"lock_operations_of_the_timeout_watcher": r.AuxLabels})
			aw.Close()
		}
	}
	rep.Set("c_lock_operations_of_timeout_watcher", auxPoints)
	d := &Driver[c17cJob]{Rep: rep, Pool: pool, Budget: budget,
		Enumerate: func(emit func(c17cJob)) {
			stride := int64(2)
			if rep.Tier == "thorough" {
				stride = 1
			}
			for k := int64(1); k <= points[queries[0]]; k += stride {
				for a := int64(1); a <= auxPoints; a++ {
					emit(c17cJob{Scenario: "timeout-watcher", Query: queries[0], PauseAt: k, Aux: a})
				}
			}
			for _, s := range scen {
				qs := queries
				if s == "timeout" && rep.Tier != "thorough" {
					qs = queries[:1] // 1.3 s per schedule
				}
				for _, q := range qs {
					for k := int64(1); k <= points[q]+1; k++ {
						emit(c17cJob{Scenario: s, Query: q, PauseAt: k})
					}
				}
			}
		},
		Run:        c17cRun,
		Key:        func(j *c17cJob) string { return "c|" + jstr(j) },
		Nontrivial: func(j *c17cJob) bool { return false },
	}
	d.Drive()
	ks := make([]string, 0, len(points))
	for k := range points {
		ks = append(ks, k)
	}
	sort.Strings(ks)
}

// ---- admission under a burst -------------------------------------------------------------------------------------
// K clients start a query at once with a limit of L running queries; every executor goroutine is held at its first lock
// operation, so admitted queries stay in the running table. The tables are read while they are held: never more than L
// running, the rest waiting, nobody lost. Then the executors are released and every query must be answered.

type c17cBurstJob struct {
	Limit int `json:"limit"`
	Burst int `json:"burst"`
}

func c17cBurstRun(w *kernel.Worker, j *c17cBurstJob, rep *kernel.Report) (*Fail, error) {
	idx := fmt.Sprintf("c17cb%d", atomic.AddInt64(&c17cSeq, 1))
	die := func(err error) (*Fail, error) {
		if d, ok := err.(*kernel.Died); ok {
			clause := "server-died"
			if d.Timeout {
				clause = "lifecycle-hang"
			}
			return &Fail{FP: "C17/" + clause + "/burst/" + d.Frame, What: fmt.Sprintf("burst %s: %s\n%s", jstr(j), d.Exit, trunc(d.Stderr, 2000))}, nil
		}
		return nil, err
	}
	if err := ingestStep(w, 0, idx, []string{fmt.Sprintf(`{"timestamp":%d,"id":"e1","a":1}`, T0), fmt.Sprintf(`{"timestamp":%d,"id":"e2","a":2}`, T0+1)}); err != nil {
		return die(err)
	}
	if err := w.Call("flush", nil, nil); err != nil {
		return die(err)
	}
	var base map[string]map[string]int
	if err := w.Call("goroutines", nil, &base); err != nil {
		return die(err)
	}
	zText := "* | stats count"
	q := &Q{Index: idx, Text: zText, Start: T0 - 10, End: T0 + 1000, Size: 100}
	var x, post []schedStep
	for i := 0; i < j.Burst; i++ {
		x = append(x, schedStep{Op: "bgquery", Query: q})
		post = append(post, schedStep{Op: "bgwait", Ms: 8000})
	}
	x = append(x, schedStep{Op: "sleep", Ms: 250}, schedStep{Op: "tables"})
	post = append(post, schedStep{Op: "maxrunning", Ms: 16}, schedStep{Op: "sleep", Ms: 30}, schedStep{Op: "tables"})
	var r schedRes
	if err := w.CallT("schedrun", map[string]interface{}{"pre": []schedStep{{Op: "maxrunning", Ms: j.Limit}}, "x": x, "y": []schedStep{}, "post": post, "pauseAt": 0,
		"auxCreator": "RunQueryForNewPipeline", "auxHoldAll": true}, &r, 120*time.Second); err != nil {
		return die(err)
	}
	rep.Eval(1)
	rep.Transition(int64(len(x) + len(post)))
	ctx := fmt.Sprintf("%d clients start a query at once, limit of running queries %d, executors held", j.Burst, j.Limit)
	fs := &Fails{}
	if len(r.X) != len(x) || len(r.Post) != len(post) {
		return &Fail{FP: "C17/harness-burst-shape", What: ctx + ": " + jstr(r)}, nil
	}
	t := r.X[len(x)-1]
	if len(t.Running) > j.Limit {
		fs.Add("C17/admission-limit-exceeded/burst", ctx+fmt.Sprintf(": the running table holds %d queries %v (waiting %v)", len(t.Running), t.Running, t.Waiting))
	}
	if len(t.Running)+len(t.Waiting) != j.Burst {
		fs.Add("C17/burst-query-unaccounted", ctx+fmt.Sprintf(": running %v + waiting %v do not add up to the %d queries started", t.Running, t.Waiting, j.Burst))
	}
	want := j.Limit
	if j.Burst < want {
		want = j.Burst
	}
	if len(t.Running) < want {
		rep.Add("c_burst_slots_unused_at_snapshot", 1)
	}
	for i := 0; i < j.Burst; i++ {
		b := r.Post[i]
		ans := "not answered within 8 s after the executors were released"
		if b.Err == "" {
			ans = c17cAnswer(zText, b.Query)
		}
		rep.Outcome("c/burst/answer=" + strings.SplitN(ans, ":", 2)[0])
		if ans != "complete" {
			fs.Add("C17/burst-query-not-answered", ctx+fmt.Sprintf(": query %d of the burst: %s", i+1, ans))
		}
	}
	active, leak, err := queryResourcesLeft(w, base)
	if err != nil {
		return die(err)
	}
	if active != 0 {
		fs.Add("C17/running-table-not-empty/burst", ctx+fmt.Sprintf(": 5 s after every query was answered GetActiveQueryCount() = %d", active))
	}
	if len(leak) > 0 {
		fs.Add("C17/goroutine-left/burst/"+leakClass(leak[0]), ctx+fmt.Sprintf(": 5 s after every query was answered these goroutines of the query packages still exist: %v", leak))
	}
	_ = delIndex(w, 0, idx)
	return fs.Result(), nil
}

func c17Burst(rep *kernel.Report, budget *kernel.Budget) {
	pool := logPool()
	pool.RecycleEvery = 50
	d := &Driver[c17cBurstJob]{Rep: rep, Pool: pool, Budget: budget,
		Enumerate: func(emit func(c17cBurstJob)) {
			maxBurst := 4
			if rep.Tier == "thorough" {
				maxBurst = 8
			}
			for l := 1; l <= 3; l++ {
				for k := 1; k <= maxBurst; k++ {
					emit(c17cBurstJob{Limit: l, Burst: k})
				}
			}
		},
		Run:        c17cBurstRun,
		Key:        func(j *c17cBurstJob) string { return "burst|" + jstr(j) },
		Nontrivial: func(j *c17cBurstJob) bool { return j.Burst > j.Limit },
	}
	d.Drive()
}
