package props

import (
	"encoding/hex"
	"encoding/json"
	"fmt"
	"os"
	"path/filepath"
	"sort"
	"strings"
	"time"

	"verif/harness/kernel"
)

// C18 — damaged segment files are detected, never served as data. mutfs: every truncation length and every
// single-byte modification of every file of a small rotated log segment (a second, undamaged segment shares the
// index); each damaged copy is opened by a fresh process and a fixed query set is run.

type c18Job struct {
	File  string `json:"file"` // path relative to data/
	Mode  string `json:"mode"` // truncate | mutate
	Pos   int    `json:"pos"`
	Value int    `json:"value"`
	// Orig: the undamaged file's bytes (hex), recorded with a violation: block summaries list the columns in map order,
	// so a rebuilt base segment may lay the same information out differently; the replay installs these bytes first
	Orig string `json:"orig,omitempty"`
}

type c18Base struct {
	fs      *kernel.MemFS
	seg1    []string // files of the damaged segment
	events  map[string]*MEvent
	seg1IDs map[string]bool
	seg2IDs map[string]bool
}

var c18Queries = []string{"*", "d=x", "d=y", "n>1", "m=foo", "* | stats count, sum(n) by d", "* | sort n | fields id, n"}

func c18Build(rep *kernel.Report) (*c18Base, error) {
	w, err := kernel.Spawn(kernel.SpawnOpts{KeepDir: true})
	if err != nil {
		return nil, err
	}
	dir := w.Dir
	defer os.RemoveAll(dir)
	defer w.Close()
	off := false
	if err := w.Call("boot", map[string]interface{}{"dir": dir, "relPaths": true, "pqs": &off}, nil); err != nil {
		return nil, fmt.Errorf("boot: %v", err)
	}
	b := &c18Base{events: map[string]*MEvent{}, seg1IDs: map[string]bool{}, seg2IDs: map[string]bool{}}
	// the two blocks of the damaged segment hold the same number of records with different values at the same
	// positions, so that a reader serving one block's buffers for the other produces rows that do not satisfy the filters
	evs := []string{
		c01Event(0, T0, `"d":"x","n":1,"m":"foo bar"`),
		c01Event(1, T0+1, `"d":"y","n":2,"m":"foo"`),
		c01Event(2, T0+2, `"d":"z","n":3.5,"m":"baz"`),
		c01Event(3, T0+3, `"d":"w","n":0.5,"m":"qux"`),
		c01Event(4, T0+4, `"d":"x","n":4,"m":"foo"`),
		c01Event(5, T0+5, `"d":"z","n":5,"m":"qux"`),
	}
	for i, e := range evs {
		m, err := Flatten(e, "timestamp")
		if err != nil {
			return nil, err
		}
		id := fmt.Sprintf("e%d", i)
		b.events[id] = m
		if i < 4 {
			b.seg1IDs[id] = true
		} else {
			b.seg2IDs[id] = true
		}
	}
	steps := []struct {
		ev []string
		op string
	}{{evs[0:2], "flush"}, {evs[2:4], "rotate"}, {evs[4:6], "rotate"}}
	for _, st := range steps {
		if err := ingestStep(w, 0, "c18", st.ev); err != nil {
			return nil, err
		}
		if err := w.Call(st.op, nil, nil); err != nil {
			return nil, err
		}
	}
	w.Kill()
	b.fs = kernel.NewMemFS()
	root := filepath.Join(dir, "data")
	_ = filepath.Walk(root, func(p string, info os.FileInfo, err error) error {
		if err != nil {
			return nil
		}
		rel, _ := filepath.Rel(root, p)
		if rel == "." {
			return nil
		}
		if info.IsDir() {
			b.fs.Dirs[rel] = true
			return nil
		}
		c, rerr := os.ReadFile(p)
		if rerr == nil {
			b.fs.Files[rel] = c
		}
		return nil
	})
	// segment directories of index c18: .../final/c18/<stream>/<suffix>/ — the lower suffix is the first segment
	sufs := map[string]bool{}
	for p := range b.fs.Files {
		parts := strings.Split(p, "/")
		for i, x := range parts {
			if x == "c18" && i+2 < len(parts) && i > 0 && parts[i-1] == "final" {
				sufs[parts[i+2]] = true
			}
		}
	}
	ss := sortedKeys(sufs)
	if len(ss) != 2 {
		return nil, fmt.Errorf("expected 2 segment directories, found %v", ss)
	}
	for p := range b.fs.Files {
		if strings.Contains(p, "/final/c18/") && strings.Contains(p, "/"+ss[0]+"/") {
			b.seg1 = append(b.seg1, p)
		}
	}
	sort.Strings(b.seg1)
	// segmeta.json lists both segments (one line each) and is therefore not "a file of one segment": not damaged here
	return b, nil
}

func c18Checksummed(file string) bool { return strings.HasSuffix(file, ".csg") }

func (b *c18Base) run(j *c18Job, rep *kernel.Report) (*Fail, error) {
	dir := kernel.NewScratchDir("c18")
	defer os.RemoveAll(dir)
	orig := b.fs.Files[j.File]
	if j.Orig != "" {
		if o, err := hex.DecodeString(j.Orig); err == nil {
			orig = o
		}
	}
	mut := append([]byte{}, orig...)
	if j.Mode == "truncate" {
		mut = mut[:j.Pos]
	} else if j.Mode == "mutate" {
		mut[j.Pos] = byte(j.Value)
	}
	fs := kernel.NewMemFS()
	for p, c := range b.fs.Files {
		fs.Files[p] = c
	}
	for d := range b.fs.Dirs {
		fs.Dirs[d] = true
	}
	fs.Files[j.File] = mut
	if err := fs.Materialize(filepath.Join(dir, "data")); err != nil {
		return nil, err
	}
	kind := fileKind(j.File)
	cls := kind + "/" + j.Mode
	ctx := fmt.Sprintf("%s of %s at byte %d", j.Mode, j.File, j.Pos)
	if j.Mode == "mutate" {
		ctx += fmt.Sprintf(" (%#02x→%#02x)", orig[j.Pos], j.Value)
	}
	w, err := kernel.Spawn(kernel.SpawnOpts{Dir: dir, MemKB: 3 << 20})
	if err != nil {
		return nil, err
	}
	defer w.Close()
	off := false
	if err := w.CallT("boot", map[string]interface{}{"dir": dir, "relPaths": true, "recoverBoot": true, "pqs": &off}, nil, 60*time.Second); err != nil {
		if d, ok := err.(*kernel.Died); ok {
			if d.Timeout {
				return &Fail{FP: "C18/startup-hang/" + cls, What: ctx + ": start-up gave no answer within 60 s"}, nil
			}
			return &Fail{FP: "C18/startup-crash/" + cls + "/" + d.Frame, What: ctx + ": " + d.Exit + "\n" + trunc(d.Stderr, 1500)}, nil
		}
		return &Fail{FP: "C18/startup-failed/" + cls, What: ctx + ": " + err.Error()}, nil
	}
	// released pool buffers are poisoned and kept out of circulation; a write into one is reported after the queries
	if err := w.Call("poolquarantine", nil, nil); err != nil {
		return nil, err
	}
	var qs []Q
	for _, t := range c18Queries {
		qs = append(qs, Q{Index: "c18", Text: t, Start: T0 - 10, End: T0 + 1000, Size: 100})
	}
	var rs []*QRes
	if err := w.CallT("queries", qs, &rs, 60*time.Second); err != nil {
		if d, ok := err.(*kernel.Died); ok {
			if d.Timeout {
				return &Fail{FP: "C18/query-hang/" + cls, What: ctx + ": queries gave no answer within 60 s"}, nil
			}
			return &Fail{FP: "C18/query-crash/" + cls + "/" + d.Frame, What: ctx + ": " + d.Exit + "\n" + trunc(d.Stderr, 1500)}, nil
		}
		return nil, err
	}
	rep.Eval(int64(len(qs)))
	var silent *Fail
	var pc struct {
		Violations []string `json:"violations"`
		Released   int      `json:"released"`
	}
	if err := w.Call("poolcheck", nil, &pc); err != nil {
		return nil, err
	}
	rep.Add("pool_buffers_released_and_checked", int64(pc.Released))
	if len(pc.Violations) > 0 {
		return &Fail{FP: "C18/released-buffer-still-used/" + cls, What: fmt.Sprintf("%s: after the queries %s (a buffer given back to the shared pool belongs to whichever reader takes it next: the damaged segment's reader writes into other readers' data)", ctx, strings.Join(pc.Violations, " | "))}, nil
	}
	altered := false
	for qi, r := range rs {
		q := c18Queries[qi]
		if strings.Contains(q, "stats") {
			continue // aggregates may come from unchecksummed side files; covered by the no-crash clause
		}
		wantIDs := map[string]bool{}
		for id, m := range b.events {
			ok := true
			switch q {
			case "d=x":
				ok = m.Cols["d"][0].S == "x"
			case "d=y":
				ok = m.Cols["d"][0].S == "y"
			case "n>1":
				ok = m.Cols["n"][0].Float() > 1
			case "m=foo":
				ok = m.Cols["m"][0].S == "foo"
			}
			if ok {
				wantIDs[id] = true
			}
		}
		got := map[string]map[string]interface{}{}
		for _, rec := range r.Records {
			id, _ := rec["id"].(string)
			if id == "" {
				// the id column itself may be the unreadable one: identify the row by its (unique) timestamp
				if ts, ok := ObsInt(rec["timestamp"]); ok {
					for eid, m := range b.events {
						if m.TS == ts {
							id = eid
						}
					}
				}
			}
			got[id] = rec
		}
		// damage in one segment must not affect the other
		for id := range wantIDs {
			if b.seg2IDs[id] {
				rec, ok := got[id]
				if !ok {
					return &Fail{FP: "C18/undamaged-segment-affected/" + cls, What: fmt.Sprintf("%s: query %q no longer returns %s of the undamaged segment (err=%q errors=%v)", ctx, q, id, r.Err, r.Errors)}, nil
				}
				if q != "* | sort n | fields id, n" {
					if what := c18RecordDiff(b.events[id], rec); what != "" {
						return &Fail{FP: "C18/undamaged-segment-affected/" + cls, What: fmt.Sprintf("%s: query %q returns %s of the undamaged segment altered: %s", ctx, q, id, what)}, nil
					}
				}
			}
		}
		// a row of the damaged segment that the query should return may only be missing if the answer reports an error
		if c18Checksummed(j.File) && r.Err == "" && len(r.Errors) == 0 {
			for id := range wantIDs {
				if b.seg1IDs[id] {
					if _, ok := got[id]; !ok && silent == nil {
						// remembered, not returned: the other clauses of this damage state are still evaluated and take precedence
						silent = &Fail{FP: "C18/damaged-column-block-drops-rows-without-an-error-in-the-answer", What: fmt.Sprintf("%s: query %q does not return %s of the damaged segment and reports no error", ctx, q, id)}
					}
				}
			}
		}
		// rows attributed to the damaged segment: original values or absent — never altered values from a checksummed block
		for id, rec := range got {
			m, known := b.events[id]
			if !known {
				if c18Checksummed(j.File) {
					return &Fail{FP: "C18/altered-values-served/" + cls, What: fmt.Sprintf("%s: query %q returned a row that was never ingested: %s", ctx, q, jstr(rec))}, nil
				}
				altered = true
				continue
			}
			if !b.seg1IDs[id] || q == "* | sort n | fields id, n" {
				continue
			}
			if what := c18RecordDiff(m, rec); what != "" {
				if c18Checksummed(j.File) {
					return &Fail{FP: "C18/altered-values-served/" + cls, What: fmt.Sprintf("%s: query %q returned %s with altered content from a checksummed column file: %s", ctx, q, id, what)}, nil
				}
				altered = true
			}
			if !wantIDs[id] && c18Checksummed(j.File) {
				return &Fail{FP: "C18/altered-values-served/" + cls, What: fmt.Sprintf("%s: query %q returned %s which does not satisfy the filter on its original values", ctx, q, id)}, nil
			}
		}
	}
	if altered {
		rep.Add("altered_from_unchecksummed_side_files", 1)
	}
	if silent != nil {
		return silent, nil
	}
	return nil, nil
}

// c18RecordDiff compares a returned record with the ingested event (columns present in the record only: a column
// that could not be read may be missing).
func c18RecordDiff(m *MEvent, rec map[string]interface{}) string {
	for c, obs := range rec {
		if c == "timestamp" {
			if ts, ok := ObsInt(obs); !ok || ts != m.TS {
				return fmt.Sprintf("timestamp %v, ingested %d", obs, m.TS)
			}
			continue
		}
		if obs == nil || c == "_index" {
			continue
		}
		if s, ok := obs.(string); ok && s == "" {
			continue
		}
		vs, has := m.Cols[c]
		if !has {
			return fmt.Sprintf("column %q=%s was never ingested", c, jstr(obs))
		}
		if !MatchObserved(vs[0], obs, false) && !matchByText(vs[0], obs) {
			return fmt.Sprintf("column %q: got %s, ingested %v", c, jstr(obs), vs[0])
		}
	}
	return ""
}

func C18() int {
	rep := kernel.NewReport("C18", "fault_enumeration")
	rep.Rule = "a rotated log segment (4 events in 2 blocks of 2 with different values at equal positions, dictionary and plain columns, numeric column with range index, block summaries, segment statistics, rollups, full-meta) next to a " +
		"second undamaged segment of the same index and the shared segmeta.json; every truncation length and every single-byte modification (quick: b^0xff; thorough: b^1, b^0x80, b^0xff, 0) of every " +
		"file is installed in a copy that a fresh process opens; 7 queries (match-all, two dictionary filters, numeric, text filter, grouped stats, sort). Oracle: no crash, no hang (60 s), rows of the undamaged " +
		"segment complete and unchanged, and for checksummed column files (.csg) rows of the damaged segment carry their original values or are absent. non-trivial = every case (each damages a file the start-up or a query reads)"
	rep.Assume = []string{"changed answers caused by damage in unchecksummed side files are counted (altered_from_unchecksummed_side_files), not reported — the statement limits 'never altered' to checksummed column blocks",
		"metrics segment files and decoder-level byte strings are not yet covered by this check"}
	budget := kernel.NewBudget(map[string]time.Duration{"quick": 170 * time.Second, "thorough": 60 * time.Minute}[rep.Tier])
	base, err := c18Build(rep)
	if err != nil {
		rep.HarnessError("building the base segment: " + err.Error())
		return rep.Finish()
	}
	total := 0
	sizes := map[string]int{}
	for _, f := range base.seg1 {
		sizes[f] = len(base.fs.Files[f])
		total += len(base.fs.Files[f])
	}
	rep.Bounds["files"] = len(base.seg1)
	rep.Bounds["bytes"] = total
	// sanity: the undamaged copy answers completely
	if f, err := base.run(&c18Job{File: base.seg1[0], Mode: "none"}, rep); err != nil || f != nil {
		rep.HarnessError(fmt.Sprintf("undamaged base does not satisfy the oracle: %v %v", f, err))
		return rep.Finish()
	}
	jobs := make(chan c18Job, 1024)
	go func() {
		for _, f := range base.seg1 {
			n := len(base.fs.Files[f])
			// large generated side files are sampled on a stride in quick (stated in bounds); every byte in thorough
			stride := 1
			if rep.Tier != "thorough" && n > 300 {
				stride = n/150 + 1
				rep.Cap(fmt.Sprintf("quick: file %s (%d bytes) visited with stride %d", f, n, stride))
			}
			for p := 0; p < n; p += stride {
				jobs <- c18Job{File: f, Mode: "truncate", Pos: p}
				vals := []int{int(base.fs.Files[f][p]) ^ 0xff}
				if rep.Tier == "thorough" {
					o := int(base.fs.Files[f][p])
					vals = []int{o ^ 1, o ^ 0x80, o ^ 0xff}
					if o != 0 {
						vals = append(vals, 0)
					}
				}
				for _, v := range vals {
					jobs <- c18Job{File: f, Mode: "mutate", Pos: p, Value: v}
				}
			}
		}
		close(jobs)
	}()
	nw := kernel.NumWorkers() / 2 // damaged length fields make some runs allocate up to the address-space limit
	done := make(chan bool)
	for i := 0; i < nw; i++ {
		go func() {
			for j := range jobs {
				if budget.Exceeded() {
					continue
				}
				f, err := base.run(&j, rep)
				if err != nil {
					rep.HarnessError(err.Error())
					continue
				}
				key := fmt.Sprintf("%s|%s|%d|%d", j.File, j.Mode, j.Pos, j.Value)
				rep.State(key)
				rep.Nontrivial(key)
				rep.Trace(1)
				if f == nil {
					rep.Outcome("ok")
					continue
				}
				rep.Outcome(f.FP)
				if rep.SeenViolation(f.FP) {
					continue
				}
				ok := true
				for k := 0; k < 2; k++ {
					f2, err := base.run(&j, rep)
					if err != nil || f2 == nil || f2.FP != f.FP {
						ok = false
					}
				}
				if !ok {
					rep.Unreproduced(f.FP + ": " + trunc(f.What, 300))
					continue
				}
				j.Orig = hex.EncodeToString(base.fs.Files[j.File])
				rep.Violation(f.FP, f.What, j)
			}
			done <- true
		}()
	}
	for i := 0; i < nw; i++ {
		<-done
	}
	if budget.Hit() {
		rep.Cap("time budget hit")
	}
	rep.Sample(map[string]interface{}{"files": sizes})
	return rep.Finish()
}

func init() {
	Registry["C18"] = C18
	Replayers["C18"] = func(doc json.RawMessage) int {
		var j c18Job
		if err := json.Unmarshal(doc, &j); err != nil {
			fmt.Println("HARNESS-ERROR", err)
			return 2
		}
		rep := kernel.NewReport("C18", "fault_enumeration")
		base, err := c18Build(rep)
		if err != nil {
			fmt.Println("HARNESS-ERROR building the base segment:", err)
			return 2
		}
		if _, ok := base.fs.Files[j.File]; !ok {
			fmt.Println("HARNESS-ERROR the base segment has no file", j.File)
			return 2
		}
		f, err := base.run(&j, rep)
		if err != nil {
			fmt.Println("HARNESS-ERROR", err)
			return 2
		}
		if f == nil {
			fmt.Println("replay: property held")
			return 0
		}
		fmt.Printf("replay: %s\n  %s\n", f.FP, f.What)
		return 1
	}
}
