package props

import (
	"bytes"
	"encoding/json"
	"fmt"
	"mime/multipart"
	"net/url"
	"strings"
	"time"

	collogpb "go.opentelemetry.io/proto/otlp/collector/logs/v1"
	commonpb "go.opentelemetry.io/proto/otlp/common/v1"
	logpb "go.opentelemetry.io/proto/otlp/logs/v1"
	respb "go.opentelemetry.io/proto/otlp/resource/v1"
	"google.golang.org/protobuf/proto"

	"verif/harness/kernel"
)

// C19 — user-supplied names cannot reach files outside the data directory. seqx: all names of ≤ n atoms over a
// path-metacharacter alphabet × every API operation that derives a file path from request data, through the real
// routers of the booted server. Oracle: a snapshot of everything outside data/ and logs/ is unchanged and no response
// carries the content of a sentinel file.

const c19Secret = "SENTINEL-7f3a9c-do-not-serve"

type c19Job struct {
	Names []string `json:"names"`
	// KeepState: the removing operations (delete/remove) are left out, so that what the adding operations put into
	// the server's memory is still there when the graceful shutdown flushes it
	KeepState bool `json:"keepState,omitempty"`
}

func c19Atoms() []string {
	return []string{"a", "..", ".", "/", "\\", "%2e%2e", "%2f", "../", "x.csv", "outside", "~", "victim"}
}

func c19Names(tier string) []string {
	atoms := c19Atoms()
	depth := 2
	if tier == "thorough" {
		depth = 3
	}
	seen := map[string]bool{}
	var out []string
	add := func(s string) {
		if !seen[s] && s != "" {
			seen[s] = true
			out = append(out, s)
		}
	}
	var rec func(cur string, d int)
	rec = func(cur string, d int) {
		add(cur)
		if d == depth {
			return
		}
		for _, a := range atoms {
			rec(cur+a, d+1)
		}
	}
	rec("", 0)
	// targeted: every depth of escape towards the sentinel directory, with and without the suffixes operations append
	for up := 1; up <= 6; up++ {
		pre := strings.Repeat("../", up)
		for _, t := range []string{"outside/secret.csv", "outside/victim.csv", "outside/victim", "outside/new.csv", "outside/secret", "outside/new"} {
			add(pre + t)
		}
		add(strings.Repeat("..%2F", up) + "outside%2Fsecret.csv")
		add(strings.Repeat("..\\", up) + "outside\\secret.csv")
	}
	add("/etc/hostname")
	add("@ABS@/outside/secret.csv") // replaced by the absolute path of the sentinel at run time
	add("@ABS@/outside/victim.csv")
	add("@ABS@/outside/new.csv")
	add(strings.Repeat("a", 300))
	add(strings.Repeat("../", 40) + "x.csv")
	return out
}

type c19Op struct {
	Name string
	Do   func(w *kernel.Worker, name string) (body string, err error)
}

func jq(s string) string { b, _ := json.Marshal(s); return string(b) }

func c19Ops() []c19Op {
	call := func(w *kernel.Worker, server, method, path, body string, hdr map[string]string) (string, error) {
		r, err := httpCall(w, server, method, path, body, hdr)
		if err != nil {
			return "", err
		}
		return r.Body, nil
	}
	js := map[string]string{"Content-Type": "application/json"}
	seg := func(name string) string { return strings.ReplaceAll(url.PathEscape(name), "%25", "%") } // keep client-side %xx as typed
	rawSeg := func(name string) string {
		// a client can put any bytes except '/', '?', '#', space and controls into one path segment
		r := strings.NewReplacer("/", "%2F", "?", "%3F", "#", "%23", " ", "%20")
		return r.Replace(name)
	}
	_ = seg
	return []c19Op{
		{"lookup-upload", func(w *kernel.Worker, name string) (string, error) {
			var buf bytes.Buffer
			mw := multipart.NewWriter(&buf)
			_ = mw.WriteField("name", name)
			_ = mw.WriteField("overwrite", "true")
			fw, _ := mw.CreateFormFile("file", "upload.csv")
			_, _ = fw.Write([]byte("k,v\nOVERWRITTEN,1\n"))
			_ = mw.Close()
			return call(w, "query", "POST", "/api/lookup-upload", buf.String(), map[string]string{"Content-Type": mw.FormDataContentType()})
		}},
		{"lookup-get", func(w *kernel.Worker, name string) (string, error) {
			return call(w, "query", "GET", "/api/lookup-files/"+rawSeg(name), "", nil)
		}},
		{"lookup-delete", func(w *kernel.Worker, name string) (string, error) {
			return call(w, "query", "DELETE", "/api/lookup-files/"+rawSeg(name), "", nil)
		}},
		{"inputlookup", func(w *kernel.Worker, name string) (string, error) {
			body := fmt.Sprintf(`{"searchText":%s,"indexName":"*","startEpoch":"now-1h","endEpoch":"now","queryLanguage":"Splunk QL"}`, jq("| inputlookup "+name))
			return call(w, "query", "POST", "/api/search", body, js)
		}},
		{"bulk-index-name", func(w *kernel.Worker, name string) (string, error) {
			body := `{"index":{"_index":` + jq(name) + `}}` + "\n" + fmt.Sprintf(`{"timestamp":%d,"f":1}`, time.Now().UnixMilli()) + "\n"
			b, err := call(w, "ingest", "POST", "/elastic/_bulk", body, js)
			if err != nil {
				return b, err
			}
			if err := w.Call("rotate", nil, nil); err != nil {
				return b, err
			}
			return b, nil
		}},
		{"put-index", func(w *kernel.Worker, name string) (string, error) {
			return call(w, "ingest", "PUT", "/elastic/"+rawSeg(name), `{"mappings":{}}`, js)
		}},
		{"delete-index", func(w *kernel.Worker, name string) (string, error) {
			return call(w, "query", "DELETE", "/elastic/"+rawSeg(name), "", nil)
		}},
		{"search-index-name", func(w *kernel.Worker, name string) (string, error) {
			body := fmt.Sprintf(`{"searchText":"*","indexName":%s,"startEpoch":"now-1h","endEpoch":"now","queryLanguage":"Splunk QL"}`, jq(name))
			return call(w, "query", "POST", "/api/search", body, js)
		}},
		{"alias-add", func(w *kernel.Worker, name string) (string, error) {
			body := fmt.Sprintf(`{"actions":[{"add":{"index":"c19base","alias":%s}}]}`, jq(name))
			return call(w, "query", "POST", "/elastic/_aliases", body, js)
		}},
		{"alias-of-named-index", func(w *kernel.Worker, name string) (string, error) {
			body := fmt.Sprintf(`{"actions":[{"add":{"index":%s,"alias":"c19al"}}]}`, jq(name))
			return call(w, "query", "POST", "/elastic/_aliases", body, js)
		}},
		{"dashboard-create", func(w *kernel.Worker, name string) (string, error) {
			return call(w, "query", "POST", "/api/dashboards/create", fmt.Sprintf(`{"name":%s,"description":"d","parentId":"root-folder"}`, jq(name)), js)
		}},
		{"dashboard-get", func(w *kernel.Worker, name string) (string, error) {
			return call(w, "query", "GET", "/api/dashboards/"+rawSeg(name), "", nil)
		}},
		{"dashboard-update", func(w *kernel.Worker, name string) (string, error) {
			body := fmt.Sprintf(`{"id":%s,"details":{"name":"n","description":"OVERWRITTEN","folder":{"id":"root-folder"}}}`, jq(name))
			return call(w, "query", "POST", "/api/dashboards/update", body, js)
		}},
		{"dashboard-delete", func(w *kernel.Worker, name string) (string, error) {
			return call(w, "query", "GET", "/api/dashboards/delete/"+rawSeg(name), "", nil)
		}},
		{"folder-create", func(w *kernel.Worker, name string) (string, error) {
			return call(w, "query", "POST", "/api/dashboards/folders/create", fmt.Sprintf(`{"name":%s,"parentId":"root-folder"}`, jq(name)), js)
		}},
		{"folder-get", func(w *kernel.Worker, name string) (string, error) {
			return call(w, "query", "GET", "/api/dashboards/folders/"+rawSeg(name), "", nil)
		}},
		{"savedquery-save", func(w *kernel.Worker, name string) (string, error) {
			body := fmt.Sprintf(`{"queryName":%s,"queryDescription":"d","searchText":"*","indexName":"*","filterTab":"0","queryLanguage":"Splunk QL"}`, jq(name))
			return call(w, "query", "POST", "/api/usersavedqueries/save", body, js)
		}},
		{"savedquery-get", func(w *kernel.Worker, name string) (string, error) {
			return call(w, "query", "GET", "/api/usersavedqueries/"+rawSeg(name), "", nil)
		}},
		{"savedquery-delete", func(w *kernel.Worker, name string) (string, error) {
			return call(w, "query", "GET", "/api/usersavedqueries/deleteone/"+rawSeg(name), "", nil)
		}},
		{"hec-index-name", func(w *kernel.Worker, name string) (string, error) {
			b, err := call(w, "ingest", "POST", "/services/collector/event", `{"index":`+jq(name)+`,"event":{"f":1}}`, js)
			if err != nil {
				return b, err
			}
			if err := w.Call("rotate", nil, nil); err != nil {
				return b, err
			}
			return b, nil
		}},
		{"es-doc-index-name", func(w *kernel.Worker, name string) (string, error) {
			b, err := call(w, "ingest", "POST", "/elastic/"+rawSeg(name)+"/_doc", fmt.Sprintf(`{"timestamp":%d,"f":1}`, time.Now().UnixMilli()), js)
			if err != nil {
				return b, err
			}
			if err := w.Call("rotate", nil, nil); err != nil {
				return b, err
			}
			return b, nil
		}},
		{"otlp-logs-index-attribute", func(w *kernel.Worker, name string) (string, error) {
			req := &collogpb.ExportLogsServiceRequest{ResourceLogs: []*logpb.ResourceLogs{{
				Resource:  &respb.Resource{Attributes: []*commonpb.KeyValue{{Key: "siglensIndexName", Value: anyValue(name)}}},
				ScopeLogs: []*logpb.ScopeLogs{{LogRecords: []*logpb.LogRecord{{TimeUnixNano: uint64(time.Now().UnixNano()), Body: anyValue("b")}}}}}}}
			pb, err := proto.Marshal(req)
			if err != nil {
				return "", nil
			}
			var r httpRes
			if err := w.Call("http", map[string]interface{}{"server": "ingest", "method": "POST", "path": "/otlp/v1/logs", "body_b64": b64(pb), "headers": map[string]string{"Content-Type": "application/x-protobuf"}}, &r); err != nil {
				return "", err
			}
			if err := w.Call("rotate", nil, nil); err != nil {
				return r.Body, err
			}
			return r.Body, nil
		}},
		{"alias-remove-of-named-index", func(w *kernel.Worker, name string) (string, error) {
			body := fmt.Sprintf(`{"actions":[{"remove":{"index":%s,"alias":"c19al"}}]}`, jq(name))
			return call(w, "query", "POST", "/elastic/_aliases", body, js)
		}},
		{"alias-remove", func(w *kernel.Worker, name string) (string, error) {
			body := fmt.Sprintf(`{"actions":[{"remove":{"index":"c19base","alias":%s}}]}`, jq(name))
			return call(w, "query", "POST", "/elastic/_aliases", body, js)
		}},
		{"metric-name", func(w *kernel.Worker, name string) (string, error) {
			body := fmt.Sprintf(`[{"metric":%s,"tags":{"k":%s},"timestamp":%d,"value":1}]`, jq(name), jq(name), time.Now().Unix())
			b, err := call(w, "ingest", "POST", "/otsdb/api/put", body, js)
			if err != nil {
				return b, err
			}
			_ = w.Call("mrotate", map[string]interface{}{"kind": "block"}, nil)
			return b, nil
		}},
	}
}

func c19Run(w *kernel.Worker, j *c19Job, rep *kernel.Report) (*Fail, error) {
	die := func(err error) (*Fail, error) {
		fp, what, herr := diedResult("C19", err)
		if herr != nil {
			return nil, herr
		}
		return &Fail{FP: fp, What: what}, nil
	}
	sentinels := map[string]string{
		"outside/secret.csv":  "k,v\n" + c19Secret + ",1\n",
		"outside/secret.json": `{"name":"` + c19Secret + `"}`,
		"outside/victim.csv":  "k,v\nvictim,1\n",
		"outside/victim.json": `{"c19al":true,"victim":true}`, // shaped like the alias store's own files (map of names to true)
		"outside/victim":      "victim\n",
	}
	reset := func() error {
		for rel, c := range sentinels {
			if err := w.Call("putfile", map[string]interface{}{"rel": rel, "content": c}, nil); err != nil {
				return err
			}
		}
		return nil
	}
	if err := reset(); err != nil {
		return die(err)
	}
	// an index to alias against
	if _, err := httpCall(w, "ingest", "POST", "/elastic/_bulk", `{"index":{"_index":"c19base"}}`+"\n"+`{"f":1}`+"\n", map[string]string{"Content-Type": "application/json"}); err != nil {
		return die(err)
	}
	var before map[string]string
	if err := w.Call("snapshot", nil, &before); err != nil {
		return die(err)
	}
	fs := &Fails{}
	for _, rawName := range j.Names {
		name := strings.ReplaceAll(rawName, "@ABS@", strings.TrimSuffix(w.Dir, "/"))
		special := strings.ContainsAny(rawName, "/\\%.~") || strings.Contains(rawName, "..")
		for _, op := range c19Ops() {
			if j.KeepState && (strings.Contains(op.Name, "remove") || strings.Contains(op.Name, "delete")) {
				continue
			}
			body, err := op.Do(w, name)
			if err != nil {
				if d, ok := err.(*kernel.Died); ok {
					what := d.Exit + " " + d.Frame + "\n" + trunc(d.Stderr, 1200)
					return &Fail{FP: "C19/server-died/" + op.Name, What: fmt.Sprintf("operation %s with name %q: %s", op.Name, rawName, what)}, nil
				}
				return nil, err
			}
			rep.Eval(1)
			if special {
				rep.Nontrivial(op.Name + "|" + rawName)
			}
			if strings.Contains(body, c19Secret) {
				fs.Add("C19/read-outside/"+op.Name, fmt.Sprintf("operation %s with name %q returned the content of a file outside the data directory: %s", op.Name, rawName, trunc(body, 200)))
			}
			var after map[string]string
			if err := w.Call("snapshot", nil, &after); err != nil {
				return die(err)
			}
			changed := false
			for p, v := range after {
				if strings.HasPrefix(p, "defaultDBs") {
					continue
				}
				if bv, ok := before[p]; !ok {
					fs.Add("C19/created-outside/"+op.Name, fmt.Sprintf("operation %s with name %q created %q outside the data and log directories", op.Name, rawName, p))
					changed = true
				} else if bv != v {
					fs.Add("C19/modified-outside/"+op.Name, fmt.Sprintf("operation %s with name %q modified %q outside the data and log directories", op.Name, rawName, p))
					changed = true
				}
			}
			for p := range before {
				if strings.HasPrefix(p, "defaultDBs") {
					continue
				}
				if _, ok := after[p]; !ok {
					fs.Add("C19/deleted-outside/"+op.Name, fmt.Sprintf("operation %s with name %q deleted %q outside the data and log directories", op.Name, rawName, p))
					changed = true
				}
			}
			if changed {
				// undo what can be undone so that later operations start from the same outside state
				for p := range after {
					if _, ok := before[p]; !ok && !strings.HasPrefix(p, "defaultDBs") {
						_ = w.Call("rmoutside", map[string]interface{}{"rel": p}, nil)
					}
				}
				if err := reset(); err != nil {
					return die(err)
				}
				if err := w.Call("snapshot", nil, &before); err != nil {
					return die(err)
				}
			}
		}
	}
	// state kept in memory may reach the file system only later: a graceful shutdown flushes it
	var beforeStop map[string]string
	if err := w.Call("snapshot", nil, &beforeStop); err != nil {
		return die(err)
	}
	if err := w.CallT("shutdown", map[string]interface{}{"noexit": true}, nil, 60*time.Second); err != nil {
		if d, ok := err.(*kernel.Died); ok {
			return &Fail{FP: "C19/server-died/graceful-shutdown", What: fmt.Sprintf("names %v, graceful shutdown: %s %s\n%s", j.Names, d.Exit, d.Frame, trunc(d.Stderr, 1200))}, nil
		}
		return nil, err
	}
	var afterStop map[string]string
	serr := w.Call("snapshot", nil, &afterStop)
	w.Kill() // the instance is shut down: unfit for reuse
	if serr == nil {
		for p, v := range afterStop {
			if strings.HasPrefix(p, "defaultDBs") {
				continue
			}
			if bv, ok := beforeStop[p]; !ok {
				fs.Add("C19/created-outside/graceful-shutdown", fmt.Sprintf("after operations with the names %v a graceful shutdown created %q outside the data and log directories", j.Names, p))
			} else if bv != v {
				fs.Add("C19/modified-outside/graceful-shutdown", fmt.Sprintf("after operations with the names %v a graceful shutdown modified %q outside the data and log directories", j.Names, p))
			}
		}
		for p := range beforeStop {
			if _, ok := afterStop[p]; !ok && !strings.HasPrefix(p, "defaultDBs") {
				fs.Add("C19/deleted-outside/graceful-shutdown", fmt.Sprintf("after operations with the names %v a graceful shutdown deleted %q outside the data and log directories", j.Names, p))
			}
		}
	}
	return fs.Result(), nil
}

func C19() int {
	rep := kernel.NewReport("C19", "exploration")
	rep.Rule = "all names of ≤ n atoms over {a, .., ., /, \\, %2e%2e, %2f, ../, x.csv, outside, ~, victim} plus targeted escapes (1–6 levels of ../ towards a sentinel directory, " +
		"encoded and backslash variants, absolute paths, 300 characters, 40 levels) × 25 operations that derive a path from request data (lookup upload/get/delete, inputlookup, index name of bulk / single-document / HEC / OTLP-logs ingest + rotation, alias removal, " +
		"PUT/DELETE index, search index name, alias add, dashboard create/get/update/delete, folder create/get, saved query save/get/delete, metric name + tag value), sent over HTTP to the booted " +
		"server so that route parameters pass through the real routers. After every operation, and after a graceful shutdown at the end of every chunk of names (each chunk once with all operations and once without the removing ones, so that added state is still in memory), the tree outside data/ and logs/ must be unchanged and no response may contain the sentinel's content. " +
		"non-trivial = (operation, name) where the name contains a separator, dot-dot, ~ or an encoding atom"
	rep.Assume = []string{"the worker directory is laid out as data/ (data dir), logs/ (log dir), outside/ (sentinels) and the process cwd; defaultDBs/ (cwd-relative, written by the dashboard code itself) is excluded",
		"scroll ids and tenant ids are not client-controlled in this tree's routes and are not driven"}
	names := c19Names(rep.Tier)
	rep.Bounds["names"] = len(names)
	rep.Bounds["operations"] = len(c19Ops())
	pool := serverPool()
	pool.RecycleEvery = 1 // index-creating operations accumulate segment stores: a fresh server per chunk of names
	d := &Driver[c19Job]{Rep: rep, Pool: pool,
		Budget: kernel.NewBudget(map[string]time.Duration{"quick": 170 * time.Second, "thorough": 40 * time.Minute}[rep.Tier]),
		Enumerate: func(emit func(c19Job)) {
			const chunk = 6
			for i := 0; i < len(names); i += chunk {
				e := i + chunk
				if e > len(names) {
					e = len(names)
				}
				emit(c19Job{Names: names[i:e]})
				emit(c19Job{Names: names[i:e], KeepState: true})
			}
		},
		Run:        c19Run,
		Key:        func(j *c19Job) string { return jstr(j) },
		Nontrivial: func(j *c19Job) bool { return false },
	}
	d.Drive()
	return rep.Finish()
}

func init() {
	Registry["C19"] = C19
	Replayers["C19"] = MakeReplayer[c19Job]("C19", "exploration", serverPool, c19Run)
}
