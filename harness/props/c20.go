package props

import (
	"encoding/json"
	"fmt"
	"os"
	"strings"
	"sync/atomic"
	"time"

	"verif/harness/kernel"
)

// C20 — alert state and saved objects follow their definitions. Part A: the alert state machine under every
// evaluation-outcome sequence (real handleAlertCondition on an alert created through the real creation path, sqlite
// backed, webhook notifications counted by a loopback sink). Part B: keyed stores (c20kv.go).

type c20Job struct {
	N        int    `json:"n"`        // evaluation window / interval
	Cooldown int    `json:"cooldown"` // minutes
	Seq      string `json:"seq"`      // T = condition held, F = did not, D = 61 minutes pass, R = server restart
	// Hooks: "" = the contact point has one webhook (the counting sink); "sink+dead" = a second webhook follows whose
	// endpoint refuses connections (a notification counts as sent when at least one channel took it)
	Hooks string `json:"hooks,omitempty"`
}

var c20Seq int64

func c20Run(w0 *kernel.Worker, j *c20Job, rep *kernel.Report) (*Fail, error) {
	w := w0
	defer func() {
		if w != w0 {
			w.Close()
		}
	}()
	die := func(err error) (*Fail, error) {
		fp, what, herr := diedResult("C20", err)
		if herr != nil {
			return nil, herr
		}
		return &Fail{FP: fp, What: what}, nil
	}
	k := atomic.AddInt64(&c20Seq, 1)
	tag := fmt.Sprintf("%d_%d", time.Now().UnixNano()%1_000_000_000, k)
	var sink struct {
		URL string `json:"url"`
	}
	if err := w.Call("sink_start", nil, &sink); err != nil {
		return die(err)
	}
	js := map[string]string{"Content-Type": "application/json"}
	hook := "/hook" + tag
	cbody := fmt.Sprintf(`{"contact_name":"c%s","email":[],"slack":[],"webhook":[{"webhook":"%s%s"}]}`, tag, sink.URL, hook)
	if j.Hooks == "sink+dead" {
		cbody = fmt.Sprintf(`{"contact_name":"c%s","email":[],"slack":[],"webhook":[{"webhook":"%s%s"},{"webhook":"http://127.0.0.1:9/dead%s"}]}`, tag, sink.URL, hook, tag)
	}
	r, err := httpCall(w, "query", "POST", "/api/alerts/createContact", cbody, js)
	if err != nil {
		return die(err)
	}
	if r.Status != 200 {
		return &Fail{FP: "C20/harness-contact-create", What: fmt.Sprintf("createContact: http %d %s", r.Status, trunc(r.Body, 300))}, nil
	}
	r, err = httpCall(w, "query", "GET", "/api/alerts/allContacts", "", nil)
	if err != nil {
		return die(err)
	}
	var contacts struct {
		Contacts []struct {
			ContactID   string `json:"contact_id"`
			ContactName string `json:"contact_name"`
		} `json:"contacts"`
	}
	_ = json.Unmarshal([]byte(r.Body), &contacts)
	cid := ""
	for _, c := range contacts.Contacts {
		if c.ContactName == "c"+tag {
			cid = c.ContactID
		}
	}
	if cid == "" {
		return &Fail{FP: "C20/harness-contact-lookup", What: "created contact not listed: " + trunc(r.Body, 300)}, nil
	}
	abody := fmt.Sprintf(`{"alert_name":"a%s","alert_type":1,"contact_id":"%s","contact_name":"c%s","labels":[],"queryParams":{"data_source":"Logs","queryLanguage":"Splunk QL","queryText":"* | stats count","startTime":"now-5m","endTime":"now","index":"*","queryMode":"Builder"},"condition":0,"value":0,"eval_for":%d,"eval_interval":1,"message":"m"}`,
		tag, cid, tag, j.N)
	var ar struct {
		ID    string `json:"id"`
		Error string `json:"error"`
	}
	if err := w.Call("alert", map[string]interface{}{"do": "create", "body": abody, "org": 0}, &ar); err != nil {
		return die(err)
	}
	if ar.Error != "" || ar.ID == "" {
		return &Fail{FP: "C20/harness-alert-create", What: "create alert: " + ar.Error}, nil
	}
	aop := func(do string, extra map[string]interface{}) (string, error) {
		args := map[string]interface{}{"do": do, "id": ar.ID}
		for k, v := range extra {
			args[k] = v
		}
		var out struct {
			Error string `json:"error"`
		}
		err := w.Call("alert", args, &out)
		return out.Error, err
	}
	if j.Cooldown > 0 {
		if e, err := aop("cooldown", map[string]interface{}{"minutes": j.Cooldown}); err != nil || e != "" {
			if err != nil {
				return die(err)
			}
			return &Fail{FP: "C20/harness-cooldown", What: e}, nil
		}
	}
	// model
	var outcomes []bool
	sent := 0          // notifications the model expects at least
	sentMax := 0       // and at most
	lastSentAgo := 1e9 // minutes since the last notification (model clock)
	lastNotified := "" // Firing | Normal | ""
	evals := 0
	ctx := func(i int) string {
		return fmt.Sprintf("N=%d cooldown=%dmin sequence %s (after step %d)", j.N, j.Cooldown, j.Seq, i+1)
	}
	fs := &Fails{}
	for i, c := range j.Seq {
		switch c {
		case 'D':
			if e, err := aop("shift", map[string]interface{}{"minutes": 61}); err != nil || e != "" {
				if err != nil {
					return die(err)
				}
				return &Fail{FP: "C20/harness-shift", What: e}, nil
			}
			lastSentAgo += 61
			continue
		case 'R':
			nw, err := restartWorker(w)
			if err != nil {
				return &Fail{FP: "C20/restart-failed", What: err.Error()}, nil
			}
			if w != w0 {
				w.Close()
			}
			w = nw
			if err := w.Call("sink_start", nil, &sink); err != nil {
				return die(err)
			}
			continue
		}
		matched := c == 'T'
		if e, err := aop("eval", map[string]interface{}{"matched": matched}); err != nil || e != "" {
			if err != nil {
				return die(err)
			}
			fs.Add("C20/eval-error", ctx(i)+": "+e)
			break
		}
		rep.Transition(1)
		evals++
		outcomes = append(outcomes, matched)
		// expected state
		want := "Normal"
		if matched {
			want = "Pending"
			if len(outcomes) >= j.N {
				all := true
				for _, o := range outcomes[len(outcomes)-j.N:] {
					if !o {
						all = false
					}
				}
				if all {
					want = "Firing"
				}
			}
		}
		cool := lastSentAgo >= float64(j.Cooldown)
		switch want {
		case "Firing":
			if cool {
				sent++
				sentMax++
				lastSentAgo = 0
				lastNotified = "Firing"
			}
		case "Normal":
			if lastNotified == "Firing" {
				// "once on return to Normal": immediately when no cool-down is pending, otherwise at most once later
				if cool {
					sent++
					sentMax++
					lastSentAgo = 0
					lastNotified = "Normal"
				}
			}
		}
		// observed state
		gr, err := httpCall(w, "query", "GET", "/api/alerts/"+ar.ID, "", nil)
		if err != nil {
			return die(err)
		}
		rep.Eval(1)
		var got struct {
			Alert struct {
				State int `json:"state"`
			} `json:"alert"`
		}
		_ = json.Unmarshal([]byte(gr.Body), &got)
		gs := []string{"Inactive", "Normal", "Pending", "Firing"}[got.Alert.State%4]
		if gs != want {
			fs.Add("C20/state/"+want+"-expected", ctx(i)+fmt.Sprintf(": state is %s, the last %d outcomes %v require %s", gs, j.N, outcomes, want))
		}
	}
	// notifications
	var counts map[string]int
	// the webhook is delivered synchronously inside the evaluation; a short settle for the sink's handler
	_ = w.Call("sleep", map[string]interface{}{"ms": 20}, nil)
	if err := w.Call("sink_count", nil, &counts); err != nil {
		return die(err)
	}
	gotN := counts[hook]
	if !strings.Contains(j.Seq, "R") && (gotN < sent || gotN > sentMax) {
		fs.Add("C20/notifications/"+fmt.Sprintf("cooldown%d", j.Cooldown), fmt.Sprintf("N=%d cooldown=%dmin sequence %s: %d notifications delivered, expected %d", j.N, j.Cooldown, j.Seq, gotN, sent))
	}
	// history: one system-generated row per evaluation
	hr, err := httpCall(w, "query", "GET", "/api/alerts/"+ar.ID+"/history?sort_order=ASC&limit=1000&offset=0", "", nil)
	if err != nil {
		return die(err)
	}
	var hist struct {
		AlertHistory []struct {
			State int    `json:"alert_state"`
			User  string `json:"user_name"`
		} `json:"alertHistory"`
		Count int `json:"count"`
	}
	if json.Unmarshal([]byte(hr.Body), &hist) == nil && hr.Status == 200 {
		sys := 0
		for _, h := range hist.AlertHistory {
			if h.User == "System Generated" {
				sys++
			}
		}
		if sys != evals {
			fs.Add("C20/history-rows", fmt.Sprintf("N=%d sequence %s: %d evaluations, %d system-generated history rows", j.N, j.Seq, evals, sys))
		}
	} else {
		rep.Add("history_not_readable", 1)
	}
	return fs.Result(), nil
}

func c20Sequences(n int, cooldown int, tier string) []string {
	maxLen := n + 3
	if tier == "thorough" {
		maxLen = n + 5
	}
	var out []string
	var rec func(cur string)
	rec = func(cur string) {
		if len(cur) > 0 {
			out = append(out, cur)
		}
		if len(cur) == maxLen {
			return
		}
		rec(cur + "T")
		rec(cur + "F")
	}
	rec("")
	if cooldown > 0 {
		// the clock step at every position of every sequence of length ≤ n+2
		base := append([]string{}, out...)
		for _, s := range base {
			if len(s) > n+2 {
				continue
			}
			for p := 1; p <= len(s); p++ {
				out = append(out, s[:p]+"D"+s[p:])
			}
		}
	}
	// (a restart inside a sequence is not explored: start-up re-schedules every alert's cron job, which evaluates at once
	// with the real query and would add outcomes the explorer does not own)
	return out
}

func C20() int {
	rep := kernel.NewReport("C20", "model_checking")
	rep.Rule = "alert machine: window/interval N ∈ {1,2,3} × cool-down ∈ {0, 60 min} × every evaluation-outcome sequence over {held, not held} of length ≤ N+3 (N+5 in thorough), plus three sequences for N = 102 (more outcomes than one page of the history), for N = 1 every sequence also with a contact point of two webhooks the second of which refuses connections, for cool-down 60 additionally " +
		"with the step '61 minutes pass' at every position; each outcome goes through the real handleAlertCondition of an alert created by the real " +
		"creation path on the sqlite store; after every evaluation the state read through the HTTP API must be Firing iff the last N outcomes held, Pending iff the latest held but not all N, Normal otherwise; " +
		"webhook deliveries counted by a loopback sink must match 'on entering Firing, repeated only after the cool-down, once on return to Normal'; one history row per evaluation. keyed stores: see coverage.kv_*. " +
		"non-trivial = sequence containing both outcomes; CRUD sequence re-using a key or crossing a restart"
	rep.Assume = []string{"the cron scheduling of evaluations is bypassed (alerts are created without a cron job) so that evaluations happen exactly when the explorer issues them",
		"time passes only through the explicit step that moves last_sent_time back by 61 minutes"}
	budget := kernel.NewBudget(map[string]time.Duration{"quick": 170 * time.Second, "thorough": 40 * time.Minute}[rep.Tier])
	d := &Driver[c20Job]{Rep: rep, Pool: serverPool(), Budget: budget,
		Enumerate: func(emit func(c20Job)) {
			for _, n := range []int{1, 2, 3} {
				for _, cd := range []int{0, 60} {
					for _, s := range c20Sequences(n, cd, rep.Tier) {
						emit(c20Job{N: n, Cooldown: cd, Seq: s})
						if n == 1 {
							emit(c20Job{N: n, Cooldown: cd, Seq: s, Hooks: "sink+dead"})
						}
					}
				}
			}
			// a long window (N = 102: more evaluation outcomes than one page of the history holds): held throughout, and
			// with one miss early / just inside the window
			long := 102
			emit(c20Job{N: long, Cooldown: 0, Seq: strings.Repeat("T", long+2)})
			emit(c20Job{N: long, Cooldown: 0, Seq: "TF" + strings.Repeat("T", long+1)})
			emit(c20Job{N: long, Cooldown: 0, Seq: strings.Repeat("T", long) + "F" + strings.Repeat("T", long)})
		},
		Run:        c20Run,
		Key:        func(j *c20Job) string { return fmt.Sprintf("%d|%d|%s|%s", j.N, j.Cooldown, j.Seq, j.Hooks) },
		Nontrivial: func(j *c20Job) bool { return strings.Contains(j.Seq, "T") && strings.Contains(j.Seq, "F") },
	}
	only := os.Getenv("VERIF_C20_ONLY") // development aid: run one part
	if only == "" || only == "alerts" {
		d.Drive()
	}
	if only == "" || only == "kv" {
		c20KV(rep, budget)
	}
	if only == "" || only == "tree" {
		c20Tree(rep, budget)
	}
	return rep.Finish()
}

func init() {
	Registry["C20"] = C20
	Replayers["C20"] = func(doc json.RawMessage) int {
		var probe struct {
			Store string `json:"store"`
			Tree  bool   `json:"tree"`
		}
		_ = json.Unmarshal(doc, &probe)
		if probe.Tree {
			return MakeReplayer[c20TreeJob]("C20", "model_checking", serverPool, c20TreeRun)(doc)
		}
		if probe.Store != "" {
			return MakeReplayer[c20KVJob]("C20", "model_checking", serverPool, c20KVRun)(doc)
		}
		return MakeReplayer[c20Job]("C20", "model_checking", serverPool, c20Run)(doc)
	}
}
