package props

import (
	"bytes"
	"encoding/json"
	"fmt"
	"mime/multipart"
	"net/url"
	"sort"
	"strings"
	"sync/atomic"

	"verif/harness/kernel"
)

// C20 part B — keyed stores behave as a keyed store: every sequence of put / delete / restart up to a depth on each
// store through the real HTTP API, compared with a Go map after every operation.

type c20KVJob struct {
	Store string   `json:"store"`
	Ops   []string `json:"ops"` // put:k:v | del:k | restart
	// Alone: no unrelated object is created first, so the sequence starts from (and can return to) the empty store
	Alone bool `json:"alone,omitempty"`
}

type kvStore struct {
	name string
	put  func(w *kernel.Worker, ns, k, v string) (string, error)
	del  func(w *kernel.Worker, ns, k string) (string, error)
	list func(w *kernel.Worker, ns string) (map[string]string, string, error) // key -> value
}

var kvJS = map[string]string{"Content-Type": "application/json"}

func kvStores() map[string]*kvStore {
	return map[string]*kvStore{
		"savedqueries": {
			name: "savedqueries",
			put: func(w *kernel.Worker, ns, k, v string) (string, error) {
				body := fmt.Sprintf(`{"queryName":%s,"queryDescription":%s,"searchText":"*","indexName":"*","filterTab":"0","queryLanguage":"Splunk QL"}`, jq(ns+k), jq(v))
				r, err := httpCall(w, "query", "POST", "/api/usersavedqueries/save", body, kvJS)
				if err != nil {
					return "", err
				}
				return fmt.Sprintf("%d %s", r.Status, trunc(r.Body, 120)), nil
			},
			del: func(w *kernel.Worker, ns, k string) (string, error) {
				r, err := httpCall(w, "query", "GET", "/api/usersavedqueries/deleteone/"+url.PathEscape(ns+k), "", nil)
				if err != nil {
					return "", err
				}
				return fmt.Sprintf("%d %s", r.Status, trunc(r.Body, 120)), nil
			},
			list: func(w *kernel.Worker, ns string) (map[string]string, string, error) {
				r, err := httpCall(w, "query", "GET", "/api/usersavedqueries/getall", "", nil)
				if err != nil {
					return nil, "", err
				}
				var m map[string]map[string]interface{}
				_ = json.Unmarshal([]byte(r.Body), &m)
				out := map[string]string{}
				for k, v := range m {
					if strings.HasPrefix(k, ns) {
						out[strings.TrimPrefix(k, ns)] = fmt.Sprint(v["description"])
					}
				}
				return out, trunc(r.Body, 300), nil
			},
		},
		"lookups": {
			name: "lookups",
			put: func(w *kernel.Worker, ns, k, v string) (string, error) {
				var buf bytes.Buffer
				mw := multipart.NewWriter(&buf)
				_ = mw.WriteField("name", ns+k+".csv")
				_ = mw.WriteField("overwrite", "true")
				fw, _ := mw.CreateFormFile("file", "u.csv")
				_, _ = fw.Write([]byte("k,v\n" + v + ",1\n"))
				_ = mw.Close()
				r, err := httpCall(w, "query", "POST", "/api/lookup-upload", buf.String(), map[string]string{"Content-Type": mw.FormDataContentType()})
				if err != nil {
					return "", err
				}
				return fmt.Sprintf("%d %s", r.Status, trunc(r.Body, 120)), nil
			},
			del: func(w *kernel.Worker, ns, k string) (string, error) {
				r, err := httpCall(w, "query", "DELETE", "/api/lookup-files/"+url.PathEscape(ns+k+".csv"), "", nil)
				if err != nil {
					return "", err
				}
				return fmt.Sprintf("%d %s", r.Status, trunc(r.Body, 120)), nil
			},
			list: func(w *kernel.Worker, ns string) (map[string]string, string, error) {
				r, err := httpCall(w, "query", "GET", "/api/lookup-files", "", nil)
				if err != nil {
					return nil, "", err
				}
				var names []string
				_ = json.Unmarshal([]byte(r.Body), &names)
				out := map[string]string{}
				for _, n := range names {
					if !strings.HasPrefix(n, ns) {
						continue
					}
					g, err := httpCall(w, "query", "GET", "/api/lookup-files/"+url.PathEscape(n), "", nil)
					if err != nil {
						return nil, "", err
					}
					val := ""
					lines := strings.Split(strings.TrimSpace(g.Body), "\n")
					if len(lines) >= 2 {
						val = strings.SplitN(lines[1], ",", 2)[0]
					}
					out[strings.TrimSuffix(strings.TrimPrefix(n, ns), ".csv")] = val
				}
				return out, trunc(r.Body, 300), nil
			},
		},
		"alerts": {
			name: "alerts",
			// key = alert name; value "1" = condition "is below" (2), threshold 25, message m1; value "2" = the zero values of
			// every field: condition "is above" (0), threshold 0, empty message. The first put creates the alert (without
			// its cron job, as the alert-machine part does), later puts go through the update API.
			put: func(w *kernel.Worker, ns, k, v string) (string, error) {
				cfg := map[string]string{"1": `"condition":2,"value":25,"message":"m1"`, "2": `"condition":0,"value":0,"message":""`}[v]
				id, cid, err := kvAlertLookup(w, ns, k)
				if err != nil {
					return "", err
				}
				body := fmt.Sprintf(`{"alert_name":%s,"alert_type":1,"contact_id":%s,"contact_name":%s,"labels":[],"queryParams":{"data_source":"Logs","queryLanguage":"Splunk QL","queryText":"* | stats count","startTime":"now-5m","endTime":"now","index":"*","queryMode":"Builder"},%s,"eval_for":1,"eval_interval":1`,
					jq(ns+k), jq(cid), jq("kvc"+ns), cfg)
				if id == "" {
					var ar struct {
						ID    string `json:"id"`
						Error string `json:"error"`
					}
					if err := w.Call("alert", map[string]interface{}{"do": "create", "body": body + "}", "org": 0}, &ar); err != nil {
						return "", err
					}
					return "created " + ar.Error, nil
				}
				r, err := httpCall(w, "query", "POST", "/api/alerts/update", body+`,"alert_id":`+jq(id)+"}", kvJS)
				if err != nil {
					return "", err
				}
				return fmt.Sprintf("%d %s", r.Status, trunc(r.Body, 120)), nil
			},
			del: func(w *kernel.Worker, ns, k string) (string, error) {
				id, _, err := kvAlertLookup(w, ns, k)
				if err != nil || id == "" {
					return "absent", err
				}
				r, err := httpCall(w, "query", "DELETE", "/api/alerts/delete", `{"alert_id":`+jq(id)+`}`, kvJS)
				if err != nil {
					return "", err
				}
				return fmt.Sprintf("%d %s", r.Status, trunc(r.Body, 120)), nil
			},
			list: func(w *kernel.Worker, ns string) (map[string]string, string, error) {
				r, err := httpCall(w, "query", "GET", "/api/allalerts", "", nil)
				if err != nil {
					return nil, "", err
				}
				var m struct {
					Alerts []struct {
						Name      string  `json:"alert_name"`
						Condition int     `json:"condition"`
						Value     float64 `json:"value"`
						Message   string  `json:"message"`
					} `json:"alerts"`
				}
				_ = json.Unmarshal([]byte(r.Body), &m)
				out := map[string]string{}
				for _, a := range m.Alerts {
					if !strings.HasPrefix(a.Name, ns) {
						continue
					}
					val := fmt.Sprintf("condition=%d value=%v message=%q", a.Condition, a.Value, a.Message)
					switch val {
					case `condition=2 value=25 message="m1"`:
						val = "1"
					case `condition=0 value=0 message=""`:
						val = "2"
					}
					out[strings.TrimPrefix(a.Name, ns)] = val
				}
				return out, trunc(r.Body, 300), nil
			},
		},
		"aliases": {
			name: "aliases",
			// key = alias name, value = the index it points to ("1" → index <ns>i1, "2" → <ns>i2); a put re-points the alias
			put: func(w *kernel.Worker, ns, k, v string) (string, error) {
				other := "1"
				if v == "1" {
					other = "2"
				}
				body := fmt.Sprintf(`{"actions":[{"remove":{"index":%s,"alias":%s}},{"add":{"index":%s,"alias":%s}}]}`, jq(ns+"i"+other), jq(ns+k), jq(ns+"i"+v), jq(ns+k))
				r, err := httpCall(w, "query", "POST", "/elastic/_aliases", body, kvJS)
				if err != nil {
					return "", err
				}
				return fmt.Sprintf("%d %s", r.Status, trunc(r.Body, 120)), nil
			},
			del: func(w *kernel.Worker, ns, k string) (string, error) {
				body := fmt.Sprintf(`{"actions":[{"remove":{"index":%s,"alias":%s}},{"remove":{"index":%s,"alias":%s}}]}`, jq(ns+"i1"), jq(ns+k), jq(ns+"i2"), jq(ns+k))
				r, err := httpCall(w, "query", "POST", "/elastic/_aliases", body, kvJS)
				if err != nil {
					return "", err
				}
				return fmt.Sprintf("%d %s", r.Status, trunc(r.Body, 120)), nil
			},
			list: func(w *kernel.Worker, ns string) (map[string]string, string, error) {
				r, err := httpCall(w, "query", "GET", "/elastic/_aliases", "", nil)
				if err != nil {
					return nil, "", err
				}
				var m map[string]map[string]map[string]interface{}
				_ = json.Unmarshal([]byte(r.Body), &m)
				out := map[string]string{}
				for idx, x := range m {
					if !strings.HasPrefix(idx, ns+"i") {
						continue
					}
					for al := range x["aliases"] {
						key := strings.TrimPrefix(al, ns)
						val := strings.TrimPrefix(idx, ns+"i")
						if prev, dup := out[key]; dup {
							val = prev + "+" + val
						}
						out[key] = val
					}
				}
				return out, trunc(r.Body, 300), nil
			},
		},
	}
}

// kvAlertLookup returns the id of the alert named ns+k ("" if there is none) and the id of the store's contact point,
// which it creates on first use.
func kvAlertLookup(w *kernel.Worker, ns, k string) (id, contactID string, err error) {
	r, err := httpCall(w, "query", "GET", "/api/allalerts", "", nil)
	if err != nil {
		return "", "", err
	}
	var m struct {
		Alerts []struct {
			ID   string `json:"alert_id"`
			Name string `json:"alert_name"`
		} `json:"alerts"`
	}
	_ = json.Unmarshal([]byte(r.Body), &m)
	for _, a := range m.Alerts {
		if a.Name == ns+k {
			id = a.ID
		}
	}
	find := func() string {
		c, cerr := httpCall(w, "query", "GET", "/api/alerts/allContacts", "", nil)
		if cerr != nil {
			err = cerr
			return ""
		}
		var cs struct {
			Contacts []struct {
				ContactID   string `json:"contact_id"`
				ContactName string `json:"contact_name"`
			} `json:"contacts"`
		}
		_ = json.Unmarshal([]byte(c.Body), &cs)
		for _, x := range cs.Contacts {
			if x.ContactName == "kvc"+ns {
				return x.ContactID
			}
		}
		return ""
	}
	if contactID = find(); contactID == "" && err == nil {
		body := fmt.Sprintf(`{"contact_name":%s,"email":[],"slack":[],"pager_duty":"","webhook":[{"webhook":"http://127.0.0.1:9/none"}]}`, jq("kvc"+ns))
		if _, err = httpCall(w, "query", "POST", "/api/alerts/createContact", body, kvJS); err != nil {
			return "", "", err
		}
		contactID = find()
	}
	return id, contactID, err
}

var c20KVSeq int64

func c20KVRun(w0 *kernel.Worker, j *c20KVJob, rep *kernel.Report) (*Fail, error) {
	w := w0
	defer func() {
		if w != w0 {
			w.Close()
		}
	}()
	die := func(err error) (*Fail, error) {
		fp, what, herr := diedResult("C20", err)
		if herr != nil {
			return nil, herr
		}
		return &Fail{FP: fp + "/kv-" + j.Store, What: what}, nil
	}
	st := kvStores()[j.Store]
	ns := fmt.Sprintf("n%d", atomic.AddInt64(&c20KVSeq, 1))
	if j.Store == "aliases" {
		for _, i := range []string{"i1", "i2"} {
			if _, err := httpCall(w, "ingest", "POST", "/elastic/_bulk", `{"index":{"_index":"`+ns+i+`"}}`+"\n"+`{"f":1}`+"\n", kvJS); err != nil {
				return die(err)
			}
		}
	}
	model := map[string]string{}
	// leave the store as it was found (empty, for the first job of a worker), so that sequences really start from and
	// return to the empty store
	defer func() {
		if !w.Dead() {
			for _, k := range []string{"a", "b", "other"} {
				_, _ = st.del(w, ns, k)
			}
		}
	}()
	// an unrelated object that must never be disturbed
	if !j.Alone {
		if _, err := st.put(w, ns, "other", "1"); err != nil {
			return die(err)
		}
		model["other"] = "1"
	}
	for i, op := range j.Ops {
		parts := strings.Split(op, ":")
		var resp string
		var err error
		switch parts[0] {
		case "put":
			resp, err = st.put(w, ns, parts[1], parts[2])
			model[parts[1]] = parts[2]
		case "del":
			resp, err = st.del(w, ns, parts[1])
			delete(model, parts[1])
		case "restart":
			nw, rerr := restartWorker(w)
			if rerr != nil {
				return &Fail{FP: "C20/kv-restart-failed/" + j.Store, What: rerr.Error()}, nil
			}
			if w != w0 {
				w.Close()
			}
			w = nw
		}
		if err != nil {
			return die(err)
		}
		rep.Transition(1)
		got, raw, err := st.list(w, ns)
		if err != nil {
			return die(err)
		}
		rep.Eval(1)
		if fmt.Sprint(sortedMap(got)) != fmt.Sprint(sortedMap(model)) {
			return &Fail{FP: "C20/kv-state/" + j.Store + "/after-" + parts[0], What: fmt.Sprintf("store %s, operations %v: after step %d (%s, response %q) the store lists %v, last written state is %v (raw %s)",
				j.Store, j.Ops, i+1, op, resp, sortedMap(got), sortedMap(model), raw)}, nil
		}
	}
	return nil, nil
}

func sortedMap(m map[string]string) []string {
	var out []string
	for k, v := range m {
		out = append(out, k+"="+v)
	}
	sort.Strings(out)
	return out
}

func c20KV(rep *kernel.Report, budget *kernel.Budget) {
	depth := 3
	if rep.Tier == "thorough" {
		depth = 4
	}
	alphabet := []string{"put:a:1", "put:a:2", "put:b:1", "del:a", "del:b", "restart"}
	var seqs [][]string
	var rec func(cur []string)
	rec = func(cur []string) {
		if len(cur) > 0 {
			seqs = append(seqs, append([]string{}, cur...))
		}
		if len(cur) == depth {
			return
		}
		restarts := 0
		for _, o := range cur {
			if o == "restart" {
				restarts++
			}
		}
		for _, o := range alphabet {
			if o == "restart" && (restarts >= 1 || len(cur) == 0) {
				continue
			}
			rec(append(cur, o))
		}
	}
	rec(nil)
	d := &Driver[c20KVJob]{Rep: rep, Pool: serverPool(), Budget: budget,
		Enumerate: func(emit func(c20KVJob)) {
			for _, s := range []string{"savedqueries", "lookups", "aliases", "alerts"} {
				for _, q := range seqs {
					emit(c20KVJob{Store: s, Ops: q})
					emit(c20KVJob{Store: s, Ops: q, Alone: true})
				}
			}
		},
		Run: c20KVRun,
		Key: func(j *c20KVJob) string { return fmt.Sprintf("%s|%s|%v", j.Store, strings.Join(j.Ops, ","), j.Alone) },
		Nontrivial: func(j *c20KVJob) bool {
			seen := map[string]bool{}
			for _, o := range j.Ops {
				p := strings.Split(o, ":")
				if p[0] == "restart" {
					return true
				}
				if len(p) > 1 {
					if seen[p[1]] {
						return true
					}
					seen[p[1]] = true
				}
			}
			return false
		},
	}
	d.Drive()
	rep.Set("kv_sequences_per_store", len(seqs))
	rep.Set("kv_stores", []string{"savedqueries", "lookups", "aliases", "alerts"})
}
