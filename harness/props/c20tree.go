package props

import (
	"encoding/json"
	"fmt"
	"sort"
	"strings"

	"verif/harness/kernel"
)

// C20 part C — dashboards and folders. The store is a tree (folders hold folders and dashboards); the explorer runs a
// breadth-first search over a plain Go model of that tree (a map slot → parent/name) and executes EVERY model
// transition on the real HTTP API: the shortest path to the source state is replayed on an emptied store, the
// operation is applied, and every read the API offers (contents and nested count of each folder, each dashboard, the
// flat list, reads of deleted ids) is compared with the model.

type c20TreeJob struct {
	Tree bool     `json:"tree"` // marks the job kind for the replayer
	Path []string `json:"path"`
	Op   string   `json:"op"`
}

type treeNode struct {
	Parent string // "root" or folder slot
	Name   string
	Desc   string // dashboards
}

type treeModel struct {
	F map[string]treeNode
	D map[string]treeNode
}

func newTreeModel() *treeModel { return &treeModel{F: map[string]treeNode{}, D: map[string]treeNode{}} }

func (m *treeModel) clone() *treeModel {
	n := newTreeModel()
	for k, v := range m.F {
		n.F[k] = v
	}
	for k, v := range m.D {
		n.D[k] = v
	}
	return n
}

func (m *treeModel) canon() string {
	var out []string
	for k, v := range m.F {
		out = append(out, "f"+k+"<"+v.Parent+":"+v.Name)
	}
	for k, v := range m.D {
		out = append(out, "d"+k+"<"+v.Parent+":"+v.Name+":"+v.Desc)
	}
	sort.Strings(out)
	return strings.Join(out, ",")
}

func (m *treeModel) hasFolder(p string) bool {
	if p == "root" {
		return true
	}
	_, ok := m.F[p]
	return ok
}

// under: is folder p equal to or below folder f
func (m *treeModel) under(p, f string) bool {
	for p != "root" {
		if p == f {
			return true
		}
		n, ok := m.F[p]
		if !ok {
			return false
		}
		p = n.Parent
	}
	return false
}

func (m *treeModel) removeFolder(f string) {
	for k, v := range m.F {
		if k != f && v.Parent == f {
			m.removeFolder(k)
		}
	}
	for k, v := range m.D {
		if v.Parent == f {
			delete(m.D, k)
		}
	}
	delete(m.F, f)
}

func toggled(name, slot string) string {
	if strings.HasSuffix(name, "2") {
		return slot
	}
	return slot + "2"
}

// apply: the effect the operation must have on a keyed tree store (nothing, where the target or the destination does
// not exist, or a folder would become its own ancestor).
func (m *treeModel) apply(op string) {
	p := strings.Split(op, ":")
	switch p[0] {
	case "mkf":
		if _, ok := m.F[p[1]]; !ok && m.hasFolder(p[2]) {
			m.F[p[1]] = treeNode{Parent: p[2], Name: "f" + p[1]}
		}
	case "mvf", "mvrnf":
		n, ok := m.F[p[1]]
		if !ok || !m.hasFolder(p[2]) || m.under(p[2], p[1]) {
			return
		}
		n.Parent = p[2]
		if p[0] == "mvrnf" {
			n.Name = toggled(n.Name, "f"+p[1])
		}
		m.F[p[1]] = n
	case "rnf":
		if n, ok := m.F[p[1]]; ok {
			n.Name = toggled(n.Name, "f"+p[1])
			m.F[p[1]] = n
		}
	case "rmf":
		if _, ok := m.F[p[1]]; ok {
			m.removeFolder(p[1])
		}
	case "mkd":
		if _, ok := m.D[p[1]]; !ok && m.hasFolder(p[2]) {
			m.D[p[1]] = treeNode{Parent: p[2], Name: "d" + p[1], Desc: "v1"}
		}
	case "mvd":
		if n, ok := m.D[p[1]]; ok && m.hasFolder(p[2]) {
			n.Parent = p[2]
			m.D[p[1]] = n
		}
	case "edd":
		if n, ok := m.D[p[1]]; ok {
			n.Name = toggled(n.Name, "d"+p[1])
			n.Desc = map[string]string{"v1": "v2", "v2": "v1"}[n.Desc]
			m.D[p[1]] = n
		}
	case "rmd":
		delete(m.D, p[1])
	case "restart":
	}
}

// enabled: operations offered in a state. Creation needs a free slot; the other operations are also offered on objects
// that do not exist (any more) and towards destinations that do not exist: they must change nothing.
func (m *treeModel) enabled(folders, dashes []string, renameF, editD map[string]bool, moveRename bool) []string {
	var out []string
	dests := append([]string{"root"}, folders...)
	for _, f := range folders {
		_, exists := m.F[f]
		for _, d := range dests {
			if d == f {
				continue
			}
			if !exists {
				if m.hasFolder(d) {
					out = append(out, "mkf:"+f+":"+d)
				}
				continue
			}
			out = append(out, "mvf:"+f+":"+d)
			if moveRename && renameF[f] {
				out = append(out, "mvrnf:"+f+":"+d)
			}
		}
		if exists && renameF[f] {
			out = append(out, "rnf:"+f)
		}
		out = append(out, "rmf:"+f)
	}
	for _, x := range dashes {
		_, exists := m.D[x]
		for _, d := range dests {
			if !exists {
				if m.hasFolder(d) {
					out = append(out, "mkd:"+x+":"+d)
				}
				continue
			}
			out = append(out, "mvd:"+x+":"+d)
		}
		if exists && editD[x] {
			out = append(out, "edd:"+x)
		}
		out = append(out, "rmd:"+x)
	}
	if len(m.F)+len(m.D) > 0 {
		out = append(out, "restart")
	}
	return out
}

type treeIDs struct {
	F, D map[string]string // slot → id of the latest object created for the slot (possibly deleted since)
}

const treeNoID = "00000000-0000-4000-8000-00000000dead"

func (ids *treeIDs) folder(slot string) string {
	if slot == "root" {
		return "root-folder"
	}
	if id, ok := ids.F[slot]; ok {
		return id
	}
	return treeNoID
}

func (ids *treeIDs) dash(slot string) string {
	if id, ok := ids.D[slot]; ok {
		return id
	}
	return treeNoID
}

// treeExec performs one operation through the HTTP API.
func treeExec(w *kernel.Worker, m *treeModel, ids *treeIDs, op string) (string, error) {
	p := strings.Split(op, ":")
	var r *httpRes
	var err error
	switch p[0] {
	case "mkf":
		r, err = httpCall(w, "query", "POST", "/api/dashboards/folders/create", fmt.Sprintf(`{"name":%s,"parentId":%s}`, jq("f"+p[1]), jq(ids.folder(p[2]))), kvJS)
		if err == nil && r.Status == 200 {
			var x struct {
				ID string `json:"id"`
			}
			_ = json.Unmarshal([]byte(r.Body), &x)
			if x.ID != "" {
				ids.F[p[1]] = x.ID
			}
		}
	case "mvf":
		r, err = httpCall(w, "query", "PUT", "/api/dashboards/folders/"+ids.folder(p[1]), fmt.Sprintf(`{"parentId":%s}`, jq(ids.folder(p[2]))), kvJS)
	case "mvrnf":
		name := "f" + p[1]
		if n, ok := m.F[p[1]]; ok {
			name = toggled(n.Name, "f"+p[1])
		}
		r, err = httpCall(w, "query", "PUT", "/api/dashboards/folders/"+ids.folder(p[1]), fmt.Sprintf(`{"name":%s,"parentId":%s}`, jq(name), jq(ids.folder(p[2]))), kvJS)
	case "rnf":
		r, err = httpCall(w, "query", "PUT", "/api/dashboards/folders/"+ids.folder(p[1]), fmt.Sprintf(`{"name":%s}`, jq(toggled(m.F[p[1]].Name, "f"+p[1]))), kvJS)
	case "rmf":
		r, err = httpCall(w, "query", "DELETE", "/api/dashboards/folders/"+ids.folder(p[1]), "", nil)
	case "mkd":
		r, err = httpCall(w, "query", "POST", "/api/dashboards/create", fmt.Sprintf(`{"name":%s,"description":"v1","parentId":%s}`, jq("d"+p[1]), jq(ids.folder(p[2]))), kvJS)
		if err == nil && r.Status == 200 {
			var x map[string]string
			_ = json.Unmarshal([]byte(r.Body), &x)
			for id := range x {
				ids.D[p[1]] = id
			}
		}
	case "mvd":
		n, ok := m.D[p[1]]
		if !ok {
			n = treeNode{Name: "d" + p[1], Desc: "v1"}
		}
		r, err = httpCall(w, "query", "POST", "/api/dashboards/update", fmt.Sprintf(`{"id":%s,"details":{"name":%s,"description":%s,"folder":{"id":%s}}}`,
			jq(ids.dash(p[1])), jq(n.Name), jq(n.Desc), jq(ids.folder(p[2]))), kvJS)
	case "edd":
		n := m.D[p[1]]
		r, err = httpCall(w, "query", "POST", "/api/dashboards/update", fmt.Sprintf(`{"id":%s,"details":{"name":%s,"description":%s}}`,
			jq(ids.dash(p[1])), jq(toggled(n.Name, "d"+p[1])), jq(map[string]string{"v1": "v2", "v2": "v1"}[n.Desc])), kvJS)
	case "rmd":
		r, err = httpCall(w, "query", "GET", "/api/dashboards/delete/"+ids.dash(p[1]), "", nil)
	}
	if err != nil {
		return "", err
	}
	if r == nil {
		return "", nil
	}
	return fmt.Sprintf("%d %s", r.Status, trunc(r.Body, 100)), nil
}

type folderContents struct {
	Folder struct {
		Name string `json:"name"`
	} `json:"folder"`
	Items []struct {
		ID         string `json:"id"`
		Name       string `json:"name"`
		Type       string `json:"type"`
		ChildCount int    `json:"childCount"`
		IsDefault  bool   `json:"isDefault"`
	} `json:"items"`
	Breadcrumbs []struct {
		ID   string `json:"id"`
		Name string `json:"name"`
	} `json:"breadcrumbs"`
}

// treeCompare reads everything back and compares it with the model.
func treeCompare(w *kernel.Worker, m *treeModel, ids *treeIDs, fs *Fails, ctx string, rep *kernel.Report) error {
	idName := func(id string) string { // readable name of an id
		for s, i := range ids.F {
			if i == id {
				return "folder " + s
			}
		}
		for s, i := range ids.D {
			if i == id {
				return "dashboard " + s
			}
		}
		return id
	}
	children := func(f string) (out []string, nf, nd int) {
		for s, n := range m.F {
			if n.Parent == f {
				cnt := 0
				for _, c := range m.F {
					if c.Parent == s {
						cnt++
					}
				}
				for _, c := range m.D {
					if c.Parent == s {
						cnt++
					}
				}
				out = append(out, fmt.Sprintf("folder %s name=%s children=%d", s, n.Name, cnt))
			}
		}
		for s, n := range m.D {
			if n.Parent == f {
				out = append(out, fmt.Sprintf("dashboard %s name=%s", s, n.Name))
			}
		}
		sort.Strings(out)
		for s := range m.F {
			if s != f && (f == "root" || m.under(s, f)) {
				nf++
			}
		}
		for _, n := range m.D {
			if f == "root" || m.under(n.Parent, f) {
				nd++
			}
		}
		return
	}
	path := func(f string) []string {
		var out []string
		for f != "root" {
			out = append([]string{m.F[f].Name}, out...)
			f = m.F[f].Parent
		}
		return out
	}
	slots := []string{"root"}
	for s := range m.F {
		slots = append(slots, s)
	}
	sort.Strings(slots)
	for _, f := range slots {
		r, err := httpCall(w, "query", "GET", "/api/dashboards/folders/"+ids.folder(f), "", nil)
		if err != nil {
			return err
		}
		rep.Eval(1)
		if r.Status != 200 {
			fs.Add("C20/tree/folder-unreadable", ctx+fmt.Sprintf(": folder %s exists, reading it answers %d %s", f, r.Status, trunc(r.Body, 150)))
			continue
		}
		var fc folderContents
		_ = json.Unmarshal([]byte(r.Body), &fc)
		var got []string
		for _, it := range fc.Items {
			if it.IsDefault {
				continue
			}
			if it.Type == "folder" {
				got = append(got, fmt.Sprintf("%s name=%s children=%d", idName(it.ID), it.Name, it.ChildCount))
			} else {
				got = append(got, fmt.Sprintf("%s name=%s", idName(it.ID), it.Name))
			}
		}
		sort.Strings(got)
		want, nf, nd := children(f)
		if fmt.Sprint(got) != fmt.Sprint(want) {
			fs.Add("C20/tree/folder-contents", ctx+fmt.Sprintf(": folder %s lists %v, last written state is %v", f, got, want))
		}
		if f != "root" {
			if fc.Folder.Name != m.F[f].Name {
				fs.Add("C20/tree/folder-name", ctx+fmt.Sprintf(": folder %s reads name %q, last written %q", f, fc.Folder.Name, m.F[f].Name))
			}
			var bc []string
			for _, b := range fc.Breadcrumbs {
				if b.ID != "root-folder" {
					bc = append(bc, b.Name)
				}
			}
			if fmt.Sprint(bc) != fmt.Sprint(path(f)) {
				fs.Add("C20/tree/folder-path", ctx+fmt.Sprintf(": folder %s reads path %v, its ancestors are %v", f, bc, path(f)))
			}
			c, err := httpCall(w, "query", "GET", "/api/dashboards/folders/"+ids.folder(f)+"/count", "", nil)
			if err != nil {
				return err
			}
			rep.Eval(1)
			var cnt struct{ Folders, Dashboards, Total int }
			_ = json.Unmarshal([]byte(c.Body), &cnt)
			if c.Status != 200 || cnt.Folders != nf || cnt.Dashboards != nd || cnt.Total != nf+nd {
				fs.Add("C20/tree/nested-count", ctx+fmt.Sprintf(": folder %s: nested count answers %d %s, the folder holds %d folders and %d dashboards", f, c.Status, trunc(c.Body, 100), nf, nd))
			}
		}
	}
	// folders that do not exist (any more) must not be readable
	for s, id := range ids.F {
		if _, ok := m.F[s]; ok {
			continue
		}
		r, err := httpCall(w, "query", "GET", "/api/dashboards/folders/"+id, "", nil)
		if err != nil {
			return err
		}
		rep.Eval(1)
		if r.Status == 200 {
			fs.Add("C20/tree/deleted-folder-readable", ctx+fmt.Sprintf(": folder %s was deleted, reading it answers %d %s", s, r.Status, trunc(r.Body, 150)))
		}
	}
	for s, id := range ids.D {
		r, err := httpCall(w, "query", "GET", "/api/dashboards/"+id, "", nil)
		if err != nil {
			return err
		}
		rep.Eval(1)
		n, ok := m.D[s]
		if !ok {
			if r.Status == 200 {
				fs.Add("C20/tree/deleted-dashboard-readable", ctx+fmt.Sprintf(": dashboard %s was deleted, reading it answers %d %s", s, r.Status, trunc(r.Body, 150)))
			}
			continue
		}
		if r.Status != 200 {
			fs.Add("C20/tree/dashboard-unreadable", ctx+fmt.Sprintf(": dashboard %s exists, reading it answers %d %s", s, r.Status, trunc(r.Body, 150)))
			continue
		}
		var d struct {
			Name        string `json:"name"`
			Description string `json:"description"`
			Folder      struct {
				ID   string `json:"id"`
				Path string `json:"path"`
			} `json:"folder"`
		}
		_ = json.Unmarshal([]byte(r.Body), &d)
		if d.Name != n.Name || d.Description != n.Desc {
			fs.Add("C20/tree/dashboard-value", ctx+fmt.Sprintf(": dashboard %s reads name=%q description=%q, last written name=%q description=%q", s, d.Name, d.Description, n.Name, n.Desc))
		}
		if d.Folder.ID != ids.folder(n.Parent) || d.Folder.Path != strings.Join(path(n.Parent), "/") {
			fs.Add("C20/tree/dashboard-folder", ctx+fmt.Sprintf(": dashboard %s reads folder %s path %q, it is in folder %s path %q", s, idName(d.Folder.ID), d.Folder.Path, n.Parent, strings.Join(path(n.Parent), "/")))
		}
	}
	// flat list
	r, err := httpCall(w, "query", "GET", "/api/dashboards/list", "", nil)
	if err != nil {
		return err
	}
	rep.Eval(1)
	var lst struct {
		Items []struct {
			ID       string `json:"id"`
			Name     string `json:"name"`
			Type     string `json:"type"`
			ParentID string `json:"parentId"`
			FullPath string `json:"fullPath"`
		} `json:"items"`
	}
	_ = json.Unmarshal([]byte(r.Body), &lst)
	known := map[string]bool{}
	for _, id := range ids.F {
		known[id] = true
	}
	for _, id := range ids.D {
		known[id] = true
	}
	var got, want []string
	for _, it := range lst.Items {
		if !known[it.ID] {
			continue // default objects
		}
		got = append(got, fmt.Sprintf("%s name=%s in %s path=%s", idName(it.ID), it.Name, idName(it.ParentID), it.FullPath))
	}
	for s, n := range m.F {
		want = append(want, fmt.Sprintf("folder %s name=%s in %s path=%s", s, n.Name, idName(ids.folder(n.Parent)), strings.Join(path(s), "/")))
	}
	for s, n := range m.D {
		want = append(want, fmt.Sprintf("dashboard %s name=%s in %s path=%s", s, n.Name, idName(ids.folder(n.Parent)), strings.Join(append(path(n.Parent), n.Name), "/")))
	}
	sort.Strings(got)
	sort.Strings(want)
	if fmt.Sprint(got) != fmt.Sprint(want) {
		fs.Add("C20/tree/list", ctx+fmt.Sprintf(": the list of all items is %v, last written state is %v", got, want))
	}
	return nil
}

// treeClean empties the store (everything below the root that is not a default object).
func treeClean(w *kernel.Worker) (string, error) {
	for pass := 0; pass < 3; pass++ {
		r, err := httpCall(w, "query", "GET", "/api/dashboards/folders/root-folder", "", nil)
		if err != nil {
			return "", err
		}
		var fc folderContents
		_ = json.Unmarshal([]byte(r.Body), &fc)
		left := 0
		for _, it := range fc.Items {
			if it.IsDefault {
				continue
			}
			left++
			if it.Type == "folder" {
				_, err = httpCall(w, "query", "DELETE", "/api/dashboards/folders/"+it.ID, "", nil)
			} else {
				_, err = httpCall(w, "query", "GET", "/api/dashboards/delete/"+it.ID, "", nil)
			}
			if err != nil {
				return "", err
			}
		}
		if left == 0 {
			return "", nil
		}
	}
	return "objects below the root survive their deletion", nil
}

func c20TreeRun(w0 *kernel.Worker, j *c20TreeJob, rep *kernel.Report) (*Fail, error) {
	w := w0
	defer func() {
		if w != w0 {
			w.Close()
		}
	}()
	die := func(err error) (*Fail, error) {
		fp, what, herr := diedResult("C20", err)
		if herr != nil {
			return nil, herr
		}
		return &Fail{FP: fp + "/tree", What: fmt.Sprintf("path %v, operation %s: %s", j.Path, j.Op, what)}, nil
	}
	if msg, err := treeClean(w); err != nil {
		return die(err)
	} else if msg != "" {
		return &Fail{FP: "C20/tree/cleanup", What: msg}, nil
	}
	m := newTreeModel()
	ids := &treeIDs{F: map[string]string{}, D: map[string]string{}}
	var resp string
	for i, op := range append(append([]string{}, j.Path...), j.Op) {
		if op == "restart" {
			nw, rerr := restartWorker(w)
			if rerr != nil {
				return &Fail{FP: "C20/tree/restart-failed", What: rerr.Error()}, nil
			}
			if w != w0 {
				w.Close()
			}
			w = nw
			resp = "restarted"
		} else {
			var err error
			if resp, err = treeExec(w, m, ids, op); err != nil {
				return die(err)
			}
		}
		m.apply(op)
		rep.Transition(1)
		_ = i
	}
	fs := &Fails{}
	ctx := fmt.Sprintf("dashboards and folders: after %v then %s (response %q)", j.Path, j.Op, resp)
	if err := treeCompare(w, m, ids, fs, ctx, rep); err != nil {
		return die(err)
	}
	rep.Outcome("tree:" + strings.Split(j.Op, ":")[0] + ":" + strings.SplitN(resp+" ", " ", 2)[0])
	if w != w0 && !w.Dead() {
		_, _ = treeClean(w)
	}
	return fs.Result(), nil
}

// c20TreeTransitions: BFS over the model; every transition (also those into known states) is returned with the shortest
// path to its source state.
func c20TreeTransitions(folders, dashes []string, renameF, editD map[string]bool, moveRename bool, maxDepth int) (jobs []c20TreeJob, states int, complete bool) {
	type node struct {
		m    *treeModel
		path []string
	}
	start := node{newTreeModel(), nil}
	seen := map[string]bool{start.m.canon(): true}
	frontier := []node{start}
	for d := 0; len(frontier) > 0 && d < maxDepth; d++ {
		var next []node
		for _, n := range frontier {
			for _, o := range n.m.enabled(folders, dashes, renameF, editD, moveRename) {
				jobs = append(jobs, c20TreeJob{Tree: true, Path: n.path, Op: o})
				nm := n.m.clone()
				nm.apply(o)
				if k := nm.canon(); !seen[k] {
					seen[k] = true
					next = append(next, node{nm, append(append([]string{}, n.path...), o)})
				}
			}
		}
		frontier = next
	}
	return jobs, len(seen), len(frontier) == 0
}

func c20Tree(rep *kernel.Report, budget *kernel.Budget) {
	folders, dashes := []string{"a", "b", "c"}, []string{"x"}
	renameF, editD := map[string]bool{"a": true}, map[string]bool{"x": true}
	moveRename := true
	depth := 64 // more than the diameter of the model: the search ends when no new state is found
	if rep.Tier == "thorough" {
		dashes = []string{"x", "y"}
		renameF, editD = map[string]bool{"a": true, "b": true}, map[string]bool{"x": true, "y": true}
	}
	jobs, states, complete := c20TreeTransitions(folders, dashes, renameF, editD, moveRename, depth)
	d := &Driver[c20TreeJob]{Rep: rep, Pool: serverPool(), Budget: budget,
		Enumerate: func(emit func(c20TreeJob)) {
			for _, j := range jobs {
				emit(j)
			}
		},
		Run: c20TreeRun,
		Key: func(j *c20TreeJob) string { return "tree|" + strings.Join(j.Path, ",") + "|" + j.Op },
		Nontrivial: func(j *c20TreeJob) bool {
			return len(j.Path) >= 2
		},
	}
	d.Drive()
	rep.Set("tree_model_states", states)
	rep.Set("tree_model_transitions", len(jobs))
	rep.Set("tree_all_reachable_states_expanded", complete)
	rep.Set("tree_alphabet", map[string]interface{}{"folders": folders, "dashboards": dashes, "folders_renamed": renameF, "dashboards_edited": editD, "move_and_rename_in_one_request": moveRename, "bfs_depth": depth})
}
