package props

import (
	"fmt"
	"sync/atomic"

	"verif/harness/kernel"
)

// Shared by the query-side log checks (C02–C05, C17b): a dataset is a list of JSON events with ids e0..;
// a layout says what happens after each event (0 nothing, 1 flush, 2 flush+rotate).

type Layout struct {
	Name   string `json:"name"`
	Bounds []int  `json:"bounds"`
}

// StdLayouts: one open block; one block per event; one rotated segment; two rotated segments; rotated + open.
func StdLayouts(n int) []Layout {
	mk := func(name string, f func(i int) int) Layout {
		b := make([]int, n)
		for i := range b {
			b[i] = f(i)
		}
		return Layout{name, b}
	}
	mid := n/2 - 1
	if mid < 0 {
		mid = 0
	}
	last := n - 1
	return []Layout{
		mk("open-1block", func(i int) int {
			if i == last {
				return 1
			}
			return 0
		}),
		mk("open-block-per-event", func(i int) int { return 1 }),
		mk("rotated-1seg", func(i int) int {
			if i == last {
				return 2
			}
			return 0
		}),
		mk("rotated-2seg", func(i int) int {
			if i == last || i == mid {
				return 2
			}
			return 0
		}),
		mk("rotated+open", func(i int) int {
			if i == mid {
				return 2
			}
			if i == last {
				return 1
			}
			return 0
		}),
	}
}

// AllLayouts enumerates every boundary placement for n events (last ≥ flush): 2·3^(n-1).
func AllLayouts(n int) []Layout {
	var out []Layout
	var rec func(i int, cur []int)
	rec = func(i int, cur []int) {
		if i == n {
			out = append(out, Layout{fmt.Sprint(cur), append([]int{}, cur...)})
			return
		}
		lo := 0
		if i == n-1 {
			lo = 1
		}
		for b := lo; b <= 2; b++ {
			rec(i+1, append(cur, b))
		}
	}
	rec(0, nil)
	return out
}

var dsSeq int64

// LoadDataset ingests events into a fresh index with the given layout and returns the index name.
func LoadDataset(w *kernel.Worker, tag string, events []string, lay Layout, rep *kernel.Report) (string, error) {
	return LoadDatasetWith(w, tag, events, lay, rep, nil)
}

// LoadDatasetWith: pre runs once the index name is known, before the first event is ingested.
func LoadDatasetWith(w *kernel.Worker, tag string, events []string, lay Layout, rep *kernel.Report, pre func(idx string) error) (string, error) {
	idx := fmt.Sprintf("%s%d", tag, atomic.AddInt64(&dsSeq, 1))
	if pre != nil {
		if err := pre(idx); err != nil {
			return idx, err
		}
	}
	for i, ev := range events {
		if err := ingestStep(w, 0, idx, []string{ev}); err != nil {
			return idx, err
		}
		rep.Transition(1)
		switch lay.Bounds[i] {
		case 1:
			if err := w.Call("flush", nil, nil); err != nil {
				return idx, err
			}
			rep.Transition(1)
		case 2:
			if err := w.Call("rotate", nil, nil); err != nil {
				return idx, err
			}
			rep.Transition(1)
		}
	}
	return idx, nil
}

// IDSet extracts the set of event ids of a record answer; dup reports an id returned twice.
func IDSet(r *QRes) (ids map[string]bool, dup string) {
	ids = map[string]bool{}
	for _, rec := range r.Records {
		id, _ := rec["id"].(string)
		if ids[id] {
			dup = id
		}
		ids[id] = true
	}
	return
}

func setStr(m map[string]bool) string {
	return fmt.Sprint(sortedKeys(m))
}

func setEq(a, b map[string]bool) bool {
	if len(a) != len(b) {
		return false
	}
	for k := range a {
		if !b[k] {
			return false
		}
	}
	return true
}

// diedResult converts a worker death into (fingerprint, what); other errors are harness errors.
func diedResult(prop string, err error) (fp, what string, herr error) {
	if d, ok := err.(*kernel.Died); ok {
		if d.Timeout {
			return prop + "/no-answer", "no answer within the job deadline\n" + tailStr(d.Stderr, 1200), nil
		}
		return prop + "/worker-died/" + d.Frame, d.Exit + "\n" + trunc(d.Stderr, 3500), nil
	}
	return "", "", err
}
