package props

import (
	"encoding/json"
	"fmt"

	"verif/harness/kernel"
)

// Fail is one oracle failure of one case: a fingerprint (property/clause/class) and a human explanation.
type Fail struct {
	FP, What string
	More     []*Fail // further failures of the same case (distinct fingerprints)
}

func (f *Fail) all() []*Fail {
	if f == nil {
		return nil
	}
	out := []*Fail{f}
	seen := map[string]bool{f.FP: true}
	for _, m := range f.More {
		if !seen[m.FP] {
			seen[m.FP] = true
			out = append(out, m)
		}
	}
	return out
}

// Fails collects failures of one case.
type Fails struct{ list []*Fail }

func (fs *Fails) Add(fp, what string) {
	for _, f := range fs.list {
		if f.FP == fp {
			return
		}
	}
	fs.list = append(fs.list, &Fail{FP: fp, What: what})
}
func (fs *Fails) Result() *Fail {
	if len(fs.list) == 0 {
		return nil
	}
	f := fs.list[0]
	f.More = fs.list[1:]
	return f
}

type Driver[J any] struct {
	Rep       *kernel.Report
	Pool      *kernel.Pool
	Budget    *kernel.Budget
	Enumerate func(emit func(J))
	// Run executes one case on a worker. Worker death must be turned into a Fail by the callee (diedResult).
	Run func(w *kernel.Worker, j *J, rep *kernel.Report) (*Fail, error)
	// Key identifies a case (state key); Nontrivial applies the property's rule.
	Key        func(j *J) string
	Nontrivial func(j *J) bool
	Confirm    int // fresh-worker re-runs needed before a failure is reported (default 2)
}

// Drive runs every enumerated case, confirms failures in fresh workers and records coverage.
func (d *Driver[J]) Drive() {
	rep := d.Rep
	confirm := d.Confirm
	if confirm == 0 {
		confirm = 2
	}
	jobs := make(chan J, 256)
	var total, skipped int64
	go func() {
		d.Enumerate(func(j J) {
			total++
			if d.Budget != nil && d.Budget.Exceeded() {
				skipped++
				return
			}
			jobs <- j
		})
		close(jobs)
	}()
	var seq int64
	err := kernel.RunPool(d.Pool, jobs, func(w *kernel.Worker, j J) error {
		res, err := d.Run(w, &j, rep)
		if err != nil {
			return err
		}
		rep.Trace(1)
		k := d.Key(&j)
		rep.State(k)
		if d.Nontrivial == nil || d.Nontrivial(&j) {
			rep.Nontrivial(k)
		}
		rep.Lock()
		n := seq
		seq++
		rep.Unlock()
		rep.SampleAt(n, func() interface{} { return j })
		if res == nil {
			rep.Outcome("ok")
			return nil
		}
		var pending []*Fail
		for _, f := range res.all() {
			rep.Outcome(f.FP)
			if !rep.SeenViolation(f.FP) {
				pending = append(pending, f)
			}
		}
		if len(pending) == 0 {
			return nil
		}
		for i := 0; i < confirm && len(pending) > 0; i++ {
			fw, err := d.Pool.BootWorker()
			if err != nil {
				return err
			}
			r2, err := d.Run(fw, &j, rep)
			fw.Close()
			if err != nil {
				return err
			}
			got := map[string]bool{}
			for _, f := range r2.all() {
				got[f.FP] = true
			}
			var still []*Fail
			for _, f := range pending {
				if got[f.FP] {
					still = append(still, f)
				} else {
					rep.Unreproduced(fmt.Sprintf("%s: %s (isolated re-run gave %v)", f.FP, trunc(f.What, 300), sortedKeys(got)))
				}
			}
			pending = still
		}
		for _, f := range pending {
			rep.Violation(f.FP, f.What, j)
		}
		return nil
	})
	if err != nil {
		rep.HarnessError(err.Error())
	}
	rep.Bounds["cases_total"] = total
	if skipped > 0 {
		rep.Cap(fmt.Sprintf("time budget: %d of %d cases not run", skipped, total))
	}
}

func trunc(s string, n int) string {
	if len(s) > n {
		return s[:n] + "…"
	}
	return s
}

// MakeReplayer builds the standard replayer: decode the case, run it once in a fresh worker.
func MakeReplayer[J any](prop, level string, pool func() *kernel.Pool, run func(w *kernel.Worker, j *J, rep *kernel.Report) (*Fail, error)) func(json.RawMessage) int {
	return func(doc json.RawMessage) int {
		var j J
		if err := json.Unmarshal(doc, &j); err != nil {
			fmt.Println("HARNESS-ERROR", err)
			return 2
		}
		w, err := pool().BootWorker()
		if err != nil {
			fmt.Println("HARNESS-ERROR", err)
			return 2
		}
		defer w.Close()
		res, err := run(w, &j, kernel.NewReport(prop, level))
		if err != nil {
			fmt.Println("HARNESS-ERROR", err)
			return 2
		}
		if res == nil {
			fmt.Println("replay: property held")
			return 0
		}
		// the recorded fingerprint first if this execution shows it again, then everything else it shows
		for _, f := range res.all() {
			fmt.Printf("replay: %s\n  %s\n", f.FP, f.What)
		}
		return 1
	}
}

func logPool() *kernel.Pool {
	off := false
	return &kernel.Pool{Boot: map[string]interface{}{"pqs": &off}, RecycleEvery: 300}
}
