package props

import (
	"encoding/json"
	"fmt"

	"verif/harness/kernel"
)

// QRes mirrors sim.QueryRes on the coordinator side (numbers kept exact).
type QRes struct {
	Records      []map[string]interface{} `json:"records"`
	Total        interface{}              `json:"total"`
	Measure      []QBucket                `json:"measure"`
	GroupByCols  []string                 `json:"groupByCols"`
	MeasureFuncs []string                 `json:"measureFunctions"`
	AllColumns   []string                 `json:"allColumns"`
	ColumnsOrder []string                 `json:"columnsOrder"`
	Errors       []string                 `json:"errors"`
	Qtype        string                   `json:"qtype"`
	Err          string                   `json:"err"`
	ScrollMax    bool                     `json:"scrollMax"`
	BucketCount  int                      `json:"bucketCount"`
	Nil          bool                     `json:"nil"`
}

type QBucket struct {
	G []string               `json:"g"`
	M map[string]interface{} `json:"m"`
}

type Q struct {
	Org   int64  `json:"org"`
	Index string `json:"index"`
	Text  string `json:"text"`
	Lang  string `json:"lang,omitempty"`
	Start int64  `json:"start"`
	End   int64  `json:"end"`
	Size  int    `json:"size,omitempty"`
	From  int    `json:"from,omitempty"`
	Nulls bool   `json:"nulls,omitempty"`
}

func (r *QRes) TotalValue() (int64, bool) {
	m, ok := r.Total.(map[string]interface{})
	if !ok {
		return ObsInt(r.Total)
	}
	return ObsInt(m["value"])
}

// Step of a log history.
type Step struct {
	Op     string   `json:"op"` // ingest | flush | rotate
	Events []string `json:"events,omitempty"`
	Index  string   `json:"index,omitempty"` // logical index name inside the history ("" = default)
}

func ingestStep(w *kernel.Worker, org int64, index string, events []string) error {
	evs := make([]json.RawMessage, len(events))
	for i, e := range events {
		evs[i] = json.RawMessage(e)
	}
	var statuses []map[string]interface{}
	if err := w.Call("ingest", map[string]interface{}{"org": org, "index": index, "events": evs}, &statuses); err != nil {
		return err
	}
	return nil
}

func runQuery(w *kernel.Worker, q Q) (*QRes, error) {
	var r QRes
	if err := w.Call("query", q, &r); err != nil {
		return nil, err
	}
	return &r, nil
}

func runQueries(w *kernel.Worker, qs []Q) ([]*QRes, error) {
	var r []*QRes
	if err := w.Call("queries", qs, &r); err != nil {
		return nil, err
	}
	if len(r) != len(qs) {
		return nil, fmt.Errorf("HARNESS protocol: %d answers for %d queries", len(r), len(qs))
	}
	return r, nil
}

func setTun(w *kernel.Worker, name string, v float64) error {
	return w.Call("tun", map[string]interface{}{"name": name, "value": v}, nil)
}

// setProcs sets GOMAXPROCS of the worker and returns the previous value.
func setProcs(w *kernel.Worker, n int) (int, error) {
	var r struct {
		Prev int `json:"prev"`
	}
	err := w.Call("tun", map[string]interface{}{"name": "gomaxprocs", "value": float64(n)}, &r)
	return r.Prev, err
}

func delIndex(w *kernel.Worker, org int64, index string) error {
	return w.Call("delindex", map[string]interface{}{"org": org, "index": index}, nil)
}

func jstr(v interface{}) string {
	b, _ := json.Marshal(v)
	return string(b)
}
