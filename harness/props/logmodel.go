package props

import (
	"bytes"
	"encoding/json"
	"fmt"
	"math"
	"sort"
	"strconv"
	"strings"
)

const T0 = int64(1_700_000_000_000)

// MVal is a flattened model value.
type MVal struct {
	Kind string // int | float | str | bool
	I    int64
	F    float64
	S    string
	B    bool
}

func (v MVal) String() string {
	switch v.Kind {
	case "int":
		return strconv.FormatInt(v.I, 10)
	case "float":
		return strconv.FormatFloat(v.F, 'g', -1, 64)
	case "str":
		return strconv.Quote(v.S)
	case "bool":
		return strconv.FormatBool(v.B)
	}
	return "?"
}

func (v MVal) IsNum() bool { return v.Kind == "int" || v.Kind == "float" }
func (v MVal) Float() float64 {
	if v.Kind == "int" {
		return float64(v.I)
	}
	return v.F
}

// MEvent is the reference model of one stored event: flattened column -> candidate values.
// More than one candidate only arises when one JSON document produces the same flattened name twice.
type MEvent struct {
	TS   int64
	Cols map[string][]MVal
	Raw  string
}

// Flatten applies the engine's documented flattening rules (a.b for nesting, arr.0 for arrays; a JSON number is
// int64 when it parses as one, else float64; explicit null = absent).
func Flatten(raw string, tsKey string) (*MEvent, error) {
	d := json.NewDecoder(strings.NewReader(raw))
	d.UseNumber()
	ev := &MEvent{Cols: map[string][]MVal{}, Raw: raw}
	tok, err := d.Token()
	if err != nil {
		return nil, err
	}
	if tok != json.Delim('{') {
		return nil, fmt.Errorf("not an object")
	}
	if err := flattenObj(d, "", ev, tsKey); err != nil {
		return nil, err
	}
	return ev, nil
}

func flattenObj(d *json.Decoder, prefix string, ev *MEvent, tsKey string) error {
	for d.More() {
		kt, err := d.Token()
		if err != nil {
			return err
		}
		k := kt.(string)
		name := k
		if prefix != "" {
			name = prefix + "." + k
		}
		if err := flattenVal(d, name, ev, tsKey); err != nil {
			return err
		}
	}
	_, err := d.Token() // }
	return err
}

func flattenVal(d *json.Decoder, name string, ev *MEvent, tsKey string) error {
	t, err := d.Token()
	if err != nil {
		return err
	}
	switch v := t.(type) {
	case json.Delim:
		if v == '{' {
			return flattenObj(d, name, ev, tsKey)
		}
		i := 0
		for d.More() {
			if err := flattenVal(d, fmt.Sprintf("%s.%d", name, i), ev, tsKey); err != nil {
				return err
			}
			i++
		}
		_, err := d.Token()
		return err
	case string:
		if name == tsKey {
			return nil
		}
		ev.Cols[name] = append(ev.Cols[name], MVal{Kind: "str", S: v})
	case json.Number:
		mv := numVal(string(v))
		if name == tsKey {
			ev.TS = int64(mv.Float())
			if mv.Kind == "int" {
				ev.TS = mv.I
			}
			return nil
		}
		ev.Cols[name] = append(ev.Cols[name], mv)
	case bool:
		if name == tsKey {
			return nil
		}
		ev.Cols[name] = append(ev.Cols[name], MVal{Kind: "bool", B: v})
	case nil:
		// explicit null == absent
	}
	return nil
}

func numVal(text string) MVal {
	if i, err := strconv.ParseInt(text, 10, 64); err == nil {
		return MVal{Kind: "int", I: i}
	}
	f, _ := strconv.ParseFloat(text, 64)
	return MVal{Kind: "float", F: f}
}

// MatchObserved: does the JSON value returned by the engine carry model value v?
// textOK: the column also holds a non-numeric string in the same index, so a number may come back as decimal text.
func MatchObserved(v MVal, obs interface{}, textOK bool) bool {
	if textOK {
		return matchByText(v, obs)
	}
	switch o := obs.(type) {
	case json.Number:
		if !v.IsNum() {
			return false
		}
		return numTextEquals(v, string(o))
	case string:
		switch v.Kind {
		case "str":
			return o == v.S
		case "int", "float":
			return textOK && numTextEquals(v, o)
		}
		return false
	case bool:
		return v.Kind == "bool" && v.B == o
	case float64:
		return v.IsNum() && v.Float() == o
	}
	return false
}

func numTextEquals(v MVal, text string) bool {
	if v.Kind == "int" {
		if i, err := strconv.ParseInt(text, 10, 64); err == nil {
			return i == v.I
		}
		f, err := strconv.ParseFloat(text, 64)
		if err != nil {
			return false
		}
		// integer-valued float text is accepted only where float64 represents the integer exactly
		return f == float64(v.I) && math.Abs(f) < (1<<53)
	}
	f, err := strconv.ParseFloat(text, 64)
	if err != nil {
		return false
	}
	return f == v.F
}

// DecodeNum decodes JSON keeping numbers exact.
func DecodeNum(b []byte, out interface{}) error {
	d := json.NewDecoder(bytes.NewReader(b))
	d.UseNumber()
	return d.Decode(out)
}

func sortedKeys[V any](m map[string]V) []string {
	ks := make([]string, 0, len(m))
	for k := range m {
		ks = append(ks, k)
	}
	sort.Strings(ks)
	return ks
}

// ObsInt extracts an integer from an observed JSON value (json.Number, float64, numeric string).
func ObsInt(o interface{}) (int64, bool) {
	switch x := o.(type) {
	case json.Number:
		if i, err := x.Int64(); err == nil {
			return i, true
		}
		if f, err := x.Float64(); err == nil && f == math.Trunc(f) {
			return int64(f), true
		}
	case float64:
		if x == math.Trunc(x) {
			return int64(x), true
		}
	case string:
		if i, err := strconv.ParseInt(x, 10, 64); err == nil {
			return i, true
		}
	}
	return 0, false
}

func ObsFloat(o interface{}) (float64, bool) {
	switch x := o.(type) {
	case json.Number:
		f, err := x.Float64()
		return f, err == nil
	case float64:
		return x, true
	case string:
		f, err := strconv.ParseFloat(x, 64)
		return f, err == nil
	}
	return 0, false
}

// matchByText: representation-insensitive comparison for mixed columns — equal canonical text, or both numeric
// and numerically equal. A different value is never accepted.
func matchByText(v MVal, obs interface{}) bool {
	var ot string
	switch o := obs.(type) {
	case json.Number:
		ot = string(o)
	case string:
		ot = o
	case bool:
		ot = strconv.FormatBool(o)
	case float64:
		ot = strconv.FormatFloat(o, 'g', -1, 64)
	default:
		return false
	}
	switch v.Kind {
	case "int", "float":
		return numTextEquals(v, ot)
	case "bool":
		return ot == strconv.FormatBool(v.B)
	case "str":
		if ot == v.S {
			return true
		}
		// numeric string re-parsed as a number: accept only the same numeric value
		fs, err1 := strconv.ParseFloat(v.S, 64)
		fo, err2 := strconv.ParseFloat(ot, 64)
		return err1 == nil && err2 == nil && fs == fo
	}
	return false
}
