package props

import (
	"encoding/json"
	"fmt"
	"math"
	"net/url"
	"sort"
	"strconv"
	"strings"

	"verif/harness/kernel"
)

// Shared metrics harness (C08 e2e, C09): workers boot the whole server; datapoints go in through the OpenTSDB put
// endpoint and selectors/aggregations are read back through the Prometheus range-query endpoint.

const MT0 = uint32(1_700_000_000)

type MSeries struct {
	Name string            `json:"name"`
	Tags map[string]string `json:"tags"`
}

func (s MSeries) Key() string {
	var parts []string
	for _, k := range sortedKeys(s.Tags) {
		parts = append(parts, k+"="+s.Tags[k])
	}
	return s.Name + "{" + strings.Join(parts, ",") + "}"
}

func (s MSeries) Selector() string {
	var parts []string
	for _, k := range sortedKeys(s.Tags) {
		parts = append(parts, fmt.Sprintf(`%s=%q`, k, s.Tags[k]))
	}
	if len(parts) == 0 {
		return s.Name
	}
	return s.Name + "{" + strings.Join(parts, ",") + "}"
}

type MPoint struct {
	TS   uint32 `json:"ts"`
	Bits uint64 `json:"bits"`
}

func serverPool() *kernel.Pool {
	return &kernel.Pool{Boot: map[string]interface{}{"server": true}, RecycleEvery: 150}
}

type httpRes struct {
	Status       int    `json:"status"`
	Body         string `json:"body"`
	TransportErr string `json:"transportErr"`
}

func httpCall(w *kernel.Worker, server, method, path, body string, headers map[string]string) (*httpRes, error) {
	var r httpRes
	err := w.Call("http", map[string]interface{}{"server": server, "method": method, "path": path, "body": body, "headers": headers}, &r)
	return &r, err
}

func fmtFloatJSON(f float64) string {
	if f == 0 && math.Signbit(f) {
		return "-0.0"
	}
	return strconv.FormatFloat(f, 'g', -1, 64)
}

// mPut sends one datapoint through /otsdb/api/put; accepted tells whether the server counted it as stored.
func mPut(w *kernel.Worker, s MSeries, ts uint32, v float64) (accepted bool, raw string, err error) {
	tags, _ := json.Marshal(s.Tags)
	body := fmt.Sprintf(`[{"metric":%q,"tags":%s,"timestamp":%d,"value":%s}]`, s.Name, tags, ts, fmtFloatJSON(v))
	r, err := httpCall(w, "ingest", "POST", "/otsdb/api/put", body, map[string]string{"Content-Type": "application/json"})
	if err != nil {
		return false, "", err
	}
	var pr struct {
		Failed  int `json:"failed"`
		Success int `json:"success"`
	}
	_ = json.Unmarshal([]byte(r.Body), &pr)
	return r.Status == 200 && pr.Success == 1 && pr.Failed == 0, r.Body, nil
}

type MResultSeries struct {
	Labels map[string]string
	Points []MPoint
	Raw    [][2]string
}

// mQueryRange runs a PromQL range query (1 s step) and decodes the matrix.
func mQueryRange(w *kernel.Worker, q string, start, end uint32) (series []MResultSeries, status string, raw string, err error) {
	path := fmt.Sprintf("/promql/api/v1/query_range?query=%s&start=%d&end=%d&step=1", url.QueryEscape(q), start, end)
	r, err := httpCall(w, "query", "GET", path, "", nil)
	if err != nil {
		return nil, "", "", err
	}
	var pr struct {
		Status string `json:"status"`
		Error  string `json:"error"`
		Data   struct {
			Result []struct {
				Metric map[string]string `json:"metric"`
				Values [][]interface{}   `json:"values"`
			} `json:"result"`
		} `json:"data"`
	}
	if e := DecodeNum([]byte(r.Body), &pr); e != nil {
		return nil, fmt.Sprintf("http %d undecodable", r.Status), r.Body, nil
	}
	if r.Status != 200 || pr.Status != "success" {
		return nil, fmt.Sprintf("http %d %s %s", r.Status, pr.Status, pr.Error), r.Body, nil
	}
	for _, rs := range pr.Data.Result {
		ms := MResultSeries{Labels: rs.Metric}
		for _, v := range rs.Values {
			if len(v) != 2 {
				continue
			}
			tsI, _ := ObsInt(v[0])
			vs, _ := v[1].(string)
			f, perr := strconv.ParseFloat(vs, 64)
			if perr != nil {
				f = math.NaN()
			}
			ms.Points = append(ms.Points, MPoint{uint32(tsI), math.Float64bits(f)})
			ms.Raw = append(ms.Raw, [2]string{fmt.Sprint(v[0]), vs})
		}
		sort.Slice(ms.Points, func(a, b int) bool { return ms.Points[a].TS < ms.Points[b].TS })
		series = append(series, ms)
	}
	return series, "ok", r.Body, nil
}

func labelsKey(l map[string]string) string {
	name := l["__name__"]
	var parts []string
	for _, k := range sortedKeys(l) {
		if k == "__name__" {
			continue
		}
		parts = append(parts, k+"="+l[k])
	}
	return name + "{" + strings.Join(parts, ",") + "}"
}
