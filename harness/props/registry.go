// Package props holds one driver per property: alphabet, reference model, oracle, non-triviality rule.
package props

import (
	"encoding/json"
	"fmt"
	"os"

	"verif/harness/kernel"
)

var Registry = map[string]func() int{}

// Replayers re-execute a replay document of a property; exit 1 iff it still fails.
var Replayers = map[string]func(doc json.RawMessage) int{}

func Replay(path string) int {
	b, err := os.ReadFile(path)
	if err != nil {
		fmt.Println("HARNESS-ERROR", err)
		return 2
	}
	var d struct {
		Property string          `json:"property"`
		Replay   json.RawMessage `json:"replay"`
	}
	if err := json.Unmarshal(b, &d); err != nil {
		fmt.Println("HARNESS-ERROR", err)
		return 2
	}
	f, ok := Replayers[d.Property]
	if !ok {
		fmt.Println("HARNESS-ERROR no replayer for", d.Property)
		return 2
	}
	return f(d.Replay)
}

func Probe(args []string) int {
	p := &kernel.Pool{N: 1, Boot: map[string]interface{}{}}
	w, err := p.BootWorker()
	if err != nil {
		fmt.Println(err)
		return 2
	}
	defer w.Close()
	var res json.RawMessage
	T0 := int64(1700000000000)
	evs := []json.RawMessage{
		json.RawMessage(fmt.Sprintf(`{"timestamp":%d,"a":1,"b":"x"}`, T0)),
		json.RawMessage(fmt.Sprintf(`{"timestamp":%d,"a":"str","n":{"k":2.5}}`, T0+1)),
	}
	fmt.Println(w.Call("ingest", map[string]interface{}{"org": 0, "index": "p1", "events": evs}, &res), string(res))
	fmt.Println(w.Call("flush", nil, nil))
	q := map[string]interface{}{"org": 0, "index": "p1", "text": "*", "start": T0 - 1, "end": T0 + 1000, "size": 100}
	fmt.Println(w.Call("query", q, &res), string(res))
	fmt.Println(w.Call("rotate", nil, nil))
	fmt.Println(w.Call("query", q, &res), string(res))
	q["text"] = "* | stats count by a"
	fmt.Println(w.Call("query", q, &res), string(res))
	return 0
}
