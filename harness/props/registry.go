// Package props holds one driver per property: alphabet, reference model, oracle, non-triviality rule.
package props

import (
	"encoding/json"
	"fmt"
	"os"

	"verif/harness/kernel"
)

var Registry = map[string]func() int{}

// Replayers re-execute a replay document of a property; exit 1 iff it still fails.
var Replayers = map[string]func(doc json.RawMessage) int{}

func Replay(path string) int {
	b, err := os.ReadFile(path)
	if err != nil {
		fmt.Println("HARNESS-ERROR", err)
		return 2
	}
	var d struct {
		Property string          `json:"property"`
		Replay   json.RawMessage `json:"replay"`
	}
	if err := json.Unmarshal(b, &d); err != nil {
		fmt.Println("HARNESS-ERROR", err)
		return 2
	}
	f, ok := Replayers[d.Property]
	if !ok {
		fmt.Println("HARNESS-ERROR no replayer for", d.Property)
		return 2
	}
	return f(d.Replay)
}

// Probe runs a JSON script of worker operations ([{"op":..,"args":..},..]) in one fresh worker and prints each answer.
func Probe(args []string) int {
	if len(args) < 1 {
		fmt.Println("usage: probe script.json [bootargs-json]")
		return 2
	}
	b, err := os.ReadFile(args[0])
	if err != nil {
		fmt.Println(err)
		return 2
	}
	var steps []struct {
		Op   string          `json:"op"`
		Args json.RawMessage `json:"args"`
	}
	if err := json.Unmarshal(b, &steps); err != nil {
		fmt.Println(err)
		return 2
	}
	boot := map[string]interface{}{}
	if len(args) > 1 {
		_ = json.Unmarshal([]byte(args[1]), &boot)
	}
	var w *kernel.Worker
	if len(args) > 2 { // reuse an existing directory (kept afterwards)
		w, err = kernel.Spawn(kernel.SpawnOpts{Dir: args[2]})
		if err == nil {
			boot["dir"] = args[2]
			err = w.Call("boot", boot, nil)
		}
	} else {
		p := &kernel.Pool{N: 1, Boot: boot}
		w, err = p.BootWorker()
	}
	if err != nil {
		fmt.Println(err)
		return 2
	}
	defer w.Close()
	for _, st := range steps {
		var res json.RawMessage
		var a interface{}
		if len(st.Args) > 0 {
			a = st.Args
		}
		err := w.Call(st.Op, a, &res)
		fmt.Printf("%s %s\n  -> err=%v %s\n", st.Op, trunc(string(st.Args), 200), err, trunc(string(res), probeLimit()))
		if w.Dead() {
			if os.Getenv("VERIF_PROBE_FULL") != "" {
				fmt.Println(w.StderrAll())
			} else {
				fmt.Println(w.StderrTail())
			}
			return 1
		}
	}
	return 0
}

func probeLimit() int {
	if os.Getenv("VERIF_PROBE_FULL") != "" {
		return 200000
	}
	return 1500
}
