//go:build !verifcrash

package sim

import "fmt"

func installCrashHook(logPath, root string) error {
	return fmt.Errorf("this binary was built without the os hook overlay (tag verifcrash)")
}
func crashMark(text string) {}
