//go:build verifcrash

package sim

import (
	"encoding/base64"
	"encoding/json"
	"os"
	"path/filepath"
	"runtime"
	"strings"
	"syscall"
)

// The crash-log: one JSON line per completed mutating file-system operation under root, in the order the operations
// took effect (package os serialises them while the hook is set). Written with raw system calls.

var crashFd = -1
var crashRoot string
var crashSeq int64
var crashCwd string

type crashRec struct {
	S    int64  `json:"s"`
	G    int64  `json:"g"`
	Op   string `json:"op"`
	P    string `json:"p,omitempty"`
	P2   string `json:"p2,omitempty"`
	Off  int64  `json:"off,omitempty"`
	Size int64  `json:"size,omitempty"`
	Fl   int    `json:"fl,omitempty"`
	D    string `json:"d,omitempty"`
}

func gid() int64 {
	var buf [64]byte
	n := runtime.Stack(buf[:], false)
	// "goroutine 123 ["
	s := string(buf[:n])
	s = strings.TrimPrefix(s, "goroutine ")
	var id int64
	for _, c := range s {
		if c < '0' || c > '9' {
			break
		}
		id = id*10 + int64(c-'0')
	}
	return id
}

func rel(p string) (string, bool) {
	if p == "" {
		return "", false
	}
	if !filepath.IsAbs(p) {
		p = filepath.Join(crashCwd, p)
	}
	p = filepath.Clean(p)
	if p == strings.TrimSuffix(crashRoot, "/") {
		return ".", true
	}
	if !strings.HasPrefix(p, crashRoot) {
		return "", false
	}
	return strings.TrimPrefix(p, crashRoot), true
}

func writeRec(r *crashRec) {
	crashSeq++
	r.S = crashSeq
	b, _ := json.Marshal(r)
	b = append(b, '\n')
	for len(b) > 0 {
		n, err := syscall.Write(crashFd, b)
		if err != nil {
			return
		}
		b = b[n:]
	}
}

func installCrashHook(logPath, root string) error {
	fd, err := syscall.Open(logPath, syscall.O_CREAT|syscall.O_WRONLY|syscall.O_APPEND, 0644)
	if err != nil {
		return err
	}
	crashFd = fd
	crashRoot = filepath.Clean(root) + "/"
	crashCwd, _ = os.Getwd()
	os.VerifHook = func(ev *os.VerifEvent) {
		p, ok := rel(ev.Path)
		if ev.Op == "rename" || ev.Op == "link" || ev.Op == "symlink" {
			p2, ok2 := rel(ev.Path2)
			if !ok && !ok2 {
				return
			}
			if !ok {
				p = "!outside:" + ev.Path
			}
			if !ok2 {
				p2 = "!outside:" + ev.Path2
			}
			writeRec(&crashRec{G: gid(), Op: ev.Op, P: p, P2: p2})
			return
		}
		if !ok {
			return
		}
		r := &crashRec{G: gid(), Op: ev.Op, P: p, Off: ev.Off, Size: ev.Size, Fl: ev.Flags}
		if ev.Op == "write" {
			r.D = base64.StdEncoding.EncodeToString(ev.Data)
		}
		writeRec(r)
	}
	return nil
}

// crashMark appends a driver-level marker ("this operation had returned") to the log.
func crashMark(text string) {
	if crashFd < 0 {
		return
	}
	// take the same lock the os wrappers take by issuing the marker through a no-op path: markers are written by the
	// driver goroutine between operations, when no siglens call of this history is in flight
	writeRec(&crashRec{G: gid(), Op: "mark", P: text})
}
