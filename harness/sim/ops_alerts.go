package sim

import (
	"encoding/json"
	"fmt"
	"net"
	"net/http"
	"sync"

	"github.com/siglens/siglens/pkg/alerts/alertsHandler"
)

// Loopback webhook sink: counts notification deliveries per path.
var sinkMu sync.Mutex
var sinkCounts = map[string]int{}
var sinkURL string

func sinkStart(raw json.RawMessage) (interface{}, error) {
	if sinkURL != "" {
		return map[string]interface{}{"url": sinkURL}, nil
	}
	l, err := net.Listen("tcp", "127.0.0.1:0")
	if err != nil {
		return nil, err
	}
	sinkURL = fmt.Sprintf("http://%s", l.Addr().String())
	go func() {
		_ = http.Serve(l, http.HandlerFunc(func(w http.ResponseWriter, r *http.Request) {
			sinkMu.Lock()
			sinkCounts[r.URL.Path]++
			sinkMu.Unlock()
			w.WriteHeader(200)
		}))
	}()
	return map[string]interface{}{"url": sinkURL}, nil
}

func sinkCount(raw json.RawMessage) (interface{}, error) {
	sinkMu.Lock()
	defer sinkMu.Unlock()
	out := map[string]int{}
	for k, v := range sinkCounts {
		out[k] = v
	}
	return out, nil
}

func alertOp(raw json.RawMessage) (interface{}, error) {
	var a struct {
		Do      string `json:"do"`
		ID      string `json:"id"`
		Body    string `json:"body"`
		Org     int64  `json:"org"`
		Matched bool   `json:"matched"`
		Minutes int    `json:"minutes"`
	}
	if err := json.Unmarshal(raw, &a); err != nil {
		return nil, err
	}
	var err error
	out := map[string]interface{}{}
	switch a.Do {
	case "create":
		var id string
		id, err = alertsHandler.VerifCreateAlertNoCron([]byte(a.Body), a.Org)
		out["id"] = id
	case "eval":
		err = alertsHandler.VerifEval(a.ID, a.Matched)
	case "evalquery":
		err = alertsHandler.VerifEvalLogAlert(a.ID)
	case "shift":
		err = alertsHandler.VerifShiftLastSent(a.ID, a.Minutes)
	case "cooldown":
		err = alertsHandler.VerifSetCooldown(a.ID, uint64(a.Minutes))
	default:
		return nil, fmt.Errorf("unknown alert op %q", a.Do)
	}
	if err != nil {
		out["error"] = err.Error()
	}
	return out, nil
}

func init() {
	Register("sink_start", sinkStart)
	Register("sink_count", sinkCount)
	Register("alert", alertOp)
}
