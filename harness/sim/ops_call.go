package sim

import (
	"encoding/base64"
	"encoding/json"
	"fmt"
	"github.com/siglens/siglens/pkg/ast/pipesearch"

	esreader "github.com/siglens/siglens/pkg/es/reader"
	eswriter "github.com/siglens/siglens/pkg/es/writer"
	tracinghandler "github.com/siglens/siglens/pkg/segment/tracing/handler"
	"github.com/valyala/fasthttp"
)

// call: invoke a processing function of the HTTP layer (the functions the routers call through CallWithMyId) with a
// synthetic request and an explicit organisation id — the public seam for multi-tenancy in the open-source tree.

var handlers = map[string]func(ctx *fasthttp.RequestCtx, org int64){
	"postAliases":   eswriter.ProcessPostAliasesRequest,
	"putAliases":    eswriter.ProcessPutAliasesRequest,
	"getAllAliases": eswriter.ProcessGetAllAliases,
	"deleteIndex":   eswriter.ProcessDeleteIndex,
	"putIndex":      eswriter.ProcessPutIndex,
	"esSearch":      esreader.ProcessSearchRequest,
	"listColumns":   pipesearch.ListColumnNamesHandler,
}

func RegisterHandler(name string, f func(ctx *fasthttp.RequestCtx, org int64)) { handlers[name] = f }

type CallArgs struct {
	Handler    string            `json:"handler"`
	Org        int64             `json:"org"`
	Method     string            `json:"method,omitempty"`
	URI        string            `json:"uri,omitempty"`
	Body       string            `json:"body,omitempty"`
	BodyB64    string            `json:"body_b64,omitempty"`
	UserValues map[string]string `json:"userValues,omitempty"`
	Headers    map[string]string `json:"headers,omitempty"`
}

func callOp(raw json.RawMessage) (interface{}, error) {
	var a CallArgs
	if err := json.Unmarshal(raw, &a); err != nil {
		return nil, err
	}
	h, ok := handlers[a.Handler]
	if !ok {
		return nil, fmt.Errorf("unknown handler %q", a.Handler)
	}
	ctx := &fasthttp.RequestCtx{}
	if a.URI != "" {
		ctx.Request.SetRequestURI(a.URI)
	}
	if a.Method != "" {
		ctx.Request.Header.SetMethod(a.Method)
	}
	body := []byte(a.Body)
	if a.BodyB64 != "" {
		b, err := base64.StdEncoding.DecodeString(a.BodyB64)
		if err != nil {
			return nil, err
		}
		body = b
	}
	if len(body) > 0 {
		ctx.Request.SetBody(body)
	}
	for k, v := range a.Headers {
		ctx.Request.Header.Set(k, v)
	}
	for k, v := range a.UserValues {
		ctx.SetUserValue(k, v)
	}
	h(ctx, a.Org)
	return map[string]interface{}{"status": ctx.Response.StatusCode(), "body": string(ctx.Response.Body())}, nil
}

func init() { Register("call", callOp) }

// redtraces: one pass of the RED-metrics computation the server runs periodically (over the spans of the last five
// minutes), then a flush so that the result is searchable.
func redTracesOp(raw json.RawMessage) (interface{}, error) {
	tracinghandler.ProcessRedTracesIngest(0)
	doFlush()
	return nil, nil
}

func init() { Register("redtraces", redTracesOp) }
