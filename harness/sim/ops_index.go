package sim

import (
	"encoding/json"

	eswriter "github.com/siglens/siglens/pkg/es/writer"
	"github.com/valyala/fasthttp"
)

type DelIndexArgs struct {
	Org   int64  `json:"org"`
	Index string `json:"index"`
}

func delIndex(raw json.RawMessage) (interface{}, error) {
	var a DelIndexArgs
	if err := json.Unmarshal(raw, &a); err != nil {
		return nil, err
	}
	ctx := &fasthttp.RequestCtx{}
	ctx.SetUserValue("indexName", a.Index)
	eswriter.ProcessDeleteIndex(ctx, a.Org)
	return map[string]interface{}{"status": ctx.Response.StatusCode(), "body": string(ctx.Response.Body())}, nil
}

func init() {
	Register("delindex", delIndex)
}
