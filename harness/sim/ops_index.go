package sim

import (
	"crypto/sha1"
	"encoding/json"
	"fmt"
	"os"
	"path/filepath"
	"strings"
	"time"

	eswriter "github.com/siglens/siglens/pkg/es/writer"
	"github.com/valyala/fasthttp"
)

type DelIndexArgs struct {
	Org   int64  `json:"org"`
	Index string `json:"index"`
}

func delIndex(raw json.RawMessage) (interface{}, error) {
	var a DelIndexArgs
	if err := json.Unmarshal(raw, &a); err != nil {
		return nil, err
	}
	ctx := &fasthttp.RequestCtx{}
	ctx.SetUserValue("indexName", a.Index)
	eswriter.ProcessDeleteIndex(ctx, a.Org)
	return map[string]interface{}{"status": ctx.Response.StatusCode(), "body": string(ctx.Response.Body())}, nil
}

func init() {
	Register("delindex", delIndex)
}

type FilesArgs struct {
	Contains string `json:"contains"`
}

// files lists regular files under the data dir whose path contains the given substring (path relative to the dir, size).
func filesOp(raw json.RawMessage) (interface{}, error) {
	var a FilesArgs
	if err := json.Unmarshal(raw, &a); err != nil {
		return nil, err
	}
	out := map[string]int64{}
	_ = filepath.Walk(DataDir+"data/", func(p string, info os.FileInfo, err error) error {
		if err != nil || info.IsDir() {
			return nil
		}
		if a.Contains == "" || strings.Contains(p, a.Contains) {
			out[strings.TrimPrefix(p, DataDir)] = info.Size()
		}
		return nil
	})
	return out, nil
}

func init() { Register("files", filesOp) }

func sleepOp(raw json.RawMessage) (interface{}, error) {
	var a struct {
		Ms int `json:"ms"`
	}
	_ = json.Unmarshal(raw, &a)
	time.Sleep(time.Duration(a.Ms) * time.Millisecond)
	return nil, nil
}

func init() { Register("sleep", sleepOp) }

// readfile returns the content of the first file under the data dir whose path ends with suffix and contains the substring.
func readFileOp(raw json.RawMessage) (interface{}, error) {
	var a struct {
		Suffix   string `json:"suffix"`
		Contains string `json:"contains"`
	}
	if err := json.Unmarshal(raw, &a); err != nil {
		return nil, err
	}
	var found string
	_ = filepath.Walk(DataDir+"data/", func(p string, info os.FileInfo, err error) error {
		if err != nil || info.IsDir() || found != "" {
			return nil
		}
		if strings.HasSuffix(p, a.Suffix) && strings.Contains(p, a.Contains) {
			found = p
		}
		return nil
	})
	if found == "" {
		return map[string]interface{}{"missing": true}, nil
	}
	b, err := os.ReadFile(found)
	if err != nil {
		return nil, err
	}
	return map[string]interface{}{"content": string(b), "path": found}, nil
}

func init() { Register("readfile", readFileOp) }

// snapshot lists every file and directory under the worker directory except the configured data and log directories
// (and the read-only static symlink): path -> "d" | "<size>:<sha1>". Used by the path-confinement oracle.
func snapshotOp(raw json.RawMessage) (interface{}, error) {
	out := map[string]string{}
	root := strings.TrimSuffix(DataDir, "/")
	_ = filepath.Walk(root, func(p string, info os.FileInfo, err error) error {
		if err != nil {
			return nil
		}
		rel := strings.TrimPrefix(strings.TrimPrefix(p, root), "/")
		if rel == "" {
			return nil
		}
		top := strings.SplitN(rel, "/", 2)[0]
		if top == "data" || top == "logs" || top == "static" {
			if info.IsDir() {
				return filepath.SkipDir
			}
			return nil
		}
		if info.IsDir() {
			out[rel] = "d"
			return nil
		}
		b, rerr := os.ReadFile(p)
		if rerr != nil {
			out[rel] = "unreadable"
			return nil
		}
		h := sha1.Sum(b)
		out[rel] = fmt.Sprintf("%d:%x", len(b), h[:6])
		return nil
	})
	return out, nil
}

func putFileOp(raw json.RawMessage) (interface{}, error) {
	var a struct {
		Rel     string `json:"rel"`
		Content string `json:"content"`
	}
	if err := json.Unmarshal(raw, &a); err != nil {
		return nil, err
	}
	p := filepath.Join(DataDir, a.Rel)
	if err := os.MkdirAll(filepath.Dir(p), 0755); err != nil {
		return nil, err
	}
	return nil, os.WriteFile(p, []byte(a.Content), 0644)
}

func init() {
	Register("snapshot", snapshotOp)
	Register("putfile", putFileOp)
}

// rmoutside removes a path below the worker directory that lies outside data/ and logs/ (undo for the confinement check).
func rmOutsideOp(raw json.RawMessage) (interface{}, error) {
	var a struct {
		Rel string `json:"rel"`
	}
	if err := json.Unmarshal(raw, &a); err != nil {
		return nil, err
	}
	rel := filepath.Clean(a.Rel)
	top := strings.SplitN(rel, "/", 2)[0]
	if rel == "." || strings.HasPrefix(rel, "..") || top == "data" || top == "logs" || top == "static" {
		return nil, fmt.Errorf("refusing to remove %q", a.Rel)
	}
	return nil, os.RemoveAll(filepath.Join(DataDir, rel))
}

func init() { Register("rmoutside", rmOutsideOp) }
