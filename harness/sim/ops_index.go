package sim

import (
	"encoding/json"
	"os"
	"path/filepath"
	"strings"
	"time"

	eswriter "github.com/siglens/siglens/pkg/es/writer"
	"github.com/valyala/fasthttp"
)

type DelIndexArgs struct {
	Org   int64  `json:"org"`
	Index string `json:"index"`
}

func delIndex(raw json.RawMessage) (interface{}, error) {
	var a DelIndexArgs
	if err := json.Unmarshal(raw, &a); err != nil {
		return nil, err
	}
	ctx := &fasthttp.RequestCtx{}
	ctx.SetUserValue("indexName", a.Index)
	eswriter.ProcessDeleteIndex(ctx, a.Org)
	return map[string]interface{}{"status": ctx.Response.StatusCode(), "body": string(ctx.Response.Body())}, nil
}

func init() {
	Register("delindex", delIndex)
}

type FilesArgs struct {
	Contains string `json:"contains"`
}

// files lists regular files under the data dir whose path contains the given substring (path relative to the dir, size).
func filesOp(raw json.RawMessage) (interface{}, error) {
	var a FilesArgs
	if err := json.Unmarshal(raw, &a); err != nil {
		return nil, err
	}
	out := map[string]int64{}
	_ = filepath.Walk(DataDir+"data/", func(p string, info os.FileInfo, err error) error {
		if err != nil || info.IsDir() {
			return nil
		}
		if a.Contains == "" || strings.Contains(p, a.Contains) {
			out[strings.TrimPrefix(p, DataDir)] = info.Size()
		}
		return nil
	})
	return out, nil
}

func init() { Register("files", filesOp) }

func sleepOp(raw json.RawMessage) (interface{}, error) {
	var a struct {
		Ms int `json:"ms"`
	}
	_ = json.Unmarshal(raw, &a)
	time.Sleep(time.Duration(a.Ms) * time.Millisecond)
	return nil, nil
}

func init() { Register("sleep", sleepOp) }

// readfile returns the content of the first file under the data dir whose path ends with suffix and contains the substring.
func readFileOp(raw json.RawMessage) (interface{}, error) {
	var a struct {
		Suffix   string `json:"suffix"`
		Contains string `json:"contains"`
	}
	if err := json.Unmarshal(raw, &a); err != nil {
		return nil, err
	}
	var found string
	_ = filepath.Walk(DataDir+"data/", func(p string, info os.FileInfo, err error) error {
		if err != nil || info.IsDir() || found != "" {
			return nil
		}
		if strings.HasSuffix(p, a.Suffix) && strings.Contains(p, a.Contains) {
			found = p
		}
		return nil
	})
	if found == "" {
		return map[string]interface{}{"missing": true}, nil
	}
	b, err := os.ReadFile(found)
	if err != nil {
		return nil, err
	}
	return map[string]interface{}{"content": string(b), "path": found}, nil
}

func init() { Register("readfile", readFileOp) }
