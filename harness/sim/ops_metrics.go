package sim

import (
	"encoding/json"
	"os"

	"github.com/siglens/siglens/cmd/startup"
	"github.com/siglens/siglens/pkg/segment/query"
	"github.com/siglens/siglens/pkg/segment/writer/metrics"
	mmeta "github.com/siglens/siglens/pkg/segment/writer/metrics/meta"
)

type MRotateArgs struct {
	Kind string `json:"kind"` // block | segment
}

func mrotate(raw json.RawMessage) (interface{}, error) {
	var a MRotateArgs
	if err := json.Unmarshal(raw, &a); err != nil {
		return nil, err
	}
	if err := metrics.VerifRotate(a.Kind); err != nil {
		return map[string]interface{}{"error": err.Error()}, nil
	}
	if a.Kind == "segment" {
		// what refreshMetricsMetadataLoop does every few seconds: make the rotated segment searchable
		if err := query.PopulateMetricsMetadataForTheFile_TestOnly(mmeta.GetLocalMetricsMetaFName()); err != nil {
			return map[string]interface{}{"error": "meta refresh: " + err.Error()}, nil
		}
	}
	return nil, nil
}

// shutdown performs the graceful server shutdown sequence and ends the process (restart = new worker on the same dir).
func shutdown(raw json.RawMessage) (interface{}, error) {
	var a struct {
		NoExit bool `json:"noexit"` // run the graceful shutdown but keep the worker answering (file-level operations only)
	}
	_ = json.Unmarshal(raw, &a)
	startup.ShutdownSiglensServer(false)
	if !a.NoExit {
		go func() { os.Exit(0) }()
	}
	return nil, nil
}

func init() {
	Register("mrotate", mrotate)
	Register("shutdown", shutdown)
}
