package sim

import (
	"encoding/json"
	"fmt"
	"reflect"
	"regexp"

	"github.com/siglens/siglens/pkg/ast/pipesearch"
	esquery "github.com/siglens/siglens/pkg/es/query"
	"github.com/siglens/siglens/pkg/integrations/prometheus/promql"
)

type ParseArgs struct {
	Lang  string   `json:"lang"` // Splunk QL | Pipe QL | SQL | ES | PromQL
	Texts []string `json:"texts"`
}

type parseOut struct {
	Status string `json:"s"`           // ok | err | panic
	Same   bool   `json:"same"`        // the second parse of the same text gave a deeply-equal plan (or the same error class)
	Msg    string `json:"m,omitempty"` // panic message
}

func parseOnce(lang, text string) (plan interface{}, status, msg string) {
	defer func() {
		if r := recover(); r != nil {
			plan, status, msg = nil, "panic", fmt.Sprint(r)
		}
	}()
	switch lang {
	case "ES":
		a, b, _, _, err := esquery.ParseRequest([]byte(text), 1, false)
		if err != nil {
			return nil, "err", ""
		}
		return []interface{}{a, b}, "ok", ""
	case "PromQL":
		a, b, c, err := promql.ConvertPromQLToMetricsQuery(text, 1700000000, 1700000300, 0)
		if err != nil {
			return nil, "err", ""
		}
		return []interface{}{a, b, c}, "ok", ""
	default:
		a, b, c, err := pipesearch.ParseRequest(text, 1700000000000, 1700000300000, 1, lang, "*")
		if err != nil {
			return nil, "err", ""
		}
		return []interface{}{a, b, c}, "ok", ""
	}
}

func parseMany(raw json.RawMessage) (interface{}, error) {
	var a ParseArgs
	if err := json.Unmarshal(raw, &a); err != nil {
		return nil, err
	}
	out := make([]parseOut, len(a.Texts))
	for i, t := range a.Texts {
		p1, s1, m1 := parseOnce(a.Lang, t)
		p2, s2, _ := parseOnce(a.Lang, t)
		out[i] = parseOut{Status: s1, Msg: m1}
		out[i].Same = s1 == s2 && (s1 != "ok" || reflect.DeepEqual(p1, p2))
		if !out[i].Same && s1 == "ok" && s2 == "ok" {
			// DeepEqual is false for equal plans holding NaN or function values: fall back to the printed form
			a, b := fmt.Sprintf("%+v", deref(p1)), fmt.Sprintf("%+v", deref(p2))
			j1, e1 := json.Marshal(p1)
			j2, e2 := json.Marshal(p2)
			if e1 == nil && e2 == nil {
				// wall-clock-derived time ranges (a plan for "now-90d..now" built at two instants) are not a plan difference
				j1, j2 = epochRe.ReplaceAll(j1, []byte(`"EpochMs":0`)), epochRe.ReplaceAll(j2, []byte(`"EpochMs":0`))
				out[i].Same = string(j1) == string(j2)
				if !out[i].Same {
					out[i].Msg = "json differs: " + firstDiff(string(j1), string(j2))
				}
			} else {
				out[i].Same = a == b
				if !out[i].Same {
					out[i].Msg = "printed form differs: " + firstDiff(a, b)
				}
			}
		}
	}
	return out, nil
}

func init() { Register("parsemany", parseMany) }

var epochRe = regexp.MustCompile(`"(Start|End)EpochMs":\d+`)

func deref(p interface{}) interface{} { return p }

func firstDiff(a, b string) string {
	n := len(a)
	if len(b) < n {
		n = len(b)
	}
	i := 0
	for i < n && a[i] == b[i] {
		i++
	}
	lo := i - 60
	if lo < 0 {
		lo = 0
	}
	ha, hb := i+60, i+60
	if ha > len(a) {
		ha = len(a)
	}
	if hb > len(b) {
		hb = len(b)
	}
	return fmt.Sprintf("at %d: %q vs %q", i, a[lo:ha], b[lo:hb])
}
