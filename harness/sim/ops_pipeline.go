package sim

import (
	"encoding/json"
	"fmt"
	"io"
	"math"

	"github.com/siglens/siglens/pkg/ast/pipesearch"
	"github.com/siglens/siglens/pkg/segment/query"
	"github.com/siglens/siglens/pkg/segment/query/iqr"
	"github.com/siglens/siglens/pkg/segment/query/processor"
	"github.com/siglens/siglens/pkg/segment/structs"
	sutils "github.com/siglens/siglens/pkg/segment/utils"
)

// pipeline: run a chain of SPL commands (parsed by the real parser, built by the real AggsToDataProcessors) over a
// table delivered by a harness Streamer in the given batches. No storage is involved.

type PipelineArgs struct {
	Query       string                       `json:"query"` // e.g. "* | dedup a | head 2"
	Cols        []string                     `json:"cols"`
	Batches     [][]map[string]interface{}   `json:"batches"`           // stream 0
	Streams     [][][]map[string]interface{} `json:"streams,omitempty"` // optional: several upstream streams
	EOFWithData bool                         `json:"eofWithData"`
	// Parallel > 1: build the chains through the real SetupQueryParallelism with this many processors; chain i reads
	// Streams[i]. If the query is not parallelised (one chain), nothing is run and {"chains":1} is returned.
	Parallel int `json:"parallel,omitempty"`
	// ScrollSize > 0: append what newQueryProcessorHelper appends for a paged request: head(from+size) → scroller(from)
	ScrollFrom int `json:"scrollFrom,omitempty"`
	ScrollSize int `json:"scrollSize,omitempty"`
	// SparseBatchCols: a column that no row of a batch carries is left out of that batch altogether (as when the batch
	// comes from a segment that does not have the column), instead of being delivered as a column of nulls
	SparseBatchCols bool `json:"sparseBatchCols,omitempty"`
}

type tableStreamer struct {
	cols    []string
	batches [][]map[string]interface{}
	pos     int
	eofWith bool
	qid     uint64
	sparse  bool
}

func encl(v interface{}) sutils.CValueEnclosure {
	switch x := v.(type) {
	case nil:
		return sutils.CValueEnclosure{Dtype: sutils.SS_DT_BACKFILL, CVal: nil}
	case json.Number:
		if i, err := x.Int64(); err == nil {
			return sutils.CValueEnclosure{Dtype: sutils.SS_DT_SIGNED_NUM, CVal: i}
		}
		f, _ := x.Float64()
		return sutils.CValueEnclosure{Dtype: sutils.SS_DT_FLOAT, CVal: f}
	case float64:
		if x == float64(int64(x)) {
			return sutils.CValueEnclosure{Dtype: sutils.SS_DT_SIGNED_NUM, CVal: int64(x)}
		}
		return sutils.CValueEnclosure{Dtype: sutils.SS_DT_FLOAT, CVal: x}
	case string:
		return sutils.CValueEnclosure{Dtype: sutils.SS_DT_STRING, CVal: x}
	case bool:
		return sutils.CValueEnclosure{Dtype: sutils.SS_DT_BOOL, CVal: x}
	}
	return sutils.CValueEnclosure{Dtype: sutils.SS_DT_STRING, CVal: fmt.Sprint(v)}
}

func (t *tableStreamer) build(rows []map[string]interface{}) (*iqr.IQR, error) {
	q := iqr.NewIQR(t.qid)
	kv := map[string][]sutils.CValueEnclosure{}
	for _, c := range t.cols {
		if t.sparse && len(rows) > 0 {
			has := false
			for _, r := range rows {
				if r[c] != nil {
					has = true
				}
			}
			if !has {
				continue
			}
		}
		vals := make([]sutils.CValueEnclosure, len(rows)) // fresh slices for every delivery: processors mutate them
		for i, r := range rows {
			vals[i] = encl(r[c])
		}
		kv[c] = vals
	}
	if err := q.AppendKnownValues(kv); err != nil {
		return nil, err
	}
	return q, nil
}

func (t *tableStreamer) Fetch() (*iqr.IQR, error) {
	if t.pos >= len(t.batches) {
		return nil, io.EOF
	}
	rows := t.batches[t.pos]
	t.pos++
	q, err := t.build(rows)
	if err != nil {
		return nil, err
	}
	if t.pos == len(t.batches) && t.eofWith {
		return q, io.EOF
	}
	return q, nil
}
func (t *tableStreamer) Rewind()        { t.pos = 0 }
func (t *tableStreamer) Cleanup()       {}
func (t *tableStreamer) String() string { return "tableStreamer" }

func pipelineOp(raw json.RawMessage) (interface{}, error) {
	var a PipelineArgs
	d := json.NewDecoder(bytesReader(raw))
	d.UseNumber()
	if err := d.Decode(&a); err != nil {
		return nil, err
	}
	qid := nextQid()
	_, aggs, _, err := pipesearch.ParseQuery(a.Query, qid, "Splunk QL")
	if err != nil {
		return map[string]interface{}{"parseErr": err.Error()}, nil
	}
	var last *processor.DataProcessor
	nChains := 1
	if a.Parallel > 1 {
		var err error
		last, nChains, err = processor.VerifParallelChains(aggs, a.Parallel, func(n int) []processor.Streamer {
			var out []processor.Streamer
			for i := 0; i < n; i++ {
				var b [][]map[string]interface{}
				if i < len(a.Streams) {
					b = a.Streams[i]
				}
				out = append(out, &tableStreamer{cols: a.Cols, batches: b, eofWith: a.EOFWithData, qid: qid, sparse: a.SparseBatchCols})
			}
			return out
		})
		if err != nil {
			return map[string]interface{}{"parseErr": "parallel setup: " + err.Error()}, nil
		}
		if last == nil || nChains <= 1 {
			return map[string]interface{}{"chains": 1, "rows": []interface{}{}}, nil
		}
	} else {
		dps := processor.AggsToDataProcessors(aggs, nil)
		if len(dps) == 0 {
			return map[string]interface{}{"parseErr": "no data processors"}, nil
		}
		streams := a.Streams
		if len(streams) == 0 {
			streams = [][][]map[string]interface{}{a.Batches}
		}
		var cs []*processor.CachedStream
		for _, b := range streams {
			cs = append(cs, processor.NewCachedStream(&tableStreamer{cols: a.Cols, batches: b, eofWith: a.EOFWithData, qid: qid, sparse: a.SparseBatchCols}))
		}
		dps[0].SetStreams(cs)
		for i := 1; i < len(dps); i++ {
			dps[i].SetStreams([]*processor.CachedStream{processor.NewCachedStream(dps[i-1])})
		}
		last = dps[len(dps)-1]
	}
	if a.ScrollSize > 0 {
		if _, err := query.StartQuery(qid, false, nil, true); err != nil {
			return map[string]interface{}{"runErr": "StartQuery: " + err.Error()}, nil
		}
		defer query.DeleteQuery(qid)
		query.InitProgressForRRCCmd(math.MaxUint64, qid)
		headDP := processor.NewHeadDP(&structs.HeadExpr{MaxRows: uint64(a.ScrollFrom + a.ScrollSize)})
		headDP.SetStreams([]*processor.CachedStream{processor.NewCachedStream(last)})
		scrollerDP := processor.NewScrollerDP(uint64(a.ScrollFrom), qid)
		scrollerDP.SetStreams([]*processor.CachedStream{processor.NewCachedStream(headDP)})
		last = scrollerDP
	}
	var final *iqr.IQR
	var ferr error
	fetches := 0
	for ferr != io.EOF {
		var q *iqr.IQR
		q, ferr = last.Fetch()
		if ferr != nil && ferr != io.EOF {
			return map[string]interface{}{"runErr": ferr.Error()}, nil
		}
		fetches++
		if fetches > 10000 {
			return map[string]interface{}{"runErr": "no EOF after 10000 fetches"}, nil
		}
		if q == nil {
			continue
		}
		if final == nil {
			final = q
		} else if err := final.Append(q); err != nil {
			return map[string]interface{}{"runErr": "append: " + err.Error()}, nil
		}
	}
	if final == nil {
		return map[string]interface{}{"rows": []interface{}{}, "chains": nChains}, nil
	}
	qt := query.GetQueryTypeOfFullChain(aggs)
	resp, err := final.AsResult(qt, false, true)
	if err != nil {
		return map[string]interface{}{"runErr": "AsResult: " + err.Error()}, nil
	}
	out := map[string]interface{}{"rows": resp.Hits.Hits, "qtype": qt.String(), "chains": nChains}
	var ms []map[string]interface{}
	for _, b := range resp.MeasureResults {
		if b != nil {
			ms = append(ms, map[string]interface{}{"g": b.GroupByValues, "m": b.MeasureVal})
		}
	}
	out["measure"] = ms
	return out, nil
}

func init() { Register("pipeline", pipelineOp) }
