package sim

import (
	"encoding/json"

	"github.com/siglens/siglens/pkg/memorypool"
)

// poolquarantine switches the buffer pools to quarantine mode (see overlay pkg/memorypool/zz_verif_quarantine.go);
// poolcheck lists the released buffers that were written to afterwards.
func init() {
	Register("poolquarantine", func(raw json.RawMessage) (interface{}, error) {
		memorypool.VerifQuarantineOn.Store(true)
		return nil, nil
	})
	Register("poolcheck", func(raw json.RawMessage) (interface{}, error) {
		v, n := memorypool.VerifCheckQuarantine()
		return map[string]interface{}{"violations": v, "released": n}, nil
	})
}
