package sim

import (
	"encoding/json"
	"fmt"
	"net/url"

	"github.com/siglens/siglens/pkg/config"
	"github.com/siglens/siglens/pkg/integrations/prometheus/promql"
	"github.com/siglens/siglens/pkg/retention"
	"github.com/valyala/fasthttp"
)

func retentionOp(raw json.RawMessage) (interface{}, error) {
	var a struct {
		Hours int   `json:"hours"`
		Org   int64 `json:"org"`
	}
	if err := json.Unmarshal(raw, &a); err != nil {
		return nil, err
	}
	// the time-based pass exactly as internalRetentionCleaner invokes it, with an explicit retention period
	retention.DoRetentionBasedDeletion(config.GetCurrentNodeIngestDir(), a.Hours, a.Org)
	return nil, nil
}

// mqueryl: the Prometheus range-query handler called with a synthetic request (light boot, no listener).
func mqueryLight(raw json.RawMessage) (interface{}, error) {
	var a struct {
		Q     string `json:"q"`
		Start uint32 `json:"start"`
		End   uint32 `json:"end"`
		Org   int64  `json:"org"`
	}
	if err := json.Unmarshal(raw, &a); err != nil {
		return nil, err
	}
	ctx := &fasthttp.RequestCtx{}
	ctx.Request.SetRequestURI(fmt.Sprintf("/promql/api/v1/query_range?query=%s&start=%d&end=%d&step=1", url.QueryEscape(a.Q), a.Start, a.End))
	ctx.Request.Header.SetMethod("GET")
	promql.ProcessPromqlMetricsRangeSearchRequest(ctx, a.Org)
	return map[string]interface{}{"status": ctx.Response.StatusCode(), "body": string(ctx.Response.Body())}, nil
}

func init() {
	Register("retention", retentionOp)
	Register("mqueryl", mqueryLight)
}
