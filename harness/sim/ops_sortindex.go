package sim

import (
	"encoding/json"

	"github.com/siglens/siglens/pkg/querytracker"
	"github.com/siglens/siglens/pkg/segment/sortindex"
	"github.com/siglens/siglens/pkg/segment/writer"
)

// sortcols: what POST /api/sort-columns does (sort indexes are then written for every segment of the index that is
// rotated); waitsortindex: wait for the background writers of those files.
func init() {
	Register("sortcols", func(raw json.RawMessage) (interface{}, error) {
		var a struct {
			Index   string   `json:"index"`
			Columns []string `json:"columns"`
		}
		if err := json.Unmarshal(raw, &a); err != nil {
			return nil, err
		}
		if err := sortindex.SetSortColumns(a.Index, a.Columns); err != nil {
			return map[string]interface{}{"error": err.Error()}, nil
		}
		return nil, nil
	})
	Register("waitsortindex", func(raw json.RawMessage) (interface{}, error) {
		writer.VerifWaitSortIndexes()
		return nil, nil
	})
}

// clearpqs: forget every tracked persistent query (the production "clear" endpoint's body), so that which queries a new
// segment evaluates while ingesting is decided by the job at hand, not by what the worker ran before.
func init() {
	Register("clearpqs", func(raw json.RawMessage) (interface{}, error) {
		querytracker.ClearPqs()
		return nil, nil
	})
}
