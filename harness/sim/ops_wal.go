package sim

import (
	"bytes"
	"encoding/base64"
	"encoding/binary"
	"encoding/json"
	"fmt"
	"math"
	"os"
	"path/filepath"
	"strconv"
	"strings"

	"github.com/siglens/siglens/pkg/segment/reader/metrics/series"
	"github.com/siglens/siglens/pkg/segment/structs"
	sutils "github.com/siglens/siglens/pkg/segment/utils"
	"github.com/siglens/siglens/pkg/segment/writer"
	"github.com/siglens/siglens/pkg/segment/writer/metrics/compress"
	"github.com/siglens/siglens/pkg/segment/writer/metrics/wal"
)

type WalDP struct {
	TS   uint32 `json:"ts"`
	Bits uint64 `json:"bits"`
	Tsid uint64 `json:"tsid"`
}

type WalBuildArgs struct {
	Kind   string     `json:"kind"` // dp | mname | mmeta
	Frames [][]WalDP  `json:"frames,omitempty"`
	Names  [][]string `json:"names,omitempty"`
	Metas  [][]string `json:"metas,omitempty"` // each entry = MSegmentDir name
	Write  bool       `json:"write,omitempty"` // use Wal.Write (truncate + rewrite) instead of Append
}

func walTmp(name string) string { return filepath.Join(DataDir, "waltmp-"+name) }

// walbuild writes a WAL file with the real encoders / Append and returns its bytes.
func walBuild(raw json.RawMessage) (interface{}, error) {
	var a WalBuildArgs
	if err := json.Unmarshal(raw, &a); err != nil {
		return nil, err
	}
	p := walTmp("build.wal")
	_ = os.Remove(p)
	var w *wal.Wal
	var err error
	put := func(x any) error {
		if a.Write {
			return w.Write(x)
		}
		return w.Append(x)
	}
	switch a.Kind {
	case "dp":
		w, err = wal.NewWAL(p, wal.NewDataPointEncoder())
		if err != nil {
			return nil, err
		}
		for _, f := range a.Frames {
			dps := make([]wal.WalDatapoint, len(f))
			for i, d := range f {
				dps[i] = wal.WalDatapoint{Timestamp: d.TS, DpVal: math.Float64frombits(d.Bits), Tsid: d.Tsid}
			}
			if err := put(dps); err != nil {
				return nil, err
			}
		}
	case "mname":
		w, err = wal.NewWAL(p, wal.NewMetricNameEncoder())
		if err != nil {
			return nil, err
		}
		for _, f := range a.Names {
			if err := put(f); err != nil {
				return nil, err
			}
		}
	case "mmeta":
		w, err = wal.NewWAL(p, &wal.MetricsMetaEncoder{})
		if err != nil {
			return nil, err
		}
		for _, f := range a.Metas {
			var ms []*structs.MetricsMeta
			for _, d := range f {
				ms = append(ms, &structs.MetricsMeta{MSegmentDir: d, NumBlocks: 1, EarliestEpochSec: 1, LatestEpochSec: 2})
			}
			if err := put(ms); err != nil {
				return nil, err
			}
		}
	default:
		return nil, fmt.Errorf("unknown wal kind %q", a.Kind)
	}
	_ = w.Close()
	b, err := os.ReadFile(p)
	if err != nil {
		return nil, err
	}
	return map[string]interface{}{"file_b64": base64.StdEncoding.EncodeToString(b)}, nil
}

type WalIterArgs struct {
	Kind string `json:"kind"`
	File string `json:"file_b64"`
}

// waliter feeds bytes to the real WAL iterator and returns everything it yields before nil / error.
func walIter(raw json.RawMessage) (interface{}, error) {
	var a WalIterArgs
	if err := json.Unmarshal(raw, &a); err != nil {
		return nil, err
	}
	b, err := base64.StdEncoding.DecodeString(a.File)
	if err != nil {
		return nil, err
	}
	p := walTmp("iter.wal")
	if err := os.WriteFile(p, b, 0644); err != nil {
		return nil, err
	}
	out := map[string]interface{}{}
	const maxItems = 100000
	switch a.Kind {
	case "dp":
		var items []WalDP
		it, err := wal.NewWALReader(p)
		if err != nil {
			out["openErr"] = err.Error()
			break
		}
		for len(items) < maxItems {
			dp, err := it.Next()
			if err != nil {
				out["err"] = err.Error()
				break
			}
			if dp == nil {
				break
			}
			items = append(items, WalDP{dp.Timestamp, math.Float64bits(dp.DpVal), dp.Tsid})
		}
		_ = it.Close()
		out["dps"] = items
	case "mname":
		var items []string
		it, err := wal.NewMNameWalReader(p)
		if err != nil {
			out["openErr"] = err.Error()
			break
		}
		for len(items) < maxItems {
			s, err := it.Next()
			if err != nil {
				out["err"] = err.Error()
				break
			}
			if s == nil {
				break
			}
			items = append(items, *s)
		}
		_ = it.Close()
		out["names"] = items
	case "mmeta":
		var items []string
		it, err := wal.NewMetricsMetaEntryWalReader(p)
		if err != nil {
			out["openErr"] = err.Error()
			break
		}
		for len(items) < maxItems {
			m, err := it.Next()
			if err != nil {
				out["err"] = err.Error()
				break
			}
			if m == nil {
				break
			}
			items = append(items, m.MSegmentDir)
		}
		_ = it.Close()
		out["names"] = items
	}
	return out, nil
}

func init() {
	Register("walbuild", walBuild)
	Register("waliter", walIter)
}

// mputl: light-mode datapoint ingest (the function the OpenTSDB handler calls per datapoint).
func mputLight(raw json.RawMessage) (interface{}, error) {
	var a struct {
		JSON string `json:"json"`
		Org  int64  `json:"org"`
	}
	if err := json.Unmarshal(raw, &a); err != nil {
		return nil, err
	}
	err := writer.AddTimeSeriesEntryToInMemBuf([]byte(a.JSON), sutils.SIGNAL_METRICS_OTSDB, a.Org)
	if err != nil {
		return map[string]interface{}{"accepted": false, "error": err.Error()}, nil
	}
	return map[string]interface{}{"accepted": true}, nil
}

// mdumpfiles decodes every block file (*.tsg) under the data directory with the real series decoder.
func mdumpFiles(raw json.RawMessage) (interface{}, error) {
	type ser struct {
		Tsid   uint64      `json:"tsid"`
		Points [][2]uint64 `json:"points"` // ts, bits
		Err    string      `json:"err,omitempty"`
	}
	out := map[string][]ser{}
	_ = filepath.Walk(DataDir+"data/", func(p string, info os.FileInfo, err error) error {
		if err != nil || info.IsDir() || filepath.Ext(p) != ".tsg" {
			return nil
		}
		b, rerr := os.ReadFile(p)
		rel := p[len(DataDir):]
		if rerr != nil || len(b) < 1 {
			out[rel] = []ser{{Err: "unreadable"}}
			return nil
		}
		off := 1
		var list []ser
		for off < len(b) {
			if off+12 > len(b) {
				list = append(list, ser{Err: "truncated header"})
				break
			}
			tsid := binary.LittleEndian.Uint64(b[off:])
			n := int(binary.LittleEndian.Uint32(b[off+8:]))
			off += 12
			if off+n > len(b) {
				list = append(list, ser{Tsid: tsid, Err: "truncated series"})
				break
			}
			s := ser{Tsid: tsid}
			it, derr := compress.NewDecompressIterator(bytes.NewReader(b[off : off+n]))
			if derr != nil {
				s.Err = derr.Error()
			} else {
				for it.Next() {
					t, v := it.At()
					s.Points = append(s.Points, [2]uint64{uint64(t), math.Float64bits(v)})
				}
				if it.Err() != nil {
					s.Err = it.Err().Error()
				}
			}
			list = append(list, s)
			off += n
		}
		out[rel] = list
		return nil
	})
	return out, nil
}

func init() {
	Register("mputl", mputLight)
	Register("mdumpfiles", mdumpFiles)
}

// mseriesread: the real per-block series reader on one block: a fresh TimeSeriesBlockReader, then the given tsids
// are looked up in the given order (the reader keeps a cursor between lookups).
func mseriesRead(raw json.RawMessage) (interface{}, error) {
	var a struct {
		Tsg   string   `json:"tsg"`   // path of the block's .tsg file relative to the worker directory
		Order []string `json:"order"` // tsids in decimal
	}
	if err := json.Unmarshal(raw, &a); err != nil {
		return nil, err
	}
	p := DataDir + a.Tsg
	i := strings.LastIndex(p, "_")
	if i < 0 || !strings.HasSuffix(p, ".tsg") {
		return nil, fmt.Errorf("not a block file: %s", a.Tsg)
	}
	blk, err := strconv.ParseUint(strings.TrimSuffix(p[i+1:], ".tsg"), 10, 16)
	if err != nil {
		return nil, err
	}
	seg, err := series.InitTimeSeriesReader(p[:i])
	if err != nil {
		return nil, err
	}
	defer seg.Close()
	br, err := seg.InitReaderForBlock(uint16(blk), &structs.MetricsQueryProcessingMetrics{UpdateLock: newRepoMutex()})
	if err != nil {
		return map[string]interface{}{"initErr": err.Error()}, nil
	}
	type res struct {
		Tsid   string      `json:"tsid"`
		Found  bool        `json:"found"`
		Err    string      `json:"err,omitempty"`
		Points [][2]uint64 `json:"points"`
	}
	var out []res
	for _, t := range a.Order {
		id, perr := strconv.ParseUint(t, 10, 64)
		if perr != nil {
			return nil, perr
		}
		r := res{Tsid: t}
		it, found, gerr := br.GetTimeSeriesIterator(id)
		r.Found = found
		if gerr != nil {
			r.Err = gerr.Error()
		}
		if found && it != nil {
			for it.Next() {
				ts, v := it.At()
				r.Points = append(r.Points, [2]uint64{uint64(ts), math.Float64bits(v)})
			}
			if it.Err() != nil {
				r.Err = it.Err().Error()
			}
		}
		out = append(out, r)
	}
	return map[string]interface{}{"lookups": out}, nil
}

func init() { Register("mseriesread", mseriesRead) }

// mdumpsummaries: independent decode of the metrics block summary files (.mbsu): per file the list of
// (block number, high timestamp, low timestamp). Layout: 1 version byte, then per block 2+8+8 bytes (timestamps in the low 4).
func mdumpSummaries(raw json.RawMessage) (interface{}, error) {
	out := map[string][][3]uint64{}
	_ = filepath.Walk(DataDir+"data/", func(p string, info os.FileInfo, err error) error {
		if err != nil || info.IsDir() || filepath.Ext(p) != ".mbsu" {
			return nil
		}
		b, rerr := os.ReadFile(p)
		if rerr != nil || len(b) < 1 {
			return nil
		}
		var list [][3]uint64
		for off := 1; off+18 <= len(b); off += 18 {
			list = append(list, [3]uint64{uint64(binary.LittleEndian.Uint16(b[off:])), uint64(binary.LittleEndian.Uint32(b[off+2:])), uint64(binary.LittleEndian.Uint32(b[off+10:]))})
		}
		out[p[len(DataDir):]] = list
		return nil
	})
	return out, nil
}

func init() { Register("mdumpsummaries", mdumpSummaries) }
