//go:build !verifsched

package sim

import (
	"encoding/json"
	"fmt"
	"sync"
)

func schedRun(raw json.RawMessage) (interface{}, error) {
	return nil, fmt.Errorf("this binary was built without the sync shim overlay (tag verifsched)")
}

func init() { Register("schedrun", schedRun) }

// newRepoMutex: a mutex of the type the siglens packages use in this build.
func newRepoMutex() *sync.Mutex { return &sync.Mutex{} }
