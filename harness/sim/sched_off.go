//go:build !verifsched

package sim

import (
	"encoding/json"
	"fmt"
)

func schedRun(raw json.RawMessage) (interface{}, error) {
	return nil, fmt.Errorf("this binary was built without the sync shim overlay (tag verifsched)")
}

func init() { Register("schedrun", schedRun) }
