//go:build verifsched

package sim

import (
	"encoding/json"
	"fmt"
	"sync"
	"time"

	"github.com/siglens/siglens/pkg/config"
	eswriter "github.com/siglens/siglens/pkg/es/writer"
	"github.com/siglens/siglens/pkg/retention"
	"github.com/siglens/siglens/pkg/segment/query"
	sutils "github.com/siglens/siglens/pkg/segment/utils"
	"github.com/siglens/siglens/pkg/segment/writer"
	vsync "github.com/siglens/siglens/pkg/zzvsync"
	"github.com/valyala/fasthttp"
)

// schedrun: one explored schedule. Party X (a list of operations) runs in its own goroutine tree; at X's k-th lock
// operation the goroutine performing it is held, party Y runs completely (if Y has to wait for a lock the held
// goroutine owns, X is released and Y finishes afterwards), then X is released. k = 0: no pause (counts the points).

type SchedStep struct {
	Op    string     `json:"op"` // ingest | flush | rotate | sizerotate | query
	Index string     `json:"index,omitempty"`
	Event string     `json:"event,omitempty"`
	Query *QueryArgs `json:"query,omitempty"`
	Ms    int        `json:"ms,omitempty"`
}

type SchedArgs struct {
	X       []SchedStep `json:"x"`
	Y       []SchedStep `json:"y"`
	PauseAt int64       `json:"pauseAt"`
	Pre     []SchedStep `json:"pre,omitempty"`  // before the schedule, no controller attached
	Post    []SchedStep `json:"post,omitempty"` // after both parties have finished
	// second hold: goroutines created by a function whose name contains AuxCreator are held at their AuxPauseAt-th
	// lock operation (0: only counted); after X is held the driver waits AuxWaitMs for that to happen
	AuxCreator string `json:"auxCreator,omitempty"`
	AuxPauseAt int64  `json:"auxPauseAt,omitempty"`
	AuxWaitMs  int    `json:"auxWaitMs,omitempty"`
	// AuxHoldAll: every goroutine created by AuxCreator is held at its first lock operation while X and Y run (no X
	// pause point is used); they are released before Post
	AuxHoldAll bool `json:"auxHoldAll,omitempty"`
}

type stepRes struct {
	Op      string    `json:"op"`
	Query   *QueryRes `json:"query,omitempty"`
	Err     string    `json:"err,omitempty"`
	Running []uint64  `json:"running,omitempty"`
	Waiting []uint64  `json:"waiting,omitempty"`
	Ms      int64     `json:"ms,omitempty"` // wall time of the step
}

// queries started by a "bgquery" step; "bgwait" collects them
var bgQueries []chan *QueryRes

func runSteps(steps []SchedStep) []stepRes {
	var out []stepRes
	for _, st := range steps {
		r := stepRes{Op: st.Op}
		switch st.Op {
		case "ingest":
			idx, _ := json.Marshal(st.Index)
			body := `{"index":{"_index":` + string(idx) + `}}` + "\n" + st.Event + "\n"
			if _, _, err := eswriter.HandleBulkBody([]byte(body), nil, nextQid(), 0, false); err != nil {
				r.Err = err.Error()
			}
		case "flush":
			doFlush()
		case "rotate":
			writer.ForceRotateSegmentsForTest()
		case "sizerotate":
			// the size-triggered rotation of production: the next flush finds the segment over the limit
			old := config.GetMaxSegFileSize()
			config.SetMaxSegFileSize(1)
			doFlush()
			config.SetMaxSegFileSize(old)
		case "query":
			t0 := time.Now()
			r.Query = RunQuery(st.Query)
			r.Ms = time.Since(t0).Milliseconds()
		case "bgquery":
			// a second client: the query runs in its own goroutine, its answer is collected by "bgwait"
			ch := make(chan *QueryRes, 1)
			q := st.Query
			bgQueries = append(bgQueries, ch)
			go func() { ch <- RunQuery(q) }()
		case "bgwait":
			if len(bgQueries) == 0 {
				r.Err = "no background query"
				break
			}
			ch := bgQueries[0]
			bgQueries = bgQueries[1:]
			select {
			case r.Query = <-ch:
			case <-time.After(time.Duration(st.Ms) * time.Millisecond):
				r.Err = "still not answered"
			}
		case "cancelall":
			// what the cancel API does, for every query the tables know
			run, wait := query.VerifQueryTables()
			r.Running, r.Waiting = run, wait
			for _, qid := range append(run, wait...) {
				query.CancelQuery(qid)
			}
		case "cancelwaiting":
			run, wait := query.VerifQueryTables()
			r.Running, r.Waiting = run, wait
			for _, qid := range wait {
				query.CancelQuery(qid)
			}
		case "mput":
			// one metrics datapoint (OpenTSDB JSON in Event) through the ingest entry point
			if err := writer.AddTimeSeriesEntryToInMemBuf([]byte(st.Event), sutils.SIGNAL_METRICS_OTSDB, 0); err != nil {
				r.Err = err.Error()
			}
		case "retention":
			// the time-based retention pass with a retention period of Ms hours
			retention.DoRetentionBasedDeletion(config.GetCurrentNodeIngestDir(), st.Ms, 0)
		case "delindex":
			ctx := &fasthttp.RequestCtx{}
			ctx.SetUserValue("indexName", st.Index)
			eswriter.ProcessDeleteIndex(ctx, 0)
			if ctx.Response.StatusCode() != 200 {
				r.Err = fmt.Sprintf("%d %s", ctx.Response.StatusCode(), ctx.Response.Body())
			}
		case "tables":
			r.Running, r.Waiting = query.VerifQueryTables()
		case "sleep":
			time.Sleep(time.Duration(st.Ms) * time.Millisecond)
		case "maxrunning":
			query.VerifSetMaxRunning(uint64(st.Ms))
		case "timeoutsecs":
			config.SetQueryTimeoutSecs(st.Ms)
		}
		out = append(out, r)
	}
	return out
}

func schedRun(raw json.RawMessage) (interface{}, error) {
	var a SchedArgs
	if err := json.Unmarshal(raw, &a); err != nil {
		return nil, err
	}
	var xres, yres []stepRes
	preres := runSteps(a.Pre)
	xdone := make(chan struct{})
	started := make(chan *vsync.Controller, 1)
	go func() {
		c := vsync.NewController(vsync.GID(), a.PauseAt)
		c.AuxCreator, c.AuxPauseAt, c.AuxHoldAll = a.AuxCreator, a.AuxPauseAt, a.AuxHoldAll
		vsync.Attach(c)
		started <- c
		xres = runSteps(a.X)
		close(xdone)
	}()
	c := <-started
	var resumeOnce sync.Once
	resume := func() { resumeOnce.Do(func() { close(c.Resume) }) }
	// whatever happens, nothing stays parked at the pause point after this schedule (a goroutine of the tree may reach
	// the k-th lock operation only after the party itself has returned)
	defer resume()
	out := map[string]interface{}{}
	var auxOnce0 sync.Once
	resumeAux0 := func() { auxOnce0.Do(func() { close(c.AuxResume) }) }
	if a.AuxHoldAll {
		defer resumeAux0()
	}
	paused := false
	select {
	case <-c.Paused:
		paused = true
	case <-xdone:
	}
	yBlocked, yStalled := false, false
	if paused && a.AuxCreator != "" && !a.AuxHoldAll {
		resumeAux := resumeAux0
		defer resumeAux()
		auxPaused := false
		select {
		case <-c.AuxPaused:
			auxPaused = true
		case <-time.After(time.Duration(a.AuxWaitMs) * time.Millisecond):
		}
		ydone := make(chan struct{})
		go func() {
			yres = runSteps(a.Y)
			close(ydone)
		}()
		yFinished := false
		select {
		case <-ydone:
			yFinished = true
		case <-c.YBlocked:
			yBlocked = true
		case <-time.After(6 * time.Second):
			yStalled = true
		}
		resumeAux()
		if !yFinished {
			select {
			case <-ydone:
				yFinished = true
			case <-time.After(3 * time.Second):
			}
		}
		resume()
		xFinished := false
		select {
		case <-xdone:
			xFinished = true
		case <-time.After(25 * time.Second):
		}
		if !yFinished {
			select {
			case <-ydone:
				yFinished = true
			case <-time.After(10 * time.Second):
			}
		}
		vsync.Detach()
		out["auxPaused"] = auxPaused
		out["auxPausedAt"] = c.AuxPausedL
		out["auxPoints"] = c.AuxCount()
		out["auxLabels"] = c.AuxLabels
		out["xHung"] = !xFinished
		out["yHung"] = !yFinished
		out["pre"] = preres
		if xFinished && yFinished {
			out["post"] = runSteps(a.Post)
			out["x"] = xres
			out["y"] = yres
		}
		out["points"] = c.Count()
		out["paused"] = paused
		out["pausedAt"] = c.PausedL
		out["yBlocked"] = yBlocked
		out["yStalled"] = yStalled
		return out, nil
	}
	if paused {
		ydone := make(chan struct{})
		go func() {
			yres = runSteps(a.Y)
			close(ydone)
		}()
		select {
		case <-ydone:
			resume()
			<-xdone
		case <-c.YBlocked:
			// Y needs a lock the held goroutine owns: in this schedule Y waits, X goes on
			yBlocked = true
			resume()
			<-xdone
			<-ydone
		case <-time.After(20 * time.Second):
			yStalled = true // safety net, reported as such (never a verdict)
			resume()
			<-xdone
			<-ydone
		}
	} else {
		// the pause point does not exist: Y runs after X
		yres = runSteps(a.Y)
		if a.AuxHoldAll {
			out["auxHeld"] = c.AuxHeld()
			resumeAux0()
		}
	}
	vsync.Detach()
	out["pre"] = preres
	out["post"] = runSteps(a.Post)
	out["points"] = c.Count()
	out["paused"] = paused
	out["pausedAt"] = c.PausedL
	out["yBlocked"] = yBlocked
	out["yStalled"] = yStalled
	out["x"] = xres
	out["y"] = yres
	if a.PauseAt == 0 {
		out["labels"] = c.Labels
	} else if paused {
		out["labelsBefore"] = c.LabelsUpTo(a.PauseAt - 1)
		out["labelsOfHeldAfter"] = c.LabelsOfHeldAfter()
	}
	return out, nil
}

func init() {
	Register("schedrun", schedRun)
	_ = fmt.Sprint
}

// newRepoMutex: a mutex of the type the siglens packages use in this build (the shim's).
func newRepoMutex() *vsync.Mutex { return &vsync.Mutex{} }
