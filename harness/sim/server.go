package sim

import (
	"bytes"
	"encoding/base64"
	"encoding/json"
	"fmt"
	"io"
	"net"
	"net/http"
	"os"
	"path/filepath"
	"time"

	"github.com/siglens/siglens/cmd/startup"
	"github.com/siglens/siglens/pkg/config"
)

var IngestPort, QueryPort int

// freePort picks a currently unused port outside the kernel's ephemeral range (32768–60999), so that outgoing
// connections of other workers cannot grab it between the probe and the server's listen.
var portCalls int

func freePort() int {
	// first choice: a pair of ports derived from the process id (distinct for all live workers unless their pids differ
	// by a multiple of 10000); fall back to a random probe
	portCalls++
	if portCalls <= 2 {
		p := 10000 + (os.Getpid()%10000)*2 + (portCalls - 1)
		if l, err := net.Listen("tcp", fmt.Sprintf("127.0.0.1:%d", p)); err == nil {
			l.Close()
			return p
		}
	}
	seed := uint32(os.Getpid())*2654435761 + uint32(time.Now().UnixNano())
	for i := 0; i < 200; i++ {
		seed = seed*1664525 + 1013904223
		p := 10000 + int(seed>>8)%20000
		l, err := net.Listen("tcp", fmt.Sprintf("127.0.0.1:%d", p))
		if err != nil {
			continue
		}
		l.Close()
		return p
	}
	return 0
}

func repoDir() string {
	if s := os.Getenv("VERIF_REPO"); s != "" {
		return s
	}
	return "/repo"
}

// bootServer starts the complete server exactly as cmd/startup does after configuration: both fasthttp servers with
// the real routers (on loopback ports), writer/query nodes, alerting, dashboards, saved queries, retention cleaner.
func bootServer(a *BootArgs) error {
	// cwd-relative resources used by the query server
	_ = os.Symlink(filepath.Join(repoDir(), "static"), filepath.Join(a.Dir, "static"))
	_ = os.MkdirAll(filepath.Join(a.Dir, "defaultDBs"), 0755)
	if ents, err := os.ReadDir(filepath.Join(repoDir(), "defaultDBs")); err == nil {
		for _, e := range ents {
			b, err := os.ReadFile(filepath.Join(repoDir(), "defaultDBs", e.Name()))
			if err == nil {
				_ = os.WriteFile(filepath.Join(a.Dir, "defaultDBs", e.Name()), b, 0644)
			}
		}
	}
	nodeType, err := config.ValidateDeployment()
	if err != nil {
		return fmt.Errorf("ValidateDeployment: %v", err)
	}
	if err := startup.StartSiglensServer(nodeType, "node"); err != nil {
		return fmt.Errorf("StartSiglensServer: %v", err)
	}
	// wait until both listeners accept
	deadline := time.Now().Add(20 * time.Second)
	for _, p := range []int{IngestPort, QueryPort} {
		for {
			c, err := net.DialTimeout("tcp", fmt.Sprintf("127.0.0.1:%d", p), time.Second)
			if err == nil {
				c.Close()
				break
			}
			if time.Now().After(deadline) {
				return fmt.Errorf("server port %d not listening: %v", p, err)
			}
			time.Sleep(20 * time.Millisecond)
		}
	}
	return nil
}

type HTTPArgs struct {
	Server  string            `json:"server"` // ingest | query
	Method  string            `json:"method"`
	Path    string            `json:"path"` // raw path + query string, sent as is
	Body    string            `json:"body,omitempty"`
	BodyB64 string            `json:"body_b64,omitempty"`
	Headers map[string]string `json:"headers,omitempty"`
}

var httpClient = &http.Client{Timeout: 60 * time.Second}

func httpOp(raw json.RawMessage) (interface{}, error) {
	var a HTTPArgs
	if err := json.Unmarshal(raw, &a); err != nil {
		return nil, err
	}
	port := QueryPort
	if a.Server == "ingest" {
		port = IngestPort
	}
	body := []byte(a.Body)
	if a.BodyB64 != "" {
		b, err := base64.StdEncoding.DecodeString(a.BodyB64)
		if err != nil {
			return nil, err
		}
		body = b
	}
	// build the request line ourselves so that the raw path reaches the router untouched
	url := fmt.Sprintf("http://127.0.0.1:%d", port)
	req, err := http.NewRequest(a.Method, url+"/", bytes.NewReader(body))
	if err != nil {
		return nil, err
	}
	req.URL.Opaque = a.Path
	for k, v := range a.Headers {
		req.Header.Set(k, v)
	}
	resp, err := httpClient.Do(req)
	if err != nil {
		return map[string]interface{}{"transportErr": err.Error()}, nil
	}
	defer resp.Body.Close()
	rb, _ := io.ReadAll(io.LimitReader(resp.Body, 64<<20))
	return map[string]interface{}{"status": resp.StatusCode, "body": string(rb), "ctype": resp.Header.Get("Content-Type")}, nil
}

func init() { Register("http", httpOp) }
