// Package sim boots siglens in-process (production config path) and serves JSON jobs on a pipe.
// One worker = one OS process = one siglens "instance"; the coordinator (package kernel) owns verdicts.
package sim

import (
	"bufio"
	"bytes"
	"context"
	"encoding/base64"
	"encoding/json"
	"fmt"
	"github.com/siglens/siglens/pkg/memorypool"
	"io"
	"os"
	"runtime"
	"runtime/debug"
	"sort"
	"strings"
	"sync/atomic"
	"syscall"
	"time"

	"github.com/siglens/siglens/pkg/ast/pipesearch"
	"github.com/siglens/siglens/pkg/config"
	eswriter "github.com/siglens/siglens/pkg/es/writer"
	"github.com/siglens/siglens/pkg/hooks"
	"github.com/siglens/siglens/pkg/querytracker"
	"github.com/siglens/siglens/pkg/segment/memory/limit"
	"github.com/siglens/siglens/pkg/segment/query"
	sutils "github.com/siglens/siglens/pkg/segment/utils"
	"github.com/siglens/siglens/pkg/segment/writer"
	"github.com/siglens/siglens/pkg/segment/writer/metrics"
	serverutils "github.com/siglens/siglens/pkg/server/utils"
	vtable "github.com/siglens/siglens/pkg/virtualtable"
	log "github.com/sirupsen/logrus"
)

type Req struct {
	ID   int64           `json:"id"`
	Op   string          `json:"op"`
	Args json.RawMessage `json:"args,omitempty"`
}

type Resp struct {
	ID  int64       `json:"id"`
	OK  bool        `json:"ok"`
	Res interface{} `json:"res,omitempty"`
	Err string      `json:"err,omitempty"`
}

// Handler for one operation. Extra operations are registered by other files of this package.
type opFn func(args json.RawMessage) (interface{}, error)

var ops = map[string]opFn{}

func Register(name string, f opFn) { ops[name] = f }

var qidCounter uint64 = 1000

func nextQid() uint64 { return atomic.AddUint64(&qidCounter, 1) }

var DataDir string
var orgIds = []int64{0}

type BootArgs struct {
	Dir      string             `json:"dir"`
	Orgs     []int64            `json:"orgs,omitempty"`
	PQS      *bool              `json:"pqs,omitempty"`
	Aggs     *bool              `json:"aggs,omitempty"`
	CardLim  *int               `json:"cardLimit,omitempty"`
	Recover  bool               `json:"recover,omitempty"`
	ExtraYml string             `json:"extraYaml,omitempty"`
	Debug    bool               `json:"debug,omitempty"`
	Tun      map[string]float64 `json:"tun,omitempty"`         // package-level thresholds set before the stores are initialised
	CrashLog string             `json:"crashLog,omitempty"`    // record every mutating fs operation under <dir>/data into this file (crashfs)
	RelPaths bool               `json:"relPaths,omitempty"`    // configure dataPath relative to cwd (= dir) so that a copy of the directory is self-contained
	RecoverB bool               `json:"recoverBoot,omitempty"` // booting on an existing directory: wait for / run the start-up recovery before answering
	Server   bool               `json:"server,omitempty"`      // boot the whole server (real routers on loopback ports) through StartSiglensServer
	Features []string           `json:"features,omitempty"`
}

var booted bool
var pullCancel context.CancelFunc

func boot(raw json.RawMessage) (interface{}, error) {
	var a BootArgs
	if err := json.Unmarshal(raw, &a); err != nil {
		return nil, err
	}
	if booted {
		return nil, fmt.Errorf("already booted")
	}
	if !strings.HasSuffix(a.Dir, "/") {
		a.Dir += "/"
	}
	DataDir = a.Dir
	if a.CrashLog != "" {
		if err := installCrashHook(a.CrashLog, a.Dir+"data/"); err != nil {
			return nil, err
		}
	}
	if err := os.MkdirAll(a.Dir+"data/", 0755); err != nil {
		return nil, err
	}
	if err := os.MkdirAll(a.Dir+"logs/", 0755); err != nil {
		return nil, err
	}
	// dashboards use a cwd-relative defaultDBs/ path
	if err := os.Chdir(a.Dir); err != nil {
		return nil, err
	}
	yaml := fmt.Sprintf("dataPath: %sdata/\nlog:\n  logPrefix: %slogs/\n%s", a.Dir, a.Dir, a.ExtraYml)
	if a.RelPaths {
		yaml = fmt.Sprintf("dataPath: data/\nlog:\n  logPrefix: logs/\n%s", a.ExtraYml)
	}
	if a.Server {
		IngestPort, QueryPort = freePort(), freePort()
		yaml += fmt.Sprintf("ingestListenIP: 127.0.0.1\nqueryListenIP: 127.0.0.1\ningestPort: %d\nqueryPort: %d\n", IngestPort, QueryPort)
	}
	cfg, err := config.ExtractConfigData([]byte(yaml))
	if err != nil {
		return nil, fmt.Errorf("ExtractConfigData: %v", err)
	}
	config.SetConfig(cfg)
	if err := config.InitDerivedConfig("node"); err != nil {
		return nil, fmt.Errorf("InitDerivedConfig: %v", err)
	}
	lf, err := os.OpenFile(a.Dir+"logs/worker.log", os.O_CREATE|os.O_WRONLY|os.O_APPEND, 0644)
	if err == nil {
		log.SetOutput(lf)
	}
	if a.Debug {
		log.SetLevel(log.DebugLevel)
	} else {
		log.SetLevel(log.WarnLevel)
	}
	if len(a.Orgs) > 0 {
		orgIds = a.Orgs
		ids := append([]int64{}, a.Orgs...)
		hooks.GlobalHooks.GetIdsConditionHook = func() (bool, []int64) { return true, ids }
	}
	if a.PQS != nil {
		config.SetPQSEnabled(*a.PQS)
	}
	if a.Aggs != nil {
		config.SetAggregationsFlag(*a.Aggs)
	}
	if a.CardLim != nil {
		writer.SetCardinalityLimit(uint16(*a.CardLim))
	}
	for _, f := range bootHooks {
		if err := f(&a); err != nil {
			return nil, err
		}
	}
	if a.Server {
		if err := bootServer(&a); err != nil {
			return nil, err
		}
		for _, f := range postBootHooks {
			if err := f(&a); err != nil {
				return nil, err
			}
		}
		booted = true
		return map[string]interface{}{"dir": a.Dir, "ingestPort": IngestPort, "queryPort": QueryPort}, nil
	}
	for k, v := range a.Tun {
		switch k {
		case "walBlockFlushSize":
			sutils.WAL_BLOCK_FLUSH_SIZE = int(v)
		case "maxWalFileSize":
			sutils.MAX_WAL_FILE_SIZE_BYTES = uint64(v)
		default:
			return nil, fmt.Errorf("unknown boot tunable %q", k)
		}
	}
	limit.InitMemoryLimiter()
	if err := vtable.InitVTable(serverutils.GetMyIds); err != nil {
		return nil, fmt.Errorf("InitVTable: %v", err)
	}
	querytracker.InitQT()
	if a.RecoverB {
		// cmd/startup runs the three WAL recoveries on the main goroutine right after launching the ingest server
		// goroutine (which initialises the writer node), i.e. normally before the new stores exist
		metrics.RecoverWALData()
		metrics.RecoverMNameWALData()
		metrics.RecoverMEntryWALData()
	}
	writer.InitWriterNode()
	if err := query.InitQueryNode(serverutils.GetMyIds, serverutils.ExtractKibanaRequests); err != nil {
		return nil, fmt.Errorf("InitQueryNode: %v", err)
	}
	query.InitMaxRunningQueries()
	var ctx context.Context
	ctx, pullCancel = context.WithCancel(context.Background())
	go query.PullQueriesToRun(ctx)
	for _, f := range postBootHooks {
		if err := f(&a); err != nil {
			return nil, err
		}
	}
	if a.RecoverB {
		// production starts the recovery of segments missing from segmeta.json as a goroutine (initSyncSegMetaForAllIds);
		// wait until it has run: look for it for up to 60 ms, and once seen wait until it is gone. The step is not run a
		// second time by the harness (two concurrent runs could both register the same segment).
		seen := false
		start := time.Now()
		for time.Since(start) < 5*time.Second {
			busy := false
			for sig := range GoroutineSignatures() {
				if strings.Contains(sig, "initSyncSegMetaForAllIds") {
					busy = true
				}
			}
			if busy {
				seen = true
			} else if seen || time.Since(start) > 60*time.Millisecond {
				break
			}
			time.Sleep(time.Millisecond)
		}
	}
	booted = true
	return map[string]interface{}{"dir": a.Dir}, nil
}

var bootHooks []func(*BootArgs) error
var postBootHooks []func(*BootArgs) error

type BulkArgs struct {
	Org   int64  `json:"org"`
	Body  string `json:"body,omitempty"`
	BodyB string `json:"body_b64,omitempty"`
}

func bulk(raw json.RawMessage) (interface{}, error) {
	var a BulkArgs
	if err := json.Unmarshal(raw, &a); err != nil {
		return nil, err
	}
	body := []byte(a.Body)
	if a.BodyB != "" {
		b, err := base64.StdEncoding.DecodeString(a.BodyB)
		if err != nil {
			return nil, err
		}
		body = b
	}
	n, resp, err := eswriter.HandleBulkBody(body, nil, nextQid(), a.Org, false)
	out := map[string]interface{}{"processed": n, "resp": resp}
	if err != nil {
		out["error"] = err.Error()
	}
	return out, nil
}

type IngestArgs struct {
	Org       int64             `json:"org"`
	Index     string            `json:"index"`
	Events    []json.RawMessage `json:"events"`
	FlushEach bool              `json:"flushEach,omitempty"`
}

// ingest sends each event as an ES bulk "index" action (one bulk call per event when flushEach).
func ingest(raw json.RawMessage) (interface{}, error) {
	var a IngestArgs
	if err := json.Unmarshal(raw, &a); err != nil {
		return nil, err
	}
	var sb strings.Builder
	statuses := []interface{}{}
	send := func() error {
		if sb.Len() == 0 {
			return nil
		}
		_, resp, err := eswriter.HandleBulkBody([]byte(sb.String()), nil, nextQid(), a.Org, false)
		sb.Reset()
		if err != nil {
			return err
		}
		statuses = append(statuses, resp)
		return nil
	}
	for _, ev := range a.Events {
		idx, _ := json.Marshal(a.Index)
		sb.WriteString(`{"index":{"_index":` + string(idx) + `}}` + "\n")
		sb.Write(compactJSON(ev))
		sb.WriteString("\n")
		if a.FlushEach {
			if err := send(); err != nil {
				return nil, err
			}
			doFlush()
		}
	}
	if err := send(); err != nil {
		return nil, err
	}
	return statuses, nil
}

func compactJSON(b []byte) []byte {
	// keep the bytes as sent but strip newlines (a bulk doc must be one line)
	return []byte(strings.ReplaceAll(string(b), "\n", " "))
}

func doFlush() {
	z := time.Duration(0)
	writer.FlushWipBufferToFile(&z, nil)
}

func flush(raw json.RawMessage) (interface{}, error) {
	doFlush()
	return nil, nil
}

func rotate(raw json.RawMessage) (interface{}, error) {
	writer.ForceRotateSegmentsForTest()
	return nil, nil
}

type QueryArgs struct {
	Org   int64       `json:"org"`
	Index string      `json:"index"`
	Text  string      `json:"text"`
	Lang  string      `json:"lang,omitempty"`
	Start uint64      `json:"start"`
	End   uint64      `json:"end"`
	Size  int         `json:"size,omitempty"`
	From  int         `json:"from,omitempty"`
	Nulls bool        `json:"nulls,omitempty"`
	Extra interface{} `json:"extra,omitempty"`
}

type QueryRes struct {
	Records      []map[string]interface{} `json:"records"`
	Total        interface{}              `json:"total"`
	Measure      []map[string]interface{} `json:"measure,omitempty"`
	GroupByCols  []string                 `json:"groupByCols,omitempty"`
	MeasureFuncs []string                 `json:"measureFunctions,omitempty"`
	AllColumns   []string                 `json:"allColumns,omitempty"`
	ColumnsOrder []string                 `json:"columnsOrder,omitempty"`
	Errors       []string                 `json:"errors,omitempty"`
	Qtype        string                   `json:"qtype,omitempty"`
	Err          string                   `json:"err,omitempty"`
	ScrollMax    bool                     `json:"scrollMax,omitempty"`
	BucketCount  int                      `json:"bucketCount,omitempty"`
	Nil          bool                     `json:"nil,omitempty"`
}

func RunQuery(a *QueryArgs) *QueryRes {
	m := map[string]interface{}{
		"searchText":    a.Text,
		"indexName":     a.Index,
		"startEpoch":    a.Start,
		"endEpoch":      a.End,
		"queryLanguage": a.Lang,
	}
	if a.Lang == "" {
		m["queryLanguage"] = "Splunk QL"
	}
	if a.Size != 0 {
		m["size"] = a.Size
	}
	if a.From != 0 {
		m["from"] = a.From
	}
	if a.Nulls {
		m["includeNulls"] = true
	}
	if os.Getenv("VERIF_POOL_QUARANTINE") != "" {
		memorypool.VerifQuarantineOn.Store(true) // experiment: pool discipline of the query path on undamaged data
	}
	resp, scrollMax, _, err := pipesearch.ParseAndExecutePipeRequest(m, nextQid(), a.Org, time.Now(), "-1", nil)
	out := &QueryRes{ScrollMax: scrollMax}
	if os.Getenv("VERIF_POOL_QUARANTINE") != "" {
		if v, _ := memorypool.VerifCheckQuarantine(); len(v) > 0 && err == nil {
			err = fmt.Errorf("POOL: %v", v)
		}
	}
	if err != nil {
		out.Err = err.Error()
		return out
	}
	if resp == nil {
		out.Nil = true
		return out
	}
	out.Records = resp.Hits.Hits
	out.Total = resp.Hits.TotalMatched
	out.GroupByCols = resp.GroupByCols
	out.MeasureFuncs = resp.MeasureFunctions
	out.AllColumns = resp.AllPossibleColumns
	out.ColumnsOrder = resp.ColumnsOrder
	out.Errors = resp.Errors
	out.Qtype = resp.Qtype
	out.BucketCount = resp.BucketCount
	for _, b := range resp.MeasureResults {
		if b == nil {
			continue
		}
		out.Measure = append(out.Measure, map[string]interface{}{"g": b.GroupByValues, "m": b.MeasureVal})
	}
	return out
}

func queryOp(raw json.RawMessage) (interface{}, error) {
	var a QueryArgs
	if err := json.Unmarshal(raw, &a); err != nil {
		return nil, err
	}
	return RunQuery(&a), nil
}

// queries runs several queries in one round trip (same semantic as calling query repeatedly).
func queriesOp(raw json.RawMessage) (interface{}, error) {
	var as []QueryArgs
	if err := json.Unmarshal(raw, &as); err != nil {
		return nil, err
	}
	out := make([]*QueryRes, len(as))
	for i := range as {
		out[i] = RunQuery(&as[i])
	}
	return out, nil
}

type TunArgs struct {
	Name  string  `json:"name"`
	Value float64 `json:"value"`
}

func tun(raw json.RawMessage) (interface{}, error) {
	var a TunArgs
	if err := json.Unmarshal(raw, &a); err != nil {
		return nil, err
	}
	switch a.Name {
	case "cardLimit":
		writer.SetCardinalityLimit(uint16(a.Value))
	case "pqs":
		config.SetPQSEnabled(a.Value != 0)
	case "aggs":
		config.SetAggregationsFlag(a.Value != 0)
	case "maxSegFileSize":
		config.SetMaxSegFileSize(uint64(a.Value))
	case "gomaxprocs":
		return map[string]interface{}{"prev": runtime.GOMAXPROCS(int(a.Value))}, nil
	default:
		if f, ok := tunables[a.Name]; ok {
			return nil, f(a.Value)
		}
		return nil, fmt.Errorf("unknown tunable %q", a.Name)
	}
	return nil, nil
}

var tunables = map[string]func(float64) error{}

func statsOp(raw json.RawMessage) (interface{}, error) {
	return map[string]interface{}{
		"goroutines":    runtime.NumGoroutine(),
		"activeQueries": query.GetActiveQueryCount(),
	}, nil
}

// GoroutineSignatures returns, per distinct stack signature (function names only), the number of goroutines.
func GoroutineSignatures() map[string]int {
	buf := make([]byte, 8<<20)
	n := runtime.Stack(buf, true)
	out := map[string]int{}
	for _, g := range strings.Split(string(buf[:n]), "\n\n") {
		lines := strings.Split(g, "\n")
		var fns []string
		for _, l := range lines[1:] {
			if strings.HasPrefix(l, "\t") || l == "" {
				continue
			}
			if i := strings.LastIndex(l, "("); i > 0 {
				l = l[:i]
			}
			fns = append(fns, l)
		}
		out[strings.Join(fns, "<")]++
	}
	return out
}

func goroutinesOp(raw json.RawMessage) (interface{}, error) {
	s := GoroutineSignatures()
	keys := make([]string, 0, len(s))
	for k := range s {
		keys = append(keys, k)
	}
	sort.Strings(keys)
	return map[string]interface{}{"sigs": s}, nil
}

func markOp(raw json.RawMessage) (interface{}, error) {
	var a struct {
		Text string `json:"text"`
	}
	_ = json.Unmarshal(raw, &a)
	crashMark(a.Text)
	return nil, nil
}

func init() {
	Register("mark", markOp)
	Register("boot", boot)
	Register("bulk", bulk)
	Register("ingest", ingest)
	Register("flush", flush)
	Register("rotate", rotate)
	Register("query", queryOp)
	Register("queries", queriesOp)
	Register("tun", tun)
	Register("stats", statsOp)
	Register("goroutines", goroutinesOp)
}

// Main is the worker loop. Responses go to the original stdout; fd 1 is then redirected to stderr so that
// nothing siglens prints can corrupt the protocol.
func Main() {
	outFd, err := syscall.Dup(1)
	if err != nil {
		fmt.Fprintln(os.Stderr, "worker: dup failed", err)
		os.Exit(3)
	}
	_ = syscall.Dup2(2, 1)
	out := bufio.NewWriter(os.NewFile(uintptr(outFd), "proto"))
	in := bufio.NewReaderSize(os.Stdin, 1<<20)
	debug.SetTraceback("all")
	for {
		line, err := in.ReadBytes('\n')
		if len(line) > 0 {
			var rq Req
			if jerr := json.Unmarshal(line, &rq); jerr != nil {
				fmt.Fprintln(os.Stderr, "worker: bad request", jerr)
				os.Exit(3)
			}
			if rq.Op == "exit" {
				os.Exit(0)
			}
			rs := Resp{ID: rq.ID}
			f, ok := ops[rq.Op]
			if !ok {
				rs.Err = "unknown op " + rq.Op
			} else {
				res, oerr := f(rq.Args)
				if oerr != nil {
					rs.Err = oerr.Error()
				} else {
					rs.OK = true
					rs.Res = res
				}
			}
			b, merr := json.Marshal(rs)
			if merr != nil {
				b, _ = json.Marshal(Resp{ID: rq.ID, Err: "marshal: " + merr.Error()})
			}
			out.Write(b)
			out.WriteByte('\n')
			out.Flush()
		}
		if err != nil {
			os.Exit(0)
		}
	}
}

func bytesReader(b []byte) io.Reader { return bytes.NewReader(b) }
