#!/usr/bin/env python3
"""Regenerates MANIFEST.json from the table below (single source; edit here, run, commit)."""
import json
CHECKS = {
 "C01": dict(level="model_checking", engine="seqx",
   technique="explicit-state enumeration of all ingest/flush/rotate histories up to a depth on the real code, compared with a Go reference model at every flushed prefix",
   text="Every history of <=3 (quick) / <=4 (thorough) events over a value-kind alphabet x every placement of {none, flush, flush+rotate} x cardinality limits, plus nested/array/two-column/duplicate-flattened-name shapes, timestamp-gap encodings, >dictionary-limit cardinality and near-record-size values, is executed on the real writer/reader in worker processes and the match-all and per-event point queries are compared with a reference model after every flushed prefix. Small-scope exhaustive, not a proof.",
   note="Outside the bound: >4 events per history, >2 interacting columns, arbitrary unicode. Mixed-kind columns are compared by canonical text (the statement's consolidation tolerance); PQS disabled as a named tunable.",
   ref="DESIGN.md §4 C01"),
}
CHECKS["C15"] = dict(level="exploration", engine="seqx",
   technique="bounded-exhaustive enumeration of all bulk bodies up to n action groups over a 12-kind line-group alphabet, executed on the real handler and compared with search results",
   text="All bulk bodies of <=3 (quick) / <=4 (thorough) action groups over 12 kinds (valid index/create on two indexes, invalid/truncated documents, document at and just under the size limit, unknown action, delete, update, missing _index, index without document line) x trailing newline yes/no go through HandleBulkBody; after a flush a per-history marker search decides item-by-item: one item per action in order, created iff searchable exactly once, errors iff some item failed, well-formed neighbours unaffected.",
   note="Store-level failure (1000 open segment stores) needs >24 GB address space and is not enumerated (DESIGN C15). For groups the statement does not classify only 'acknowledged iff stored' is asserted.",
   ref="DESIGN.md §4 C15")
CHECKS["C02"] = dict(level="exploration", engine="seqx",
   technique="bounded-exhaustive enumeration of filter expressions (atoms, NOT, all ordered AND/OR/AND-NOT/NOR pairs, all time ranges) x datasets x layouts on the real engine; reference model + differential relations",
   text="Every atom and every ordered pair of atoms in 4 boolean forms, each left atom under every time range with bounds on/next to event timestamps, over 4 datasets (mixed-type, ints, floats, strings; sparse columns) x 5 physical layouts x cardinality limits; oracles: three-valued reference model of the comparison rules the statement fixes, AND/OR = intersection/union of the observed operand results, NOT never overlaps its operand and is the complement where the comparison applies, search clause == where stage on numeric values, time-range restriction.",
   note="The model takes no stance on string-vs-number coercion, bool literals, != on absent fields, substring-but-not-word free text, NOT over absent/other-typed values. 35 genuine wrong-answer classes on the pinned tree are recorded in known_findings.json keyed by (oracle, data condition); failures under plain conditions keep detailed fingerprints.",
   ref="DESIGN.md §4 C02")
CHECKS["C04"] = dict(level="exploration", engine="seqx",
   technique="bounded-exhaustive enumeration of measure x group-by x span combinations over small datasets x every flush/rotate segmentation, on the real engine, against a Go aggregate model",
   text="14 measures x 4 target columns (dense, sparse, numeric-string, mixed) x 5 group-bys, combined and single-measure, and timechart spans 1s/1m/1h with/without by, over 4 datasets with timestamps on / 1 ms around bucket edges, for every placement of flush/rotate between events (54 segmentations per 4-event dataset) x cardinality limits; every bucket is compared with the aggregate computed by the reference model over exactly the model events of that group / time bucket.",
   note="Numeric measures are asserted for numeric and numeric-string values (min/max/percentiles only for numbers); percentiles must lie between neighbouring order statistics; an all-absent group may be omitted. Grouping by sparse/mixed keys and measures over sparse/mixed columns are wrong or crash on the pinned tree (nondeterministically across segments): recorded per (measure family, group class, column class) in known_findings.json; vanilla classes (no group / dense group, dense column) have no known finding.",
   ref="DESIGN.md §4 C04")
CHECKS["C05"] = dict(level="model_checking", engine="seqx",
   technique="explicit enumeration of all timestamp assignments x layouts x limits/pages and of sort specifications x value sets x layouts on the real engine, checked pairwise against an order model",
   text="All 81 assignments of 3 timestamps to 4 events (ties, out-of-order arrival, overlapping block/segment ranges) x layouts x GOMAXPROCS {1,2}: size limits, head n, and complete paging with page sizes 1..3 must give the n newest, newest first, every match exactly once. 7 (9) value sets incl. floats closer than 1e-4, sparse and mixed columns x layouts x 9 sort specifications: every pair of results whose order the keys determine must be in order, limits are prefixes, pages under sort concatenate to the sorted sequence.",
   note="Relative order of different kinds (number/text/absent) and of ties is not asserted. Sort-index layouts and the block-scheduler functions (getNextBlocks/getValidRRCs) are not yet driven separately. Known: paging is not stable under ties (two entries).",
   ref="DESIGN.md §4 C05")
CHECKS["C03"] = dict(level="exploration", engine="seqx",
   technique="differential bounded-exhaustive enumeration: every (dataset, query) under every configuration (layout x dictionary limit x PQS/aggregation-tree acceleration x GOMAXPROCS) against a baseline configuration, on the real engine",
   text="Each dataset is loaded twice inside one worker: in the baseline configuration (one open block, no accelerators, one processor) and in configuration k; 27 queries (numeric/text/wildcard/free-text filters, AND/OR/NOT, stats with/without group-by, timechart, sort, eval/where, dedup, top) must return identical normalised answers. k ranges over 8 (quick) / all 162 (thorough) flush/rotate layouts x dictionary limit {2,501} x PQS {off, on with every query registered after the first block so that pqmr bitsets and aggregation trees are written} x GOMAXPROCS {1,4}. The evidence counts configurations in which pqmr / agile-tree / sst / cmi files actually existed.",
   note="Datasets hold dense single-kind columns only (mixed/sparse columns: C02/C04). Sort-index and CMI-eviction configurations are not yet in the configuration space. One genuine accelerator defect is recorded (dc by group from aggregation trees).",
   ref="DESIGN.md §4 C03")
CHECKS["C06"] = dict(level="exploration", engine="seqx",
   technique="bounded-exhaustive enumeration of command chains x tables x all partitions of the input into successive batches on the real processors (real SPL parser + AggsToDataProcessors), differential against the single-batch run",
   text="Every command alone (27 instances of where/eval/fields/rename/fillnull/rex/regex/dedup/head/tail/sort/top/rare/bin/streamstats/makemv/mvexpand/stats) over all tables of <=3 (quick) / <=4 (thorough) rows from a 6-row alphabet, and every ordered pair over fixed 4-row tables (all <=3-row tables in thorough), is fed by a harness Streamer in every composition of the rows into batches, with EOF-with-data and with an inserted empty batch; the output must equal the one-batch output (as a sequence unless the chain contains stats/top/rare).",
   note="No storage involved. Several upstream streams (parallel chains) are not driven: the harness cannot reproduce the searcher's RRC-backed merge input (DESIGN C06). Crashes inside the storage-less harness are counted as inconclusive, not reported. Known: streamstats window not carried across batches.",
   ref="DESIGN.md §4 C06")
CHECKS["C08"] = dict(level="exploration", engine="seqx",
   technique="exhaustive enumeration of all short (timestamp-delta, value) sequences over boundary alphabets through the real codec, and of put/rotate/restart histories over collision-prone series sets through the real server endpoints",
   text="Codec: all 17.6 M sequences of <=3 pairs over 20 values (-0, ulp neighbours, subnormal, extremes, +Inf, XOR leading-zero counts 11/12/31/32/52/63) x 13 deltas (delta-of-delta across every field boundary) through Compressor/DecompressIterator must decode bit-identically (length 4 over a 12x8 core in thorough). End to end (whole server booted in the worker, OpenTSDB put endpoint in, Prometheus range-query endpoint out): every ordered pair of values on one series x block/segment rotation between x rotation/graceful restart after, and every ordered pair of series from 7 collision-prone tag sets with rotations between; per-series selectors must return exactly the accepted points bit-exactly, the metric name exactly the ingested series.",
   note="Segment rotation is the size-triggered one (forced rotation is the shutdown flush and is only used before a restart); the 5 s metadata re-read is fired explicitly after it. Known: -0.0 loses its sign; tag sets colliding under the key__value join are merged; a series first seen after a segment rotation is not returned. Tag-listing APIs are not yet compared.",
   ref="DESIGN.md §4 C08")
CHECKS["C09"] = dict(level="exploration", engine="seqx",
   technique="bounded-exhaustive enumeration of label-set subsets x matcher sets x aggregation/grouping clauses x vector arithmetic x layouts on the real server, against a Go PromQL label-set model",
   text="Metric m on every non-empty subset of a 2x2 label universe (15) plus a second metric on a different subset, 3 shared timestamps, under open / block-rotated / segment-rotated / restarted layouts: all 624 matcher sets of <=2 matchers over =,!=,=~,!~ and values a, b, a|b, .*, .+, empty; sum/min/max/avg/count x 6 grouping clauses; m op n and m op 2 for + - * /. Every returned label set, timestamp and value is compared with the model (which also gives avg = sum/count, min <= avg <= max, by-all-labels = identity).",
   note="Grid discipline: shared timestamps, windows <= 360 s, so no look-back rule is needed; __name__ ignored. Known: `without` removing all labels returns nothing.",
   ref="DESIGN.md §4 C09")
CHECKS["C07"] = dict(level="fault_enumeration", engine="crashfs",
   technique="exhaustive crash-point enumeration: every prefix of the recorded file-system operation log of a write history is materialised by a model file system (conformance-checked byte for byte against the real directory) and recovered by a fresh process of the real code",
   text="7 write histories (one and two flushes, flush+rotation, new segment after rotation, repeated rotation, two indexes, registered persistent query; thorough adds every history of <=4 ingest/flush/rotate operations) run in a child whose package os (build overlay of 4 GOROOT files) reports each mutating operation on the data directory in the order it took effect. Every distinct log prefix (about 1500 crash states in quick) is recovered by a new process booted through the production start-up path: start-up succeeds, every event of a flush completed before the cut is returned exactly once with its content, the flush in progress is all-or-nothing per index buffer, no garbage rows or errors, and one more ingest+rotation loses nothing.",
   note="Process-crash model (completed system calls persist; no torn writes). Per-column writer goroutines are explored in the observed order only; their files become visible only through the later block-summary append, see DESIGN C07. Data directory is configured relative to cwd so that a materialised copy is self-contained. One fix (tmp+rename of .sfm) and one known finding (new column of an in-progress flush).",
   ref="DESIGN.md §2.3, §4 C07")
CHECKS["C10"] = dict(level="fault_enumeration", engine="crashfs",
   technique="exhaustive fault enumeration: every truncation length and single-byte modification of WAL files through the real iterators, and every prefix of the file-system operation log of WAL append/rotate histories recovered by the real start-up path",
   text="Part M: WAL files of the three kinds (datapoints, metric names, segment meta entries; the latter also in truncate-and-rewrite mode) written by the real encoders are cut at every length and modified at every byte (4 values per byte in quick, all 255 in thorough) and fed to the real iterators inside workers limited to 2 GB of address space: the yielded sequence must be a prefix of what was appended or an error, damage must not go unnoticed, no crash, no hang. Part R: datapoint histories with the WAL thresholds pulled down (frame every 2 datapoints, optionally a new WAL file per frame), the 1 s timer flush and a block rotation run in a child whose package os reports every mutation; every distinct log prefix is recovered by a new process (the three Recover*WALData calls in production order) and the block files it leaves are decoded: every datapoint of a WAL frame that an independent reader of the documented frame format finds complete in the crash state must be there, nothing never sent, nothing twice.",
   note="Process-crash model. Metric-name and meta-entry WAL recovery is covered at iterator level only. In production the WAL recovery runs concurrently with the writer initialisation (startup.go); the check uses the order main-goroutine-first. One fix: block length validated against the file size before allocation.",
   ref="DESIGN.md §2.3, §2.4, §4 C10")
CHECKS["C14"] = dict(level="model_checking", engine="crashfs",
   technique="explicit enumeration of all segment-age sets x operation sequence (pass, pass, restart, pass) on the real retention code with a reference model, plus crash-prefix enumeration of the deletion's file-system operations",
   text="Time-based pass (DoRetentionBasedDeletion with a 1 h retention) over every set of <=3 rotated log segments on two indexes whose newest event is 90 min old / 30 min old / straddling the horizon, combined with rotated metrics segments {old, fresh} in both creation orders and an open segment holding old events (all 5x3 combinations for 3 segments in thorough): after pass, second pass, process restart and a further pass, searches return exactly the events of surviving segments, expired log and metrics data are gone, segment directories, metrics block directories and segmeta.json list exactly the survivors (the model knows that a restart turns the open segment into a rotated one, which then expires). Crash part: two recorded passes are cut after every file-system operation (about 75 states); a new process must start, serve all survivors without errors, and a repeated pass must reach the same final state.",
   note="Ages are >=30 min from the horizon on either side, so the `<=` at the exact horizon millisecond is outside the bound (time.Now() is not owned). Volume- and inode-based passes depend on the real file system's usage and are not driven.",
   ref="DESIGN.md §4 C14")
CHECKS["C13"] = dict(level="model_checking", engine="seqx",
   technique="explicit-state breadth-first search over a tenant model (canonical-state deduplication); every reachable model state is reached on the real code by replaying its shortest operation path, and all query forms are evaluated in it",
   text="Operations ingest(org in {0,1}, index in {a, ab, a-b}), add/remove alias (x, and ab which is also an index name), delete(org, index | a*), rotate; BFS to depth 4 (quick, 761 states) / 5 (thorough). In every state 9 index expressions (names that are prefixes of each other, wildcard, *, alias, lists, unknown) x both organisations x {search, stats count} must return no event of the other organisation, nothing outside the named indexes and everything inside them; deleting removes exactly that organisation's index.",
   note="Multi-tenancy enters through the public seam (GetIdsConditionHook -> [0,1], org id argument of the processing functions). Whether a wildcard expands alias names and which reading wins when an alias shares its name with an index is left open (lower/upper bounds). Metrics tenancy and column listings are not yet in the query forms. Known: aliases of org != 0 never resolve.",
   ref="DESIGN.md §4 C13")
CHECKS["C19"] = dict(level="exploration", engine="seqx",
   technique="bounded-exhaustive enumeration of names over a path-metacharacter alphabet x all path-deriving API operations, sent over HTTP through the real routers of the booted server; file-tree snapshot oracle",
   text="All names of <=2 (quick) / <=3 (thorough) atoms over {a, .., ., /, \\, %2e%2e, %2f, ../, x.csv, outside, ~, victim} plus targeted escapes (1-6 levels of ../ towards a sentinel directory, encoded and backslash variants, absolute paths, 300 characters, 40 levels) are used as the client-controlled name in 20 operations: lookup upload/get/delete, inputlookup, bulk _index + rotation, PUT/DELETE index, search index name, alias add (alias name / index name), dashboard create/get/update/delete, folder create/get, saved query save/get/delete, metric name and tag value + block rotation. After every single operation a snapshot (path, size, hash) of everything outside data/ and logs/ must be unchanged and no response may contain the sentinel's content.",
   note="Route parameters reach handlers exactly as the real fasthttp router delivers them (raw, undecoded). defaultDBs/ (cwd-relative, written by the dashboard code itself) is excluded. Scroll ids and tenant ids are not client-controlled in this tree. Five traversal findings were fixed in two commits (lookup names; index/alias names).",
   ref="DESIGN.md §4 C19")
NOT_YET = {}
props = [json.loads(l) for l in open("properties.jsonl")]
m = {"version": 1, "setup_cmd": "./vcheck setup",
 "hooks": {"guard": "verif (go build tag) + go build -overlay generated from /repo's working tree",
   "enable": "./vcheck builds harness/cmd/sigcheck with `-tags verif -overlay $VERIF_CACHE/overlay.json`; the overlay only ADDS files (harness/overlay/_files/...) to siglens packages; nothing is committed in /repo for hooks",
   "baseline_off_cmd": "cd /repo && GOFLAGS=-mod=mod go test -vet=off -count=1 -timeout 25m ./...",
   "source_commits": [], "add_only": True},
 "engines": [
   {"name": "crashfs", "path": "harness/kernel/crashfs.go", "serves_properties": [], "kind_free_text": "fault enumeration over every prefix of the logged file-system operations of a history; model fs + conformance check + recovery by a fresh process"},
   {"name": "seqx", "path": "harness/props", "serves_properties": [], "kind_free_text": "explicit-state / bounded-exhaustive search over operation histories of the real code in worker subprocesses, with Go reference models"},
 ],
 "checks": [], "not_applicable": [],
 "notes": "All checks: ./vcheck <id> <tier>; exit 0 held / 1 VIOLATION / 2 HARNESS-ERROR. known_findings.json lists recorded and fixed findings."}
for p in props:
    i = p["id"]
    if i in CHECKS:
        c = CHECKS[i]
        m["checks"].append({"property_id": i, "quick_cmd": f"./vcheck {i} quick", "thorough_cmd": f"./vcheck {i} thorough",
          "evidence_file": f"/verif/evidence/{i}.json", "replay_cmd_template": "./vcheck replay {path}", "engine": c["engine"],
          "level_claimed": {"category": c["level"], "text": c["text"], "design_ref": c["ref"]}, "level_note": c["note"], "technique": c["technique"]})
        for e in m["engines"]:
            if e["name"] == c["engine"]: e["serves_properties"].append(i)
    else:
        m["not_applicable"].append({"property_id": i, "reason": NOT_YET.get(i, "check not built yet in this session (bounded-exhaustive formulation exists in DESIGN.md §4); not claimed until its check is committed")})
json.dump(m, open("MANIFEST.json", "w"), indent=1)
print("checks:", [c["property_id"] for c in m["checks"]])
