#!/usr/bin/env python3
"""Regenerates MANIFEST.json from the table below (single source; edit here, run, commit)."""
import json
CHECKS = {
 "C01": dict(level="model_checking", engine="seqx",
   technique="explicit-state enumeration of all ingest/flush/rotate histories up to a depth on the real code, compared with a Go reference model at every flushed prefix",
   text="Every history of <=3 (quick) / <=4 (thorough) events over a value-kind alphabet x every placement of {none, flush, flush+rotate} x cardinality limits, plus nested/array/two-column/duplicate-flattened-name shapes, timestamp-gap encodings, >dictionary-limit cardinality and near-record-size values, is executed on the real writer/reader in worker processes and the match-all and per-event point queries are compared with a reference model after every flushed prefix. Small-scope exhaustive, not a proof.",
   note="Outside the bound: >4 events per history, >2 interacting columns, arbitrary unicode. Mixed-kind columns are compared by canonical text (the statement's consolidation tolerance); PQS disabled as a named tunable.",
   ref="DESIGN.md §4 C01"),
}
NOT_YET = {}
props = [json.loads(l) for l in open("properties.jsonl")]
m = {"version": 1, "setup_cmd": "./vcheck setup",
 "hooks": {"guard": "verif (go build tag) + go build -overlay generated from /repo's working tree",
   "enable": "./vcheck builds harness/cmd/sigcheck with `-tags verif -overlay $VERIF_CACHE/overlay.json`; the overlay only ADDS files (harness/overlay/files/...) to siglens packages; nothing is committed in /repo for hooks",
   "baseline_off_cmd": "cd /repo && GOFLAGS=-mod=mod go test -vet=off -count=1 -timeout 25m ./...",
   "source_commits": [], "add_only": True},
 "engines": [
   {"name": "seqx", "path": "harness/props", "serves_properties": [], "kind_free_text": "explicit-state / bounded-exhaustive search over operation histories of the real code in worker subprocesses, with Go reference models"},
 ],
 "checks": [], "not_applicable": [],
 "notes": "All checks: ./vcheck <id> <tier>; exit 0 held / 1 VIOLATION / 2 HARNESS-ERROR. known_findings.json lists recorded and fixed findings."}
for p in props:
    i = p["id"]
    if i in CHECKS:
        c = CHECKS[i]
        m["checks"].append({"property_id": i, "quick_cmd": f"./vcheck {i} quick", "thorough_cmd": f"./vcheck {i} thorough",
          "evidence_file": f"/verif/evidence/{i}.json", "replay_cmd_template": "./vcheck replay {path}", "engine": c["engine"],
          "level_claimed": {"category": c["level"], "text": c["text"], "design_ref": c["ref"]}, "level_note": c["note"], "technique": c["technique"]})
        for e in m["engines"]:
            if e["name"] == c["engine"]: e["serves_properties"].append(i)
    else:
        m["not_applicable"].append({"property_id": i, "reason": NOT_YET.get(i, "check not built yet in this session (bounded-exhaustive formulation exists in DESIGN.md §4); not claimed until its check is committed")})
json.dump(m, open("MANIFEST.json", "w"), indent=1)
print("checks:", [c["property_id"] for c in m["checks"]])
