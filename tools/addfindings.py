#!/usr/bin/env python3
"""Add the violations currently in replays/<prop>/ to known_findings.json as status=known (after manual triage!).
usage: addfindings.py <prop> [regex-on-fingerprint]   — text per cause comes from NOTES below."""
import json, os, re, sys
prop = sys.argv[1]; rx = re.compile(sys.argv[2]) if len(sys.argv) > 2 else None
NOTES = {
 "mixed-block": "a numeric comparison in the search clause does not evaluate numbers stored in a block whose column also holds text (column consolidated to strings); the `where` stage and the reference model do",
 "int-vs-decimal": "integer-typed stored value vs decimal literal in the search clause: fopOnNumber converts UnsignedVal and compareNumberDte compares the truncated SignedVal (and range pruning drops the block), so a>1.5 / a>=2.5 / a=2.0 answer wrongly on int columns",
 "col-absent-in-block": "a block in which the column never occurs: whether its events match depends on the time range and on neighbouring blocks (stale per-column state), so events without the field are returned or events are lost",
 "numstr-block": "a block in which the column holds numbers next to strings that all read as numbers is converted to numbers when it is written; NOT of an equality with a text literal (NOT a=x) then returns nothing at all, although no event equals the literal and the events whose value was sent as a string are subject to the comparison",
 "bool-column": "an equality on a bool column returns nothing when it is the whole search but does filter inside AND/OR, so AND/OR are not intersection/union of their operands' results",
 "negated-free-text": "NOT applied to a free-text term is ignored inside NOT/AND NOT/NOT(... OR ...): events containing the term are returned",
}
f = json.load(open("known_findings.json"))
have = {(x["property"], x["fingerprint"]) for x in f}
d = f"replays/{prop}"
for fn in sorted(os.listdir(d)):
    r = json.load(open(os.path.join(d, fn)))
    fp = r["fingerprint"]
    if rx and not rx.search(fp): continue
    if (prop, fp) in have: continue
    cause = next((c for c in NOTES if "/" + c in fp), None) if prop == "C02" else None
    w = r["what"]
    i = w.find("panic:")
    if i >= 0: w = w[i:i+400]
    what = (NOTES.get(cause, "") + " — witness: " + w[:420]).strip(" —")
    f.append({"property": prop, "fingerprint": fp, "status": "known", "witness": f"{d}/{fn}", "what": what})
    print("added", fp)
json.dump(f, open("known_findings.json", "w"), indent=1)
