#!/bin/bash
# run every check (tier $1, default quick) once, one after the other; summary lines on stdout
tier=${1:-quick}
cd /verif
for i in $(seq -w 1 20); do
  id=C$i
  t0=$(date +%s)
  out=$(./vcheck $id $tier 2>&1); rc=$?
  t1=$(date +%s)
  v=$(echo "$out" | grep -c '^VIOLATION')
  k=$(echo "$out" | grep -c '^KNOWN-FINDING')
  h=$(echo "$out" | grep -c 'HARNESS-ERROR')
  echo "$id rc=$rc violations=$v known=$k harness_errors=$h wall=$((t1-t0))s $(echo "$out" | grep "^$id $tier:" | tail -1)"
  if [ $rc -ne 0 ]; then echo "$out" | grep -A1 '^VIOLATION\|HARNESS-ERROR' | cut -c1-500 | head -20; fi
done
