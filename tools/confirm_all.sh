#!/bin/bash
# confirm every round-2 seeded change (scratch worktrees under /tmp/confirm), P at a time
P=${1:-3}
cd /verif
for p in $(seq -w 1 20); do for m in r2m1 r2m2; do echo "C$p $m"; done; done | xargs -P $P -L 1 sh -c 'python3 tools/seed.py confirm $0 $1 > /var/tmp/seedrec/confirm-$0-$1.log 2>&1; echo "$0 $1 done"'
