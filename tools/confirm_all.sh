#!/bin/bash
# confirm every seeded change of one round (default r2) in scratch worktrees under /tmp/confirm, P at a time
P=${1:-3}; R=${2:-r2}
cd /verif
for p in $(seq -w 1 20); do for m in ${R}m1 ${R}m2; do echo "C$p $m"; done; done | xargs -P $P -L 1 sh -c 'python3 tools/seed.py confirm $0 $1 > /var/tmp/seedrec/confirm-$0-$1.log 2>&1; echo "$0 $1 done"'
