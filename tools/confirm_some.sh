#!/bin/bash
# confirm_some.sh P "C11 r4m1" "C11 r4m2" ... : confirm the named seeded changes in scratch worktrees, P at a time
P=$1; shift
cd /verif
printf '%s\n' "$@" | xargs -P $P -L 1 sh -c 'python3 tools/seed.py confirm $0 $1 > /var/tmp/seedrec/confirm-$0-$1.log 2>&1; echo "$0 $1 done: $(grep -o "\"suite_ok\": [a-z]*\|\"demo_clean_rc\": [0-9]*\|\"demo_patched_rc\": [0-9]*" /var/tmp/seedrec/confirm-$0-$1.log | tr "\n" " ")"'
