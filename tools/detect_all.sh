#!/bin/bash
# run the property's own quick check against every seeded change (both rounds), one after the other
cd /verif
for p in $(seq -w 1 20); do for m in m1 m2 r2m1 r2m2 r3m1 r3m2; do
  python3 tools/seed.py detect C$p $m quick > /var/tmp/seedrec/detectlog-C$p-$m.txt 2>&1
  d=$(grep -o '"detected": [a-z]*' /var/tmp/seedrec/detectlog-C$p-$m.txt | head -1)
  echo "C$p $m $d"
done; done
git -C /repo status --short | head -3
