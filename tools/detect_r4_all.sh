#!/bin/bash
# final detection of every round-4 change by its property's own quick check, on isolated copies. Several run at once, so the
# wall-clock budgets of the checks are raised (VERIF_BUDGET_S): the same enumeration, not cut short by the neighbours' load.
# The checks that use the controlled scheduler run one at a time.
cd /verif
export VERIF_BUDGET_S=1200
one() { python3 tools/seed.py detect_iso $1 $2 quick $3 > /var/tmp/seedrec/final-$1-$2.txt 2>&1; echo "$1 $2 ${3:+by $3 }$(grep -o '"detected": [a-z]*' /var/tmp/seedrec/final-$1-$2.txt | head -1)"; }
export -f one
( for p in 08 11 14 15 17; do for m in r4m1 r4m2; do one C$p $m; done; done; one C08 r4m2 C10 ) &
for p in 01 02 03 04 05 06 07 09 10 12 13 16 18 19 20; do for m in r4m1 r4m2; do echo "C$p $m"; done; done | xargs -P 3 -L 1 bash -c 'one $0 $1'
wait
