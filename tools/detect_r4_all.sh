#!/bin/bash
# final detection of every round-4 change by its property's own quick check, on isolated copies, P at a time
P=${1:-4}
cd /verif
for p in $(seq -w 1 20); do for m in r4m1 r4m2; do echo "C$p $m"; done; done | xargs -P $P -L 1 sh -c 'python3 tools/seed.py detect_iso $0 $1 quick > /var/tmp/seedrec/final-$0-$1.txt 2>&1; echo "$0 $1 $(grep -o "\"detected\": [a-z]*" /var/tmp/seedrec/final-$0-$1.txt | head -1)"'
python3 tools/seed.py detect_iso C08 r4m2 quick C10 > /var/tmp/seedrec/final-C08-r4m2-byC10.txt 2>&1; echo "C08 r4m2 by C10 $(grep -o '"detected": [a-z]*' /var/tmp/seedrec/final-C08-r4m2-byC10.txt | head -1)"
