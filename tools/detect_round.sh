#!/bin/bash
# first contact / re-detection of one round: detect_round.sh r3 [suffix]
r=${1:-r3}
cd /verif
for p in $(seq -w 1 20); do for m in ${r}m1 ${r}m2; do
  [ -f "$(python3 -c "import sys; sys.path.insert(0,'tools'); import seed; print(seed.src('C$p','$m'))")/patch.diff" ] || { echo "C$p $m MISSING"; continue; }
  python3 tools/seed.py detect C$p $m quick > /var/tmp/seedrec/detectlog-C$p-$m.txt 2>&1
  d=$(grep -o '"detected": [a-z]*' /var/tmp/seedrec/detectlog-C$p-$m.txt | head -1)
  echo "C$p $m $d"
done; done
git -C /repo status --short | head -3
