#!/bin/bash
# r4.sh Cxx [round]: confirm the property's delivered changes of the round (scratch worktrees), then first-contact detection of
# each confirmed one by the property's own quick check on an isolated copy (neither /repo nor /verif is touched)
p=$1; r=${2:-r4}
cd /verif
ms="${r}m1 ${r}m2"; [ -n "$3" ] && ms="$3"
for m in $ms; do
  s=$(python3 -c "import sys; sys.path.insert(0,'tools'); import seed; print(seed.src('$p','$m'))")
  [ -f "$s/patch.diff" ] || { echo "$p $m MISSING"; continue; }
  python3 tools/seed.py confirm $p $m > /var/tmp/seedrec/confirm-$p-$m.log 2>&1
  c=$(python3 - <<PY
import json
r=json.load(open('/var/tmp/seedrec/$p-$m.confirm.json'))
ok = r.get('apply_rc')==0 and r.get('build_rc')==0 and r.get('demo_clean_rc')==0 and r.get('demo_patched_rc') not in (0,None) and r.get('suite_ok')
print('CONFIRMED' if ok else 'NOT-CONFIRMED', {k:r.get(k) for k in ('apply_rc','build_rc','demo_clean_rc','demo_patched_rc','suite_ok')})
PY
)
  echo "$p $m $c"
  case "$c" in CONFIRMED*) ;; *) continue;; esac
  python3 tools/seed.py detect_iso $p $m quick > /var/tmp/seedrec/detectlog-$p-$m.txt 2>&1
  cp /var/tmp/seedrec/$p-$m.detect.$p.quick.json /var/tmp/seedrec/$p-$m.firstcontact.json 2>/dev/null
  echo "$p $m $(grep -o '"detected": [a-z]*' /var/tmp/seedrec/detectlog-$p-$m.txt | head -1) $(grep -o '"harness_error": \[[^]]*' /var/tmp/seedrec/detectlog-$p-$m.txt | head -1 | cut -c1-200)"
done
