#!/usr/bin/env python3
"""Seeded-change handling.
  seed.py confirm <Cxx> <mN>        scratch worktree under /tmp/confirm: demo passes on the clean tree, patch applies and builds,
                                    demo fails on the patched tree, the repository's whole test suite passes with the patch
  seed.py detect  <Cxx> <mN> [tier] [check-id]  git -C /repo apply; ./vcheck <check-id or Cxx> <tier>; git -C /repo checkout -- .
  seed.py keep    <Cxx> <mN>        copy patch.diff, demonstration and meta.json (+ confirm/detect records) to /verif/seeded/<Cxx>-<mN>/
Sources are read from /tmp/seed/out-<Cxx>/<mN>/ (what the sub-agent delivered)."""
import json, os, re, shutil, subprocess, sys, time

ENV = dict(os.environ, GOFLAGS="-mod=mod", GOPROXY="off", GOSUMDB="off", GOTOOLCHAIN="local")
REC = "/var/tmp/seedrec"
os.makedirs(REC, exist_ok=True)


def sh(cmd, cwd=None, timeout=3000):
    p = subprocess.run(cmd, shell=True, cwd=cwd, env=ENV, stdout=subprocess.PIPE, stderr=subprocess.STDOUT, text=True, timeout=timeout)
    return p.returncode, p.stdout


def src(pid, m):
    if m.startswith("r2"):  # second round of sub-agents
        return f"/tmp/seed/out2-{pid}/{m[2:]}"
    if m.startswith("r3"):  # third round
        return f"/tmp/seed/out3-{pid}/{m[2:]}"
    if m.startswith("r4"):  # fourth round
        return f"/tmp/seed4/out-{pid}/{m[2:]}"
    return f"/tmp/seed/out-{pid}/{m}"


def demo_target(meta_demo, demo_file):
    # package directory: first "pkg/.../" that precedes a _test.go name or follows "./"
    pk = None
    for rx in (r"(?:<tree>/|\s|^)((?:pkg|cmd)/[\w/\-]+)/[\w\-]+_test\.go", r"\./((?:pkg|cmd)/[\w/\-]+?)/?(?:\s|$|`|\.)", r"in(?:to)? `?((?:pkg|cmd)/[\w/\-]+?)/?`"):
        mm = re.search(rx, meta_demo)
        if mm:
            pk = mm.group(1)
            break
    run = None
    mm = re.search(r"-run[= ]+'?\"?([\w\^\$\|\.\(\)]+)", meta_demo)
    if mm:
        run = mm.group(1)
    if run is None:
        names = re.findall(r"^func (Test\w+)\(", open(demo_file).read(), re.M)
        run = "^(" + "|".join(names) + ")$"
    return pk, run


def confirm(pid, m):
    s = src(pid, m)
    meta = json.load(open(f"{s}/meta.json"))
    rec = {"property": pid, "mutation": m, "time": time.strftime("%F %T")}
    wt = f"/tmp/confirm/{pid}-{m}"
    sh(f"git -C /repo worktree remove --force {wt}")
    shutil.rmtree(wt, ignore_errors=True)
    os.makedirs("/tmp/confirm", exist_ok=True)
    rc, out = sh(f"git -C /repo worktree add --detach {wt} HEAD")
    assert rc == 0, out
    try:
        demo = f"{s}/demo_test.go"
        has_demo = os.path.exists(demo)
        pk, run = (None, None)
        if has_demo:
            pk, run = demo_target(str(meta.get("demo", "")), demo)
            rec["demo_pkg"], rec["demo_run"] = pk, run
        if has_demo and pk:
            shutil.copy(demo, f"{wt}/{pk}/zz_seed_demo_test.go")
            rc, out = sh(f"go test -vet=off -count=1 -run '{run}' ./{pk}/", cwd=wt)
            rec["demo_clean_rc"] = rc
            rec["demo_clean_tail"] = out[-1500:]
            os.remove(f"{wt}/{pk}/zz_seed_demo_test.go")
        rc, out = sh(f"git apply {s}/patch.diff", cwd=wt)
        rec["apply_rc"] = rc
        if rc != 0:
            rec["apply_out"] = out
            return rec
        rc, out = sh("go build ./...", cwd=wt)
        rec["build_rc"] = rc
        if rc != 0:
            rec["build_out"] = out[-2000:]
            return rec
        if has_demo and pk:
            shutil.copy(demo, f"{wt}/{pk}/zz_seed_demo_test.go")
            rc, out = sh(f"go test -vet=off -count=1 -run '{run}' ./{pk}/", cwd=wt)
            rec["demo_patched_rc"] = rc
            rec["demo_patched_tail"] = out[-2500:]
            os.remove(f"{wt}/{pk}/zz_seed_demo_test.go")
        rc, out = sh("go test -vet=off -count=1 -timeout 25m ./... 2>&1 | grep -v 'no test files' | grep -v '^ok'", cwd=wt)
        bad = out.strip()
        bad0 = bad
        if bad and "multiplexer" in bad:
            # known timing-flaky package of the unmodified tree (channel-timing assertions): re-run it alone
            rc2, out2 = sh("go test -vet=off -count=1 ./pkg/ast/pipesearch/multiplexer/", cwd=wt)
            rec["multiplexer_rerun_rc"] = rc2
            if rc2 == 0:
                bad = "\n".join(l for l in bad.splitlines() if "multiplexer" not in l and not l.startswith(("---", "panic", "\t", "goroutine", "[signal", "FAIL", "    ")) ).strip()
        if bad:
            # load-sensitive tests of the unmodified tree (timing assertions) fail now and then when many suites run at once:
            # every package the run reports as failed is re-run alone; the suite counts as passed only if each of them passes then
            pkgs = sorted(set(re.findall(r"^FAIL\s+github.com/siglens/siglens/(\S+)", bad0, re.M)))
            rer = {}
            for pk_ in pkgs:
                rc3, out3 = sh(f"go test -vet=off -count=1 ./{pk_}/", cwd=wt)
                rer[pk_] = rc3
            rec["failed_packages_rerun_alone"] = rer
            if pkgs and all(v == 0 for v in rer.values()):
                rec["suite_failures_first_run"] = bad[-1500:]
                bad = ""
        rec["suite_failures"] = bad[-3000:]
        rec["suite_ok"] = bad == ""
        return rec
    finally:
        sh(f"git -C /repo worktree remove --force {wt}")
        shutil.rmtree(wt, ignore_errors=True)
        json.dump(rec, open(f"{REC}/{pid}-{m}.confirm.json", "w"), indent=1)


def detect(pid, m, tier="quick", check=None):
    check = check or pid
    s = src(pid, m)
    if not os.path.exists(s):
        s = f"/verif/seeded/{pid}-{m}"
    rc, out = sh("git -C /repo status --porcelain")
    assert out.strip() == "", "/repo is not clean: " + out
    rc, out = sh(f"git -C /repo apply {s}/patch.diff")
    assert rc == 0, out
    t0 = time.time()
    try:
        rc, out = sh(f"./vcheck {check} {tier}", cwd="/verif", timeout=4000)
    finally:
        sh("git -C /repo checkout -- .")
        sh("git -C /repo clean -fdq pkg cmd")
    lines = [l for l in out.splitlines() if not l.startswith("time=")]
    vio = [l for l in lines if l.startswith("VIOLATION")]
    fps = [l.strip() for l in lines if l.strip().startswith("fingerprint=")]
    summ = [l for l in lines if re.match(r"^C\d\d (quick|thorough):", l)]
    rec = {"property": pid, "mutation": m, "check": check, "tier": tier, "exit": rc, "violations": len(vio), "detected": rc == 1 and len(vio) > 0,
           "fingerprints": [f[:400] for f in fps[:8]], "summary": summ, "wall_s": round(time.time() - t0, 1),
           "harness_error": [l for l in lines if "HARNESS-ERROR" in l][:3]}
    json.dump(rec, open(f"{REC}/{pid}-{m}.detect.{check}.{tier}.json", "w"), indent=1)
    # the violation replays and the evidence written by this run describe the seeded tree, not /repo: drop them
    rc2, st = sh("git -C /verif status --porcelain -- replays evidence")
    for l in st.splitlines():
        path = l[3:].strip()
        if l.startswith("??"):
            p = "/verif/" + path
            shutil.rmtree(p, ignore_errors=True) if os.path.isdir(p) else os.remove(p)
        else:
            sh(f"git -C /verif checkout -- '{path}'")
    return rec


def detect_iso(pid, m, tier="quick", check=None):
    """Same as detect, but on a private copy: a scratch worktree of /repo with the patch applied and a copy of /verif whose
    harness module points at it (VERIF_REPO, own VERIF_CACHE). /repo and /verif are not touched, so several can run at once."""
    check = check or pid
    s = src(pid, m)
    if not os.path.exists(s):
        s = f"/verif/seeded/{pid}-{m}"
    base = f"/var/tmp/det/{pid}-{m}-{check}"
    sh(f"git -C /repo worktree remove --force {base}/repo")
    shutil.rmtree(base, ignore_errors=True)
    os.makedirs(base)
    t0 = time.time()
    try:
        rc, out = sh(f"git -C /repo worktree add --detach {base}/repo HEAD")
        assert rc == 0, out
        rc, out = sh(f"git apply {s}/patch.diff", cwd=f"{base}/repo")
        assert rc == 0, out
        rc, out = sh(f"rsync -a --exclude .git --exclude seeded /verif/ {base}/verif/")
        assert rc == 0, out
        rc, out = sh(f"go mod edit -replace github.com/siglens/siglens={base}/repo", cwd=f"{base}/verif/harness")
        assert rc == 0, out
        env = f"VERIF_REPO={base}/repo VERIF_CACHE={base}/cache"
        rc, out = sh(f"{env} ./vcheck {check} {tier}", cwd=f"{base}/verif", timeout=4000)
    finally:
        sh(f"git -C /repo worktree remove --force {base}/repo")
        shutil.rmtree(base, ignore_errors=True)
    lines = [l for l in out.splitlines() if not l.startswith("time=")]
    vio = [l for l in lines if l.startswith("VIOLATION")]
    fps = [l.strip() for l in lines if l.strip().startswith("fingerprint=")]
    summ = [l for l in lines if re.match(r"^C\d\d (quick|thorough):", l)]
    rec = {"property": pid, "mutation": m, "check": check, "tier": tier, "exit": rc, "violations": len(vio), "detected": rc == 1 and len(vio) > 0,
           "fingerprints": [f[:400] for f in fps[:8]], "summary": summ, "wall_s": round(time.time() - t0, 1), "isolated_copy": True,
           "harness_error": [l for l in lines if "HARNESS-ERROR" in l][:3]}
    json.dump(rec, open(f"{REC}/{pid}-{m}.detect.{check}.{tier}.json", "w"), indent=1)
    open(f"{REC}/{pid}-{m}.detect.{check}.{tier}.log", "w").write("\n".join(lines[-200:]))
    return rec


def keep(pid, m):
    s = src(pid, m)
    d = f"/verif/seeded/{pid}-{m}"
    os.makedirs(d, exist_ok=True)
    for f in os.listdir(s):
        if f.endswith((".diff", ".go", ".md", ".json")) or (f.startswith("demo") and f.endswith(".txt")):
            if os.path.getsize(f"{s}/{f}") < 200_000 and f != "x.diff":
                shutil.copy(f"{s}/{f}", f"{d}/{f}")
    for f in os.listdir(REC):
        if f.startswith(f"{pid}-{m}.") and f.endswith(".json"):
            shutil.copy(f"{REC}/{f}", f"{d}/{f[len(pid)+len(m)+2:]}")
    print("kept", d)


if __name__ == "__main__":
    cmd, pid, m = sys.argv[1:4]
    if cmd == "confirm":
        r = confirm(pid, m)
        print(json.dumps({k: v for k, v in r.items() if not k.endswith("_tail")}, indent=1))
    elif cmd == "detect":
        r = detect(pid, m, *(sys.argv[4:6]))
        print(json.dumps(r, indent=1))
    elif cmd == "detect_iso":
        r = detect_iso(pid, m, *(sys.argv[4:6]))
        print(json.dumps(r, indent=1))
    elif cmd == "keep":
        keep(pid, m)
