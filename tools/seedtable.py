#!/usr/bin/env python3
"""Regenerate /verif/seeded/README.md (the detection table) from the kept seeded changes."""
import json, os, glob
root = "/verif/seeded"
first = json.load(open(f"{root}/first_pass.json"))
rows = []
for d in sorted(glob.glob(f"{root}/C*-m[0-9]") + glob.glob(f"{root}/C*-r2m[0-9]") + glob.glob(f"{root}/C*-r3m[0-9]") + glob.glob(f"{root}/C*-r4m[0-9]")):
    sid = os.path.basename(d)
    meta = json.load(open(f"{d}/meta.json"))
    det = None
    for f in sorted(glob.glob(f"{d}/detect.*.json")):
        r = json.load(open(f))
        if r.get("check") == sid[:3] and (det is None or r.get("detected")):
            det = r
    conf = json.load(open(f"{d}/confirm.json")) if os.path.exists(f"{d}/confirm.json") else {}
    fp = ""
    if det and det.get("fingerprints"):
        fp = det["fingerprints"][0].split(":")[0].replace("fingerprint=", "")
    fpass = first.get(sid, {})
    rows.append((sid, ", ".join(meta.get("files", [])), str(meta.get("summary", ""))[:160].replace("|", "\\|").replace("\n", " "),
                 "yes" if conf.get("suite_ok") and conf.get("demo_clean_rc") == 0 and conf.get("demo_patched_rc") not in (0, None) else "partly",
                 "yes" if fpass.get("detected") else ("no (" + fpass["detected_by_other_check"] + " did)" if fpass.get("detected_by_other_check") else "no"),
                 ("yes, " + det["tier"]) if det and det.get("detected") else "NO", fp, fpass.get("action", "")))
out = ["# Seeded property-breaking changes and what the checks do with them", "",
       "Each directory holds `patch.diff` (apply with `git -C /repo apply <file>`, undo with `git -C /repo checkout -- .`), the sub-agent's",
       "demonstration (`demo_test.go` and its two outputs, or `demo.md`), `meta.json`, my confirmation record (`confirm.json`: the demonstration",
       "passes on the clean tree and fails on the changed one, the change builds, the repository's whole suite passes with it) and the",
       "record(s) of the property's own check run against it (`detect.*.json`).", "",
       "| change | file | what it does | confirmed | caught at first contact | caught now | fingerprint | how the check was generalised after a miss |", "|---|---|---|---|---|---|---|---|"]
for r in rows:
    out.append("| " + " | ".join(r) + " |")
n = len(rows)
out += ["", f"{n} changes; {sum(1 for r in rows if r[4] == 'yes')} were caught by the property's own quick check before any strengthening, "
        f"{sum(1 for r in rows if r[5].startswith('yes'))} are caught by it now."]
for tag, name in (("-r2", "Second"), ("-r3", "Third"), ("-r4", "Fourth")):
    rr = [r for r in rows if tag in r[0]]
    if rr:
        out += [f"{name} round alone: {len(rr)} changes, {sum(1 for r in rr if r[4] == 'yes')} at first contact, {sum(1 for r in rr if r[5].startswith('yes'))} now."]
open(f"{root}/README.md", "w").write("\n".join(out) + "\n")
print("\n".join(out[-2:]))
