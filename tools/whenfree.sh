#!/bin/bash
# whenfree.sh N cmd...: start cmd once fewer than N confirm/detect jobs are running
n=$1; shift
while [ "$(pgrep -fc 'seed.py (confirm|detect_iso)')" -ge "$n" ]; do sleep 10; done
exec "$@"
